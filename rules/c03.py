"""C03 -- Translated SystemVerilog behaves exactly like the PyMTL simulation.  (DESIGN.md section 4, C03 / C12)

Static analysis of the translator only; nothing is imported, elaborated, translated or simulated.  All rule bodies
live in sa/tr_util.py (shared with C12) and are run here for the SystemVerilog back-end (`VTranslator`)."""
from functools import partial

from sa import tr_util as T

PID = 'C03'
BACKEND = 'sv'

EXPLANATION = (
    "Static analysis of the RTLIR front end (BehavioralRTLIRGen/TypeCheck, StructuralRTLIRGen/SignalExpr), the generic "
    "translator and the SystemVerilog back-end; the translator class VTranslator is linked statically (the class factories "
    "mk_RTLIRTranslator / mk_VTranslator are resolved at their call sites, C3 linearisation of the mix-in towers), the emitter "
    "methods are executed symbolically and the strings they build are partially evaluated into Verilog skeletons with holes. "
    "Decided (necessary conditions of the property, for every design): R-tr-hooks -- every abstract rtlir_tr_* hook is "
    "overridden with a compatible arity and every hook call matches the definition that wins in the MRO; R-tr-handlers -- every "
    "behavioural IR node the front end can build has an emitting visit_* that consults all its fields, every signal-expression "
    "class has a branch in rtlir_signal_expr_translation that recurses on the base as an intermediate expression and forwards "
    "index/attr/slice/status; R-tr-optable -- Python operator -> RTLIR operator -> emitted token equals the IEEE-1800 operator "
    "with the same two-state unsigned meaning (frozen reference table), operands keep their order and are parenthesised, "
    "zext/sext/trunc/concat/reduce_* map to their node and token, the type checker folds constants with the same operator; "
    "R-tr-assign -- @= -> blocking `=`, <<= -> non-blocking `<=`, update blocks -> always_comb, update_ff blocks -> always_ff "
    "@(posedge clk), blocks partitioned exactly, statements in source order; R-tr-slice -- [upper-1:lower], [base +: size], sign "
    "extension replicates the operand's msb target-current times, zero extension pads on the MSB side, truncation keeps the low "
    "bits (judged over a grid of target/operand widths); R-tr-width-cast -- numbers, free variables, loop variables, implicit "
    "temporaries and constant attributes are emitted with an explicit size taken from node.Type, loop indices are sized for the "
    "largest value of the range; the digits of every <W>'d<V> literal of a user-supplied Python int are int() of the value brought "
    "into 0..2**W-1 on every path (text-building helpers such as sized_decimal are looked through and evaluated for a few (W, value)), "
    "and a declared constant that can be negative is used as N'( $signed( name ) ) (sign/zero extension of the declared two's "
    "complement evaluated against value mod 2**N); R-tr-conn -- each adjacency edge is attributed to the one hosting component (four-case relation "
    "evaluated over all host configurations), (writer, reader) orientation is kept down to `assign reader = writer`; "
    "R-tr-sigexpr -- connected signals are rebuilt attribute-then-indices-in-order, slice last; R-tr-for -- loop comparison and "
    "increment follow the sign of the step; R-tr-modname -- definition and instantiation use the same module name rule, per "
    "element of a component array, and constructor defaults are aligned correctly in the parameter list that forms the name; "
    "R-tr-constcache -- constants memoised by AST node live only as long as the block/closure they were resolved for; "
    "R-tr-index-queue -- while array indices are pending in the visitor's shared index queue no other sub-expression is translated; "
    "R-tr-dedup-scope -- the container used to skip an already emitted module definition is created by the same translate() call; "
    "R-tr-loop-state -- per-iteration locals of the generator loops are defined in the same iteration on every path before use; "
    "R-tr-memo-scope -- no class- / module-level container is written by translator code unless keyed by the described object; "
    "R-tr-ident-intact -- identifiers in templates may be padded but never truncated (format precision, constant-length prefix); "
    "R-tr-name-scope -- a bare name resolves as loop variable > known temporary > new temporary (store only); "
    "R-tr-dims-order -- unpacked dimensions are declared outermost array first, the order in which accesses index the name; the "
    "recursion into a nested interface hands down translated array types that carry every enclosing dimension (evaluated on tokens); "
    "R-tr-const-inline -- a back-end that declares no constants inlines or rejects every constant-array access; "
    "R-tr-ifc-source -- every interface flattener iterates get_all_properties_packed (nested interfaces included); "
    "R-tr-range -- range(a) / range(a,b) / range(a,b,c) are read as (0,a,1) / (a,b,1) / (a,b,c); "
    "R-tr-block-state -- the closure table a per-block visitor fills in enter() is created afresh there; "
    "R-tr-rtype-eq -- RTLIR type equality (which admits a list as an array whose elements share the declaration of element 0) holds "
    "only for identically declared elements: Component over port lists, InterfaceView over class and ports, Port/Wire/Const/Array "
    "over every declaring member (evaluated by interpreting __eq__ on abstract objects); "
    "R-tr-port-skip -- gen_mapped_ports leaves out clk iff not has_clk and reset iff not has_reset (4 flag combinations x 3 ports); "
    "R-tr-dims-elem -- a dimension list and a type taken from one array and handed on together describe that array "
    "(get_sub_dtype with all dimensions; get_next_dim_type peels one), evaluated on a [2][3] array; "
    "R-tr-dims-recursion -- a generator that peels one array dimension per recursion level reaches its leaf once per index tuple "
    "(interpreted on [2,3] and [3,2]); R-tr-sections -- every non-empty section handed to rtlir_tr_component appears exactly once in "
    "the module text, for every empty / non-empty combination tried; R-tr-rtype-eq also interprets the admission test of "
    "_handle_Array on lists of 1..4 elements with the odd element at every position; R-tr-loop-state also refuses an accumulator "
    "created before a loop, grown and handed on inside it and never read after it; "
    "R-layout-agree -- struct literals / concat / struct construction put the first field (argument) most significant and "
    "packed-array element 0 least significant. "
    "NOT decided: cycle-for-cycle behavioural equivalence of arbitrary designs, syntactic validity of arbitrary emitted text "
    "(only the sized decimal literals are decided: digits from int(), two's complement of a negative value), single-driver of the emitted text, the type checker's width inference itself (C10), placeholders.")
ASSUMPTIONS = [
    "IEEE-1800 two-state semantics of the operators in the reference table on equal-width unsigned operands; N'(x) keeps the low N bits / zero-extends",
    "the type checker (C10) gives both operands of a binary operator equal widths and sets node.Type to the width the simulation uses",
    "operands of extension / truncation / slicing are vectors (rdt.Vector); a bir.Slice with constant bounds has width upper-lower",
    "rdt.Struct.get_all_properties() lists fields in bitstruct declaration order, first field most significant (C06)",
    "Python evaluates call arguments left to right (writer expression is translated before the reader expression)",
    "helper code outside the anchored translator classes (make_indent, pretty_concat) only changes white space",
]

RULES = [partial(f, backend=BACKEND) for f in (
    T.rule_hooks, T.rule_handlers, T.rule_optable, T.rule_assign, T.rule_slice, T.rule_width_cast, T.rule_conn,
    T.rule_sigexpr, T.rule_for, T.rule_modname, T.rule_constcache, T.rule_layout, T.rule_index_queue, T.rule_dedup_scope,
    T.rule_loop_state, T.rule_memo_scope, T.rule_ident_intact, T.rule_name_scope, T.rule_dims_order, T.rule_const_inline,
    T.rule_ifc_source, T.rule_range_args, T.rule_block_state, T.rule_rtype_eq, T.rule_port_skip, T.rule_dims_elem, T.rule_dims_recursion,
    T.rule_component_sections)]
for _f, _g in zip(RULES, (T.rule_hooks, T.rule_handlers, T.rule_optable, T.rule_assign, T.rule_slice, T.rule_width_cast,
                          T.rule_conn, T.rule_sigexpr, T.rule_for, T.rule_modname, T.rule_constcache, T.rule_layout,
                          T.rule_index_queue, T.rule_dedup_scope, T.rule_loop_state, T.rule_memo_scope, T.rule_ident_intact,
                          T.rule_name_scope, T.rule_dims_order, T.rule_const_inline, T.rule_ifc_source, T.rule_range_args,
                          T.rule_block_state, T.rule_rtype_eq, T.rule_port_skip, T.rule_dims_elem, T.rule_dims_recursion,
                          T.rule_component_sections)):
    _f.__name__ = _g.__name__


def rule_typecheck_bounds(repo):
    """the emitter trusts the type checker: a constant index / part-select that reaches it is in range and node.Type is the width
    the simulation uses (a negative constant index would be emitted as a wrapped unsigned index).  Shared with C10
    (R-C10-widthtable: index / slice bound checks and result widths)."""
    from rules.c10 import rule_widthtable
    return rule_widthtable(repo)


RULES.append(rule_typecheck_bounds)


def rule_operand_types_intact(repo):
    """the emitter decides padding / size casts of zext, trunc, sext and reductions from the operand's type next to the result's
    type: the type checker must re-size only fresh copies of a type object, never the operand's own (a zext whose operand took
    the target width is emitted as the bare operand).  Shared with C05 (R-C05-type-alias)."""
    from rules.c05 import rule_type_objects
    return rule_type_objects(repo)


RULES.append(rule_operand_types_intact)


def rule_param_record(repo):
    """two instances share one emitted module iff their names are equal; the name is built from the recorded construct
    arguments, so the record must hold what construct() was really called with (set_param included).  Shared with C13
    (R-C13-name)."""
    from rules.c13 import rule_name
    res = rule_name(repo)
    # the argument-record clause (Component._construct / _gen_parameters), and the character set of the module name
    # (get_component_unique_name): "the emitted text is always syntactically valid" is part of C03, so C13's known finding
    # D13 (str() of tuples / negative numbers / strings puts , ( ' - = into module names) is listed for C03 as well
    keep = lambda fn: '_construct' in fn or '_gen_parameters' in fn or 'get_component_unique_name' in fn
    res.findings = [f for f in res.findings if keep(f.func)]
    res.instances = [i for i in res.instances if i['verdict'] != 'VIOLATED' or keep(i['function'])]
    return res


RULES.append(rule_param_record)

# ---------------------------------------------------------------------------
# self-test of the checker
GEN1, GEN2 = T.GEN[1], T.GEN[2]
TC2 = T.TC[2]
VB1, VB2, VB3 = T.SV_B[1], T.SV_B[2], T.SV_B[3]
VS1, VS2, VS3, VS4 = T.SV_S[1], T.SV_S[2], T.SV_S[3], T.SV_S[4]
UTIL = 'pymtl3/passes/backends/verilog/util/utility.py'


def _m(name, file, old, new, rule=None, count=1):
    return dict(name=name, file=file, old=old, new=new, rule=rule, count=count)


MUTANTS = [
    dict(name='for-body-comprehension-after-unregistering', rule='R-tr-name-scope', edits=[
        dict(file=GEN2, old="    # Then visit all statements inside the loop\n    body = []\n    for body_stmt in node.body:\n      body.append( s.visit( body_stmt ) )\n", new="", count=1),
        dict(file=GEN2, old="    s.loop_var_env.remove( loop_var_name )\n", new="    s.loop_var_env.remove( loop_var_name )\n    body = [ s.visit( body_stmt ) for body_stmt in node.body ]\n", count=1)]),
    _m('countdown-without-wrap-guard', VB2, "      guard = f\" && {loop_var} <= {start}\"", "      guard = ''", 'R-tr-for'),
    _m('countdown-guard-compares-with-end', VB2, "      guard = f\" && {loop_var} <= {start}\"", "      guard = f\" && {loop_var} <= {end}\"", 'R-tr-for'),
    _m('negative-constant-step-emitted-as-translated', VB2, "        step_abs = str( -int( node.step._value ) )", "        pass", 'R-tr-for'),
    _m('negative-constant-step-keeps-its-sign', VB2, "        step_abs = str( -int( node.step._value ) )", "        step_abs = str( int( node.step._value ) )", 'R-tr-for'),
    # round-9 kinds
    _m('component-array-index-pushed-at-the-front', VS4, "  def rtlir_tr_component_array_index( s, base_signal, index, status ):\n    s._rtlir_tr_unpacked_q.append( index )", "  def rtlir_tr_component_array_index( s, base_signal, index, status ):\n    s._rtlir_tr_unpacked_q.appendleft( index )", 'R-tr-dims-order'),
    _m('interface-array-index-pushed-at-the-front', VS3, "  def rtlir_tr_interface_array_index( s, base_signal, index, status ):\n    s._rtlir_tr_unpacked_q.append( index )", "  def rtlir_tr_interface_array_index( s, base_signal, index, status ):\n    s._rtlir_tr_unpacked_q.appendleft( index )", 'R-tr-dims-order'),
    _m('pending-indices-emitted-newest-first', VS1, "[f'[{i}]' for i in list(s._rtlir_tr_unpacked_q)]", "[f'[{i}]' for i in reversed(s._rtlir_tr_unpacked_q)]", 'R-tr-dims-order'),
    dict(name='for-begin-end-via-local-counts-ir-statements', rule='R-tr-assign', edits=[
        dict(file=VB2, old="    begin    = ' begin' if s.count_stmts( node.body ) > 1 else ''\n\n    cmp_op", new="    multi    = len( node.body ) > 1\n    begin    = ' begin' if multi else ''\n\n    cmp_op", count=1),
        dict(file=VB2, old="    if s.count_stmts( node.body ) > 1:\n      src.extend( [ 'end' ] )", new="    if multi:\n      src.extend( [ 'end' ] )", count=1)]),
    # round-8 kinds: aliasing of shared mutable state / loop-control slips / slips in generated text / key-identity collisions
    _m('array-admission-compares-second-element-only', T.RTYPE, "    for x in obj[1:]:\n      assert self.get_rtlir(x) == ref_type, \\\n", "    for x in obj[1:2]:\n      assert self.get_rtlir(x) == ref_type, \\\n", 'R-tr-rtype-eq'),
    _m('array-admission-skips-second-element', T.RTYPE, "    for x in obj[1:]:\n      assert self.get_rtlir(x) == ref_type, \\\n", "    for x in obj[2:]:\n      assert self.get_rtlir(x) == ref_type, \\\n", 'R-tr-rtype-eq'),
    _m('array-admission-stops-after-first-comparison', T.RTYPE, "    for x in obj[1:]:\n      assert self.get_rtlir(x) == ref_type, \\\n             f'all elements of array {obj} must have the same type {repr(ref_type)}!'\n",
       "    for x in obj[1:]:\n      assert self.get_rtlir(x) == ref_type, \\\n             f'all elements of array {obj} must have the same type {repr(ref_type)}!'\n      break\n", 'R-tr-rtype-eq'),
    dict(name='ifc-ports-accumulator-hoisted-out-of-the-interface-loop', rule='R-tr-loop-state', edits=[
        dict(file=T.G_S4, old="        ports = []\n        all_ifc_ports = ifc_port_rtype.get_all_properties_packed()", new="        all_ifc_ports = ifc_port_rtype.get_all_properties_packed()", count=1),
        dict(file=T.G_S4, old="      # Translate interfaces of the subcomponent\n", new="      # Translate interfaces of the subcomponent\n      ports = []\n", count=1)]),
    _m('sv-body-omits-temporaries', T.SV_TR, "        body = const_decls + fvar_decls + wire_decls + subcomp_decls \\\n             + tmpvar_decls + upblk_decls", "        body = const_decls + fvar_decls + wire_decls + subcomp_decls \\\n             + upblk_decls", 'R-tr-sections'),
    _m('sv-connections-replace-the-body', T.SV_TR, "          connections = '\\n' + connections\n        body += connections", "          connections = '\\n' + connections\n        body = connections", 'R-tr-sections'),
    _m('sv-port-separator-overwrites-ports', T.SV_TR, "          if port_decls and ifc_decls:\n            port_decls += ',\\n'\n          ifc_decls += '\\n'\n        ports = ports_template.format(**locals())\n\n        const_decls",
       "          if port_decls and ifc_decls:\n            port_decls = ',\\n'\n          ifc_decls += '\\n'\n        ports = ports_template.format(**locals())\n\n        const_decls", 'R-tr-sections'),
    _m('sv-array-param-peels-last-dimension', VS1, "        ret.append( s.gen_array_param( n_dim[1:], dtype, array[idx] ) )", "        ret.append( s.gen_array_param( n_dim[:-1], dtype, array[idx] ) )", 'R-tr-dims-recursion'),
    _m('sv-packed-array-literal-peels-last-dimension', VS2, "          ret.append( _gen_packed_array( dtype, n_dim[1:], array[i] ) )", "          ret.append( _gen_packed_array( dtype, n_dim[:-1], array[i] ) )", 'R-tr-dims-recursion'),
    # round-7 kinds: boundary slip / wrong one of two similar names / and-or-not slip / wrong similar API
    _m('interface-view-eq-name-only', T.RTYPE, "    return isinstance(other, InterfaceView) and s.name == other.name and \\\n           s.properties == other.properties", "    return isinstance(other, InterfaceView) and s.name == other.name", 'R-tr-rtype-eq'),
    _m('interface-view-eq-name-or-ports', T.RTYPE, "    return isinstance(other, InterfaceView) and s.name == other.name and \\\n           s.properties == other.properties", "    return isinstance(other, InterfaceView) and s.name == other.name or \\\n           s.properties == other.properties", 'R-tr-rtype-eq'),
    _m('component-eq-length-or-ports', T.RTYPE, "    return (len(u)==len(v)) and all(_u == _v for _u, _v in zip(u, v))", "    return (len(u)==len(v)) or all(_u == _v for _u, _v in zip(u, v))", 'R-tr-rtype-eq'),
    _m('component-eq-ignores-length', T.RTYPE, "    return (len(u)==len(v)) and all(_u == _v for _u, _v in zip(u, v))", "    return all(_u == _v for _u, _v in zip(u, v))", 'R-tr-rtype-eq'),
    _m('component-eq-any-port', T.RTYPE, "    return (len(u)==len(v)) and all(_u == _v for _u, _v in zip(u, v))", "    return (len(u)==len(v)) and any(_u == _v for _u, _v in zip(u, v))", 'R-tr-rtype-eq'),
    _m('array-eq-ignores-dimensions', T.RTYPE, "    if s.dim_sizes != other.dim_sizes: return False\n", "", 'R-tr-rtype-eq'),
    _m('port-eq-direction-or-dtype', T.RTYPE, "    return isinstance(other, Port) and s.dtype == other.dtype and \\\n           s.direction == other.direction", "    return isinstance(other, Port) and s.dtype == other.dtype or \\\n           s.direction == other.direction", 'R-tr-rtype-eq'),
    _m('clk-reset-skips-merged', UTIL, "    if not has_clk and name == 'clk':      continue\n    if not has_reset and name == 'reset':  continue\n", "    if name in ( 'clk', 'reset' ) and not ( has_clk and has_reset ):  continue\n", 'R-tr-port-skip', count=1),
    _m('reset-skip-tests-has-clk', UTIL, "    if not has_reset and name == 'reset':  continue\n", "    if not has_clk and name == 'reset':  continue\n", 'R-tr-port-skip'),
    _m('clk-skipped-when-present', UTIL, "    if not has_clk and name == 'clk':      continue\n", "    if has_clk and name == 'clk':      continue\n", 'R-tr-port-skip'),
    _m('struct-instance-packed-array-peels-one-dimension', VS2, "        n_dim = Type.get_dim_sizes()\n        sub_dtype = Type.get_sub_dtype()", "        n_dim = Type.get_dim_sizes()\n        sub_dtype = Type.get_next_dim_type()", 'R-tr-dims-elem'),
    _m('nested-ifc-recursion-drops-nested-dims', VS4, "                  f'{ifc_id}__{port_id}', port_rtype, combined_ifc_array_type,", "                  f'{ifc_id}__{port_id}', port_rtype, ifc_array_type,", 'R-tr-dims-order'),
    _m('nested-ifc-recursion-passes-nested-dims-only', VS4, "                  f'{ifc_id}__{port_id}', port_rtype, combined_ifc_array_type,", "                  f'{ifc_id}__{port_id}', port_rtype, port_array_type,", 'R-tr-dims-order'),
    # R-tr-hooks
    _m('hook-override-renamed', VS2, "def rtlir_tr_packed_index( s, base_signal, index, status ):",
       "def rtlir_tr_packed_idx( s, base_signal, index, status ):", 'R-tr-hooks'),
    _m('hook-override-arity', VS1, "def rtlir_tr_wire_array_index( s, base_signal, index, status ):",
       "def rtlir_tr_wire_array_index( s, base_signal, index ):", 'R-tr-hooks'),
    _m('hook-call-drops-status', T.G_S1, "return s.rtlir_tr_current_comp( comp_id, comp_rtype, status )",
       "return s.rtlir_tr_current_comp( comp_id, comp_rtype )", 'R-tr-hooks'),
    _m('hook-call-extra-arg', T.G_S2, "return s.rtlir_tr_struct_instance(dtype, value)",
       "return s.rtlir_tr_struct_instance(dtype, value, status)", 'R-tr-hooks'),
    # R-tr-handlers
    _m('handler-ifexp-lost', VB2, "  def visit_IfExp( s, node ):\n    node.cond._top_expr = True",
       "  def visit_IfExpr( s, node ):\n    node.cond._top_expr = True", 'R-tr-handlers'),
    _m('sexp-delegation-drops-status', T.G_S3, "return super().rtlir_signal_expr_translation(expr, m, status)",
       "return super().rtlir_signal_expr_translation(expr, m)", 'R-tr-handlers'),
    _m('sexp-base-translated-with-status', T.G_S2,
       "s.rtlir_signal_expr_translation(expr.get_base(), m), expr.get_attr(), status)",
       "s.rtlir_signal_expr_translation(expr.get_base(), m, status), expr.get_attr(), status)", 'R-tr-handlers'),
    _m('part-selection-bounds-swapped', T.G_S1, "start, stop = expr.get_slice()[0], expr.get_slice()[1]",
       "start, stop = expr.get_slice()[1], expr.get_slice()[0]", 'R-tr-handlers'),
    _m('sexp-class-unhandled', T.G_S3, "elif isinstance( expr, sexp.InterfaceViewIndex ):",
       "elif isinstance( expr, sexp.ComponentIndex ):", 'R-tr-handlers'),
    # R-tr-optable
    _m('opmap-lt-lte-swapped', GEN2, "ast.Lt     : bir.Lt(),        ast.LtE    : bir.LtE(),",
       "ast.Lt     : bir.LtE(),       ast.LtE    : bir.Lt(),", 'R-tr-optable'),
    _m('ops-shift-right-arith', VB2, "bir.ShiftLeft : '<<', bir.ShiftRightLogic : '>>',",
       "bir.ShiftLeft : '<<', bir.ShiftRightLogic : '>>>',", 'R-tr-optable'),
    _m('ops-row-missing', VB2, "bir.Mod : '%', bir.Pow : '**',", "bir.Pow : '**',", 'R-tr-optable'),
    _m('binop-operands-swapped', VB2, "return f'{lhs} {op} {rhs}'", "return f'{rhs} {op} {lhs}'", 'R-tr-optable', count='first'),
    _m('binop-not-parenthesised', VB2, "        ( bir.IfExp, bir.UnaryOp, bir.BinOp, bir.Compare ) ):",
       "        ( bir.IfExp, bir.UnaryOp, bir.Compare ) ):", 'R-tr-optable'),
    _m('reduce-and-or-swapped', VB1, "reduce_ops = { bir.BitAnd : '&', bir.BitOr : '|', bir.BitXor : '^' }",
       "reduce_ops = { bir.BitAnd : '|', bir.BitOr : '&', bir.BitXor : '^' }", 'R-tr-optable'),
    _m('sext-becomes-zext', GEN1, "ret = bir.SignExt( nbits, s.visit( node.args[0] ) )",
       "ret = bir.ZeroExt( nbits, s.visit( node.args[0] ) )", 'R-tr-optable'),
    _m('reduce-or-builds-xor', GEN1, "      elif obj is reduce_or:\n        op = bir.BitOr()",
       "      elif obj is reduce_or:\n        op = bir.BitXor()", 'R-tr-optable'),
    _m('fold-shifts-swapped', TC2, "bir.ShiftLeft : '<<',  bir.ShiftRightLogic : '>>',",
       "bir.ShiftLeft : '>>',  bir.ShiftRightLogic : '<<',", 'R-tr-optable'),
    _m('ifexp-arms-swapped', VB2, "return f'{cond} ? {true} : {false}'", "return f'{cond} ? {false} : {true}'", 'R-tr-optable'),
    _m('unary-op-after-operand', VB2, "return f'{op}{operand}'", "return f'{operand}{op}'", 'R-tr-optable'),
    # R-tr-assign
    _m('aug-assign-blocking-inverted', GEN1, "blocking = False if isinstance(node.op, ast.LShift) else True",
       "blocking = False if isinstance(node.op, ast.MatMult) else True", 'R-tr-assign'),
    _m('assign-op-inverted', VB1, "assignment_op = '<=' if not node.blocking else '='",
       "assignment_op = '<=' if node.blocking else '='", 'R-tr-assign'),
    _m('always-ff-negedge', VB1, "always_ff @(posedge clk) begin", "always_ff @(negedge clk) begin", 'R-tr-assign'),
    _m('comb-block-as-always-ff', VB1, "src.append( f'always_comb begin : {blk_name}' )",
       "src.append( f'always_ff @(posedge clk) begin : {blk_name}' )", 'R-tr-assign'),
    _m('block-lists-swapped', GEN1, "      bir.CombUpblk : get_ordered_upblks(m),\n      bir.SeqUpblk  : get_ordered_update_ff(m),",
       "      bir.CombUpblk : get_ordered_update_ff(m),\n      bir.SeqUpblk  : get_ordered_upblks(m),", 'R-tr-assign'),
    _m('ff-blocks-also-comb', T.RUTIL, "upblks = m.get_update_blocks() - m.get_update_ff()", "upblks = m.get_update_blocks()",
       'R-tr-assign'),
    _m('statements-reversed', VB1, "    for stmt in node.body:\n      body.extend( s.visit( stmt ) )",
       "    for stmt in reversed(node.body):\n      body.extend( s.visit( stmt ) )", 'R-tr-assign', count='first'),
    _m('rshift-assign-accepted', GEN1, "if isinstance( node.op, (ast.LShift, ast.MatMult) ):",
       "if isinstance( node.op, (ast.LShift, ast.RShift, ast.MatMult) ):", 'R-tr-assign'),
    _m('assign-sides-swapped', VB1, "tplt = '{target} {assignment_op} {value};'", "tplt = '{value} {assignment_op} {target};'",
       'R-tr-assign'),
    _m('chained-tmpvar-assignment-nonblocking', GEN2, "    if has_tmpvar:\n      return True\n    else:\n      return super().get_blocking(node, bir_node)",
       "    if has_tmpvar and len(bir_node.targets) == 1:\n      return True\n    else:\n      return super().get_blocking(node, bir_node)", 'R-tr-assign'),
    _m('mixed-target-chain-accepted', GEN2, "    if has_tmpvar and not all_tmpvar:", "    if False and has_tmpvar and not all_tmpvar:", 'R-tr-assign'),
    _m('single-tmpvar-follows-block-kind', GEN2, "      if isinstance(bir_node.targets[0], bir.TmpVar):\n        return True\n", "", 'R-tr-assign'),
    _m('signal-chain-always-blocking', GEN2, "    if has_tmpvar:\n      return True\n    else:\n      return super().get_blocking(node, bir_node)",
       "    return True", 'R-tr-assign'),
    # R-tr-slice
    _m('slice-upper-inclusive', VB1, "upper = str( int( node.upper._value - 1 ) )", "upper = str( int( node.upper._value ) )",
       'R-tr-slice'),
    _m('slice-symbolic-upper-inclusive', VB1, "upper = s.visit( node.upper ) + '-1'", "upper = s.visit( node.upper )", 'R-tr-slice'),
    _m('indexed-part-select-descending', VB1, "return f'{value}[{base} +: {size}]'", "return f'{value}[{base} -: {size}]'", 'R-tr-slice'),
    _m('slice-bounds-swapped', VB1, "return f'{value}[{upper}:{lower}]'", "return f'{value}[{lower}:{upper}]'", 'R-tr-slice'),
    _m('zext-pad-count', VB1, "padded_nbits = target_nbits - current_nbits", "padded_nbits = target_nbits", 'R-tr-slice', count='first'),
    _m('sext-bit-off-by-one', VB1, "last_bit = current_nbits - 1", "last_bit = current_nbits - 2", 'R-tr-slice'),
    _m('zext-pads-lsb-side', VB1, """return f"{{ {{ {padded_nbits} {{ 1'b0 }} }}, {value} }}\"""",
       """return f"{{ {value}, {{ {padded_nbits} {{ 1'b0 }} }} }}\"""", 'R-tr-slice'),
    _m('sext-pads-with-zero', VB1, """template = "{{ {{ {padded_nbits} {{ {value}[{last_bit}] }} }}, {value} }}\"""",
       """template = "{{ {{ {padded_nbits} {{ 1'b0 }} }}, {value} }}\"""", 'R-tr-slice'),
    _m('truncate-size', VB1, """return f"{nbits}'({value})\"""", """return f"{nbits-1}'({value})\"""", 'R-tr-slice'),
    _m('struct-part-select-inclusive', VS1, "              f'{base_signal}[{stop-1}:{start}]',",
       "              f'{base_signal}[{stop}:{start}]',", 'R-tr-slice'),
    # re-introduction of the repaired defect (sext of an array element)
    _m('sext-index-always-one-bit', VB1, "      _one_bit = current_nbits == 1\n", "      _one_bit = True\n", 'R-tr-slice'),
    # R-tr-width-cast
    _m('freevar-unsized', VB1, """return f"{nbits}'( __const__{node.name} )\"""", """return f"__const__{node.name}\"""", 'R-tr-width-cast'),
    _m('tmpvar-cast-on-lhs', VB2, "if not node._is_explicit and not s.is_assign_LHS:", "if not node._is_explicit:", 'R-tr-width-cast'),
    _m('tmpvar-never-sized', VB2, "if not node._is_explicit and not s.is_assign_LHS:", "if False and not s.is_assign_LHS:",
       'R-tr-width-cast'),
    _m('const-attr-unsized', VB1, """        ret = f"{nbits}'( {attr} )\"""", "        ret = attr", 'R-tr-width-cast'),
    _m('loopvar-unsized', VB2, """    return f"{nbits}'({node.name})\"""", "    return node.name", 'R-tr-width-cast'),
    _m('loop-width-from-last-value', TC2, "lvar_nbits = s._get_nbits_from_value(max(loop_range))",
       "lvar_nbits = s._get_nbits_from_value(loop_range[-1])", 'R-tr-width-cast'),
    # R-tr-conn
    _m('edge-host-child-instead-of-parent', T.G_S1,
       "          elif writer_host_parent is reader_host:\n            _inst_conns[reader_host].add( ( u, v ) )",
       "          elif writer_host_parent is reader_host:\n            _inst_conns[writer_host].add( ( u, v ) )", 'R-tr-conn'),
    _m('edge-sibling-case-dropped', T.G_S1, "          elif writer_host_parent == reader_host_parent:\n            _inst_conns[writer_host_parent].add( ( u, v ) )\n",
       "", 'R-tr-conn'),
    _m('edge-unexpected-silently-dropped', T.G_S1, '            raise TypeError( "unexpected connection type!" )', "            pass", 'R-tr-conn'),
    _m('assign-direction-reversed', VS1, "return f'assign {rd_signal} = {wr_signal};'", "return f'assign {wr_signal} = {rd_signal};'",
       'R-tr-conn'),
    _m('connection-args-swapped', T.G_S1,
       "        s.rtlir_signal_expr_translation( writer, m, 'writer' ),\n        s.rtlir_signal_expr_translation( reader, m, 'reader' )",
       "        s.rtlir_signal_expr_translation( reader, m, 'reader' ),\n        s.rtlir_signal_expr_translation( writer, m, 'writer' )",
       'R-tr-conn'),
    _m('edge-recorded-reversed', T.G_S1, "_inst_conns[writer_host].add( ( u, v ) )", "_inst_conns[writer_host].add( ( v, u ) )",
       'R-tr-conn', count='first'),
    _m('connection-pair-swapped', T.SGEN1, "(gen_signal_expr(m, x[0]), gen_signal_expr(m, x[1]))",
       "(gen_signal_expr(m, x[1]), gen_signal_expr(m, x[0]))", 'R-tr-conn'),
    _m('connections-sorted-by-repr', T.SGEN1, "for x in ordered_conns ]", "for x in sorted(ordered_conns, key=repr) ]", 'R-tr-conn'),
    # R-tr-sigexpr
    _m('indices-not-reversed', T.SEXP, "for x in reversed(tmp._dsl._my_indices):", "for x in tmp._dsl._my_indices:", 'R-tr-sigexpr'),
    _m('stack-applied-in-push-order', T.SEXP, "for f, token in reversed(stack):", "for f, token in stack:", 'R-tr-sigexpr'),
    # R-tr-for
    _m('loop-compare-direction', VB2, "cmp_op   = '>' if node.step._value < 0 else '<'", "cmp_op   = '>' if node.step._value > 0 else '<'",
       'R-tr-for'),
    _m('loop-increment-direction', VB2, "inc_op   = '-' if node.step._value < 0 else '+'", "inc_op   = '+'", 'R-tr-for'),
    _m('loop-bounds-swapped', VB2, "v = loop_var, s = start, t = end, stp = step_abs,", "v = loop_var, s = end, t = start, stp = step_abs,",
       'R-tr-for'),
    # R-tr-modname
    _m('explicit-name-only-for-top', T.SV_TR, "      if structural.component_explicit_module_name:\n        module_name = structural.component_explicit_module_name",
       "      if structural.component_explicit_module_name and structural.component_is_top:\n        module_name = structural.component_explicit_module_name",
       'R-tr-modname'),
    _m('module-name-memoised-per-class', VS4, "        _c_name = s.rtlir_tr_component_unique_name(obj_c_rtype)",
       "        _memo = s.__dict__.setdefault('_c_name_memo', {})\n        if type(obj) not in _memo:\n          _memo[type(obj)] = s.rtlir_tr_component_unique_name(obj_c_rtype)\n        _c_name = _memo[type(obj)]",
       'R-tr-modname'),
    _m('module-name-from-array-type', VS4, "        _c_name = s.rtlir_tr_component_unique_name(obj_c_rtype)",
       "        _c_name = s.rtlir_tr_component_unique_name(c_rtype)", 'R-tr-modname'),
    _m('module-name-fast-path-same-class', VS4, "        obj_c_rtype = s.tr_top.get_metadata(RTLIRPass.rtlir_getter).get_rtlir(obj)\n",
       "        if type(obj) is type(c_rtype.obj):\n          obj_c_rtype = c_rtype\n        else:\n          obj_c_rtype = s.tr_top.get_metadata(RTLIRPass.rtlir_getter).get_rtlir(obj)\n",
       'R-tr-modname'),
    _m('module-name-fast-path-same-class-name', VS4, "        obj_c_rtype = s.tr_top.get_metadata(RTLIRPass.rtlir_getter).get_rtlir(obj)\n",
       "        obj_c_rtype = c_rtype if obj.__class__.__name__ == c_rtype.get_name() else s.tr_top.get_metadata(RTLIRPass.rtlir_getter).get_rtlir(obj)\n",
       'R-tr-modname'),
    _m('subcomp-explicit-name-ignored', VS4, "        elif subcomp_explicit_name:\n", "        elif False and subcomp_explicit_name:\n", 'R-tr-modname'),
    _m('defaults-wrong-offset', T.RTYPE, "defaults[idx-len(arg_names)]", "defaults[idx-num_defaults]", 'R-tr-modname'),
    _m('defaults-offset-by-supplied', T.RTYPE, "defaults[idx-len(arg_names)]", "defaults[idx-num_supplied]", 'R-tr-modname'),
    # chained assignments / name resolution / dimension order
    # re-introductions of the chained-assignment defect
    _m('chain-copy-reevaluates-rhs', VB1, "    source = targets[-1] if node.blocking else value\n", "    source = value\n", 'R-tr-assign'),
    _m('chain-copy-also-when-nonblocking', VB1, "    source = targets[-1] if node.blocking else value\n", "    source = targets[-1]\n", 'R-tr-assign'),
    _m('chain-first-statement-assigns-first-target', VB1, "      target = targets[-1], assignment_op = assignment_op, value = value\n    ) ]",
       "      target = targets[0], assignment_op = assignment_op, value = value\n    ) ]", 'R-tr-assign'),
    _m('tmpvar-lookup-before-loopvar', GEN2, "      if node.id in s.loop_var_env:\n        ret = bir.LoopVar( node.id )\n      elif node.id in s.tmp_var_env:\n        ret = bir.TmpVar( node.id, s._upblk_name )\n",
       "      if node.id in s.tmp_var_env:\n        ret = bir.TmpVar( node.id, s._upblk_name )\n      elif node.id in s.loop_var_env:\n        ret = bir.LoopVar( node.id )\n", 'R-tr-name-scope'),
    _m('unknown-name-load-becomes-tmpvar', GEN2, "      elif isinstance( node.ctx, ast.Load ):", "      elif False and isinstance( node.ctx, ast.Load ):", 'R-tr-name-scope'),
    _m('loop-var-never-unregistered', GEN2, "    s.loop_var_env.remove( loop_var_name )\n", "", 'R-tr-name-scope'),
    _m('ifc-port-dims-before-ifc-dims', VS3, "unpacked_type = array_type['unpacked_type'] + tr['unpacked_type']", "unpacked_type = tr['unpacked_type'] + array_type['unpacked_type']",
       'R-tr-dims-order'),
    _m('subcomp-port-dims-before-comp-dims', VS4, "f\"{c_array_type['unpacked_type']}{dscp['unpacked_type']}\"", "f\"{dscp['unpacked_type']}{c_array_type['unpacked_type']}\"",
       'R-tr-dims-order'),
    _m('subcomp-ifc-port-dims-swapped', VS4, "          'unpacked_type' : ifc_array_type['unpacked_type']+port_array_type['unpacked_type'],\n      }]",
       "          'unpacked_type' : port_array_type['unpacked_type']+ifc_array_type['unpacked_type'],\n      }]", 'R-tr-dims-order'),
    # round-6 kinds: iteration source, dropped range start, per-block state, decimal literal from an object
    _m('subcomp-ifc-ports-only', T.G_S4, "all_ifc_ports = ifc_port_rtype.get_all_properties_packed()", "all_ifc_ports = ifc_port_rtype.get_all_ports_packed()", 'R-tr-ifc-source'),
    _m('nested-ifc-ports-only-sv', VS3, "all_properties = port_rtype.get_all_properties_packed()", "all_properties = port_rtype.get_all_ports_packed()", 'R-tr-ifc-source'),
    _m('range-start-forgotten', GEN2, "      # range( start, end )\n      start = s.visit( args[0] )\n      end = s.visit( args[1] )", "      # range( start, end )\n      start = bir.Number( 0 )\n      end = s.visit( args[1] )",
       'R-tr-range'),
    _m('range-step-taken-from-end', GEN2, "      step = s.visit( args[2] )", "      step = s.visit( args[1] )", 'R-tr-range'),
    dict(name='closure-created-per-component', rule='R-tr-block-state', edits=[
        dict(file=GEN1, old="    s.component = component\n\n    if sys.version_info", new="    s.component = component\n    s.closure = {}\n\n    if sys.version_info", count=1),
        dict(file=GEN1, old="    # Basically this is the model instance s.\n    s.closure = {}\n\n    for i, var in enumerate( blk.__code__.co_freevars ):\n      try:\n        s.closure[ var ] = blk.__closure__[ i ].cell_contents\n      except ValueError:\n        pass\n\n    s.const_extractor",
             new="    # Basically this is the model instance s.\n\n    for i, var in enumerate( blk.__code__.co_freevars ):\n      try:\n        s.closure[ var ] = blk.__closure__[ i ].cell_contents\n      except ValueError:\n        pass\n\n    s.const_extractor", count=1)]),
    _m('emitter-closure-reset-only-once', VB1, "    s.closure = {}\n\n    for i, var in enumerate( blk.__code__.co_freevars ):", "    if not hasattr( s, 'closure' ):\n      s.closure = {}\n\n    for i, var in enumerate( blk.__code__.co_freevars ):",
       'R-tr-block-state'),
    _m('number-literal-from-object', VB1, "    if hasattr( node, \"_value\" ):\n      # value could be larger", "    if hasattr( node, \"_value\" ) and False:\n      # value could be larger", 'R-tr-slice'),
    # re-introductions of the repaired statement-grouping / parenthesisation / literal defects
    _m('else-begin-counts-ir-statements', VB2, "' begin' if s.count_stmts( node.orelse ) > 1 else ''", "' begin' if len( node.orelse ) > 1 else ''", 'R-tr-assign'),
    _m('count-stmts-loop-ignores-chained-targets', VB2, "    return sum( len( stmt.targets ) if isinstance( stmt, bir.Assign ) else 1\n                for stmt in stmts )",
       "    n_stmts = 0\n    for stmt in stmts:\n      n_stmts += 1\n    return n_stmts", 'R-tr-assign'),
    _m('count-stmts-loop-returns-inside-the-loop', VB2, "    return sum( len( stmt.targets ) if isinstance( stmt, bir.Assign ) else 1\n                for stmt in stmts )",
       "    n_stmts = 0\n    for stmt in stmts:\n      n_stmts += len( stmt.targets ) if isinstance( stmt, bir.Assign ) else 1\n      return n_stmts\n    return n_stmts", 'R-tr-assign'),
    _m('for-end-counts-ir-statements', VB2, "    if s.count_stmts( node.body ) > 1:\n      src.extend( [ 'end' ] )", "    if len( node.body ) > 1:\n      src.extend( [ 'end' ] )", 'R-tr-assign'),
    _m('reduce-operand-unparenthesised', VB1, "    value = s.visit_expr_wrap( node.value )\n    op = reduce_ops[ op_t ]", "    value = s.visit( node.value )\n    op = reduce_ops[ op_t ]", 'R-tr-optable'),
    _m('zext-identity-unparenthesised', VB1, "      # The operand itself takes the place of the extension\n      return s.visit_expr_wrap( node.value )\n    else:",
       "      # The operand itself takes the place of the extension\n      return s.visit( node.value )\n    else:", 'R-tr-slice'),
    _m('truncate-identity-unparenthesised', VB1, "      # The operand itself takes the place of the truncation\n      return s.visit_expr_wrap( node.value )",
       "      # The operand itself takes the place of the truncation\n      return s.visit( node.value )", 'R-tr-slice'),
    _m('number-unsized-2', VB1, "    return sized_decimal( nbits, node.value )", "    return f\"{int(node.value)}\"", 'R-tr-width-cast'),
    _m('number-sized-by-value-2', VB1, "    nbits = node.Type.get_dtype().get_length()\n    return sized_decimal( nbits, node.value )",
       "    nbits = max(1, int(node.value).bit_length())\n    return sized_decimal( nbits, node.value )", 'R-tr-width-cast'),
    # the arithmetic sign extension of an expression operand  ( ( {pad{1'b0}, x} ^ N'dM ) - N'dM ),  M = weight of x's msb
    _m('sext-arith-sign-weight-one-bit-too-high', VB1, "      sign = f\"{target_nbits}'d{1 << last_bit}\"", "      sign = f\"{target_nbits}'d{1 << current_nbits}\"", 'R-tr-slice'),
    _m('sext-arith-sign-weight-from-target', VB1, "      sign = f\"{target_nbits}'d{1 << last_bit}\"", "      sign = f\"{target_nbits}'d{1 << (target_nbits - 1)}\"", 'R-tr-slice'),
    _m('sext-arith-adds-the-sign-weight', VB1, "^ {sign} ) - {sign} )\"", "^ {sign} ) + {sign} )\"", 'R-tr-slice'),
    _m('sext-arith-pads-target-bits', VB1, "      return f\"( ( {{ {{ {padded_nbits} {{ 1'b0 }} }}, {value} }} ^ {sign} ) - {sign} )\"",
       "      return f\"( ( {{ {{ {target_nbits} {{ 1'b0 }} }}, {value} }} ^ {sign} ) - {sign} )\"", 'R-tr-slice'),
    _m('sext-expression-falls-to-bit-select', VB1, "    if isinstance( node.value, ( bir.IfExp, bir.UnaryOp, bir.BinOp, bir.Compare ) ):\n      # The msb of an expression",
       "    if isinstance( node.value, ( bir.IfExp, bir.UnaryOp, bir.Compare ) ):\n      # The msb of an expression", 'R-tr-slice'),
    _m('number-literal-without-int', UTIL, "  value = int( value )\n  if value < 0:\n    value += 1 << nbits\n", "  if value < 0:\n    value += 1 << nbits\n", 'R-tr-width-cast'),
    # negative Python ints: <W>'d-1 is not Verilog; the literal holds the two's complement, the use of a declared constant sign-extends
    _m('literal-helper-without-wrap', UTIL, "  value = int( value )\n  if value < 0:\n    value += 1 << nbits\n", "  value = int( value )\n", 'R-tr-width-cast'),
    _m('literal-helper-wraps-at-half-range', UTIL, "    value += 1 << nbits\n", "    value += 1 << (nbits-1)\n", 'R-tr-width-cast'),
    _m('literal-helper-wraps-non-negative-too', UTIL, "  if value < 0:\n    value += 1 << nbits\n", "  if value <= 0:\n    value += 1 << nbits\n", 'R-tr-width-cast'),
    _m('number-back-to-plain-int', VB1, "    return sized_decimal( nbits, node.value )", "    return f\"{nbits}'d{int(node.value)}\"", 'R-tr-width-cast'),
    _m('structural-literal-back-to-plain-int', VS1, "  def _literal_number( s, nbits, value ):\n    return sized_decimal( nbits, value )", "  def _literal_number( s, nbits, value ):\n    return f\"{nbits}'d{int(value)}\"", 'R-tr-width-cast'),
    _m('negative-constant-use-zero-extended', VB1, "      return f\"{nbits}'( $signed( __const__{node.name} ) )\"", "      return f\"{nbits}'( __const__{node.name} )\"", 'R-tr-width-cast'),
    _m('every-int-constant-use-sign-extended', VB1, "    if isinstance( node.obj, int ) and node.obj < 0:\n      # The constant is declared", "    if isinstance( node.obj, int ):\n      # The constant is declared", 'R-tr-width-cast'),
    _m('sizecast-constant-not-wrapped', VB1, "      value = int(Bits(nbits, node._value))", "      value = int(node._value)", 'R-tr-slice'),
    # R-tr-index-queue
    _m('index-base-visited-before-index', VB1, "    idx   = s.visit( node.idx )\n    value = s.visit( node.value )\n    Type = node.value.Type",
       "    value = s.visit( node.value )\n    idx   = s.visit( node.idx )\n    Type  = node.value.Type", 'R-tr-index-queue'),
    _m('ifc-array-index-visited-after-base', T.SV_B[4], "      idx = s.visit( node.idx )\n      s._unpacked_q.appendleft(idx)\n      value = s.visit( node.value )\n      return value",
       "      value = s.visit( node.value )\n      idx = s.visit( node.idx )\n      s._unpacked_q.appendleft(idx)\n      return value", 'R-tr-index-queue'),
    # R-tr-dedup-scope
    dict(name='dedup-set-survives-translate', rule='R-tr-dedup-scope', edits=[
        dict(file=T.G_RTLIR_TR, old="        if name not in components:\n", new="        if name not in s._generated_modules:\n          s._generated_modules.add( name )\n", count=1),
        dict(file=T.G_RTLIR_TR, old="      s.clear( tr_top, tr_cfgs )\n", new="      s.clear( tr_top, tr_cfgs )\n      if not hasattr( s, '_generated_modules' ):\n        s._generated_modules = set()\n", count=1)]),
    dict(name='dedup-set-created-in-constructor', rule='R-tr-dedup-scope', edits=[
        dict(file=T.G_RTLIR_TR, old="        if name not in components:\n", new="        if name not in s.component_names_done:\n          s.component_names_done.add( name )\n", count=1),
        dict(file=T.GENERIC + 'BaseRTLIRTranslator.py', old="    s.top = top\n", new="    s.top = top\n    s.component_names_done = set()\n", count=1)]),
    # R-tr-loop-state / R-tr-memo-scope / R-tr-ident-intact
    _m('subcomp-array-type-leaks-to-next-subcomp', T.G_S4, "      else:\n        c_array_rtype = None\n        c_rtype = _c_rtype\n",
       "      else:\n        c_rtype = _c_rtype\n", 'R-tr-loop-state'),
    _m('port-array-type-leaks-to-next-port', T.G_S1, "      else:\n        array_type = None\n        port_rtype = rtype\n",
       "      else:\n        port_rtype = rtype\n", 'R-tr-loop-state'),
    _m('nested-ifc-array-type-leaks', VS3, "        else:\n          array_type = None\n          rtype = _rtype\n", "        else:\n          rtype = _rtype\n",
       'R-tr-loop-state'),
    dict(name='vector-dtype-memo-by-width-name', rule='R-tr-memo-scope', edits=[
        dict(file=VS1, old="  def rtlir_tr_vector_dtype( s, dtype ):\n    msb = dtype.get_length() - 1\n",
             new="  _vec_memo = {}\n\n  def rtlir_tr_vector_dtype( s, dtype ):\n    if str(dtype) in s._vec_memo:\n      return s._vec_memo[ str(dtype) ]\n    msb = dtype.get_length() - 1\n    s._vec_memo[ str(dtype) ] = None\n", count=1)]),
    dict(name='struct-def-memo-at-module-level', rule='R-tr-memo-scope', edits=[
        dict(file=VS2, old="from .VStructuralTranslatorL1 import VStructuralTranslatorL1\n", new="from .VStructuralTranslatorL1 import VStructuralTranslatorL1\n\n_seen_structs = set()\n", count=1),
        dict(file=VS2, old="  def rtlir_tr_struct_dtype( s, dtype ):\n    dtype_name = dtype.get_name()\n",
             new="  def rtlir_tr_struct_dtype( s, dtype ):\n    dtype_name = dtype.get_name()\n    _seen_structs.add( dtype_name )\n", count=1)]),
    _m('port-wire-name-truncated', VS4, "          port_wire = f\"{orig_c_id}__{dscp['id']}{unpacked_str}\"", "          port_wire = f\"{orig_c_id}__{dscp['id']:.24}{unpacked_str}\"",
       'R-tr-ident-intact'),
    # R-tr-constcache
    dict(name='const-cache-at-class-level', rule='R-tr-constcache', edits=[
        dict(file=GEN1, old="class ConstantExtractor( ast.NodeVisitor ):\n  def __init__",
             new="class ConstantExtractor( ast.NodeVisitor ):\n  cache = {}\n  def __init__", count=1),
        dict(file=GEN1, old="    s.cache = {}\n    s.closure = closure_ns", new="    s.closure = closure_ns", count=1)]),
    _m('const-extractor-created-once', GEN1, "    s.const_extractor = ConstantExtractor( s.blk, s.globals, s.closure )\n    ret = s.visit( ast )",
       "    if not hasattr( s, 'const_extractor' ):\n      s.const_extractor = ConstantExtractor( s.blk, s.globals, s.closure )\n    ret = s.visit( ast )",
       'R-tr-constcache'),
    # R-layout-agree
    _m('struct-literal-fields-reversed', VS2, "    for name, Type in dtype.get_all_properties().items():\n      field = getattr( struct, name )",
       "    for name, Type in reversed(list(dtype.get_all_properties().items())):\n      field = getattr( struct, name )", 'R-layout-agree'),
    _m('packed-array-literal-ascending', VS2, "for i in reversed( range( n_dim[0]) ):", "for i in range( n_dim[0] ):", 'R-layout-agree'),
    _m('concat-reversed', VB1, "values = [ s.visit(v) for v in node.values ]", "values = [ s.visit(v) for v in reversed(node.values) ]",
       'R-layout-agree'),
    _m('struct-inst-values-sorted', VB3, "values = list( map( s.visit, node.values ) )", "values = sorted( map( s.visit, node.values ) )",
       'R-layout-agree'),
]

EQUIV = [
    _m('for-body-visited-by-comprehension', GEN2, "    # Then visit all statements inside the loop\n    body = []\n    for body_stmt in node.body:\n      body.append( s.visit( body_stmt ) )\n", "    # Then visit all statements inside the loop\n    body = [ s.visit( body_stmt ) for body_stmt in node.body ]\n"),
    _m('for-body-visited-by-map', GEN2, "    # Then visit all statements inside the loop\n    body = []\n    for body_stmt in node.body:\n      body.append( s.visit( body_stmt ) )\n", "    # Then visit all statements inside the loop\n    body = list( map( s.visit, node.body ) )\n"),
    _m('negative-constant-step-by-abs', VB2, "        step_abs = str( -int( node.step._value ) )", "        step_abs = str( abs( int( node.step._value ) ) )"),
    dict(name='for-begin-end-condition-in-a-local', edits=[
        dict(file=VB2, old="    begin    = ' begin' if s.count_stmts( node.body ) > 1 else ''\n\n    cmp_op", new="    multi    = s.count_stmts( node.body ) > 1\n    begin    = ' begin' if multi else ''\n\n    cmp_op", count=1),
        dict(file=VB2, old="    if s.count_stmts( node.body ) > 1:\n      src.extend( [ 'end' ] )", new="    if multi:\n      src.extend( [ 'end' ] )", count=1)]),
    dict(name='pending-indices-pushed-left-and-emitted-reversed', edits=[
        dict(file=VS4, old="  def rtlir_tr_component_array_index( s, base_signal, index, status ):\n    s._rtlir_tr_unpacked_q.append( index )", new="  def rtlir_tr_component_array_index( s, base_signal, index, status ):\n    s._rtlir_tr_unpacked_q.appendleft( index )", count=1),
        dict(file=VS3, old="  def rtlir_tr_interface_array_index( s, base_signal, index, status ):\n    s._rtlir_tr_unpacked_q.append( index )", new="  def rtlir_tr_interface_array_index( s, base_signal, index, status ):\n    s._rtlir_tr_unpacked_q.appendleft( index )", count=1),
        dict(file=VS1, old="[f'[{i}]' for i in list(s._rtlir_tr_unpacked_q)]", new="[f'[{i}]' for i in reversed(s._rtlir_tr_unpacked_q)]", count=1)]),
    _m('pending-indices-iterated-without-copy', VS1, "[f'[{i}]' for i in list(s._rtlir_tr_unpacked_q)]", "[f'[{i}]' for i in s._rtlir_tr_unpacked_q]"),
    _m('array-admission-as-all', T.RTYPE, "    for x in obj[1:]:\n      assert self.get_rtlir(x) == ref_type, \\\n             f'all elements of array {obj} must have the same type {repr(ref_type)}!'\n",
       "    assert all( self.get_rtlir(x) == ref_type for x in obj[1:] ), \\\n             f'all elements of array {obj} must have the same type {repr(ref_type)}!'\n"),
    _m('array-admission-loop-over-all-elements', T.RTYPE, "    for x in obj[1:]:\n      assert self.get_rtlir(x) == ref_type, \\\n", "    for x in obj:\n      assert self.get_rtlir(x) == ref_type, \\\n"),
    _m('ifc-ports-accumulator-created-by-list-call', T.G_S4, "        ports = []\n        all_ifc_ports", "        ports = list()\n        all_ifc_ports"),
    dict(name='ifc-ports-accumulator-created-first-in-the-loop-body', edits=[
        dict(file=T.G_S4, old="        ports = []\n        all_ifc_ports = ifc_port_rtype.get_all_properties_packed()", new="        all_ifc_ports = ifc_port_rtype.get_all_properties_packed()", count=1),
        dict(file=T.G_S4, old="      for ifc_port_id, _ifc_port_rtype in c_rtype.get_ifc_views_packed():\n", new="      for ifc_port_id, _ifc_port_rtype in c_rtype.get_ifc_views_packed():\n        ports = []\n", count=1)]),
    _m('sv-body-assembled-by-join', T.SV_TR, "        body = const_decls + fvar_decls + wire_decls + subcomp_decls \\\n             + tmpvar_decls + upblk_decls", "        body = ''.join( [ const_decls, fvar_decls, wire_decls, subcomp_decls, tmpvar_decls, upblk_decls ] )"),
    _m('sv-packed-array-literal-rest-in-a-local', VS2, "          ret.append( _gen_packed_array( dtype, n_dim[1:], array[i] ) )", "          rest = n_dim[1:]\n          ret.append( _gen_packed_array( dtype, rest, array[i] ) )"),
    _m('component-eq-compares-the-lists', T.RTYPE, "    return (len(u)==len(v)) and all(_u == _v for _u, _v in zip(u, v))", "    return list(u) == list(v)"),
    _m('component-eq-early-return-on-length', T.RTYPE, "    return (len(u)==len(v)) and all(_u == _v for _u, _v in zip(u, v))", "    if len(u) != len(v):\n      return False\n    for _u, _v in zip(u, v):\n      if _u != _v:\n        return False\n    return True"),
    _m('array-eq-single-expression', T.RTYPE, "    if not isinstance( other, Array ): return False\n    if s.dim_sizes != other.dim_sizes: return False\n    return s.sub_type == other.sub_type", "    return isinstance( other, Array ) and s.dim_sizes == other.dim_sizes and s.sub_type == other.sub_type"),
    _m('clk-reset-skip-as-one-condition', UTIL, "    if not has_clk and name == 'clk':      continue\n    if not has_reset and name == 'reset':  continue\n", "    if ( name == 'clk' and not has_clk ) or ( name == 'reset' and not has_reset ):\n      continue\n"),
    _m('clk-reset-skip-via-table', UTIL, "    if not has_clk and name == 'clk':      continue\n    if not has_reset and name == 'reset':  continue\n", "    wanted = { 'clk' : has_clk, 'reset' : has_reset }\n    if name in wanted and not wanted[ name ]:\n      continue\n"),
    _m('struct-instance-packed-array-inline-accessors', VS2, "        n_dim = Type.get_dim_sizes()\n        sub_dtype = Type.get_sub_dtype()\n        _ret = _gen_packed_array( sub_dtype, n_dim, field )", "        _ret = _gen_packed_array( Type.get_sub_dtype(), Type.get_dim_sizes(), field )"),
    _m('nested-ifc-combined-array-type-renamed', VS4, "combined_ifc_array_type", "nested_array_type", count=2),
    _m('count-stmts-as-accumulator-loop', VB2, "    return sum( len( stmt.targets ) if isinstance( stmt, bir.Assign ) else 1\n                for stmt in stmts )",
       "    n_stmts = 0\n    for stmt in stmts:\n      if isinstance( stmt, bir.Assign ):\n        n_stmts += len( stmt.targets )\n      else:\n        n_stmts += 1\n    return n_stmts"),
    _m('sext-arith-sized-by-operand-width', VB1, "      sign = f\"{target_nbits}'d{1 << last_bit}\"", "      sign = f\"{current_nbits}'d{1 << last_bit}\""),
    _m('sext-arith-operand-bare', VB1, "      return f\"( ( {{ {{ {padded_nbits} {{ 1'b0 }} }}, {value} }} ^ {sign} ) - {sign} )\"",
       "      return f\"( ( {value} ^ {sign} ) - {sign} )\""),
    _m('sext-arith-sign-weight-via-power', VB1, "      sign = f\"{target_nbits}'d{1 << last_bit}\"", "      sign = f\"{target_nbits}'d{2 ** last_bit}\""),
    _m('sext-arith-xor-operands-swapped', VB1, "      return f\"( ( {{ {{ {padded_nbits} {{ 1'b0 }} }}, {value} }} ^ {sign} ) - {sign} )\"",
       "      return f\"( ( {sign} ^ {{ {{ {padded_nbits} {{ 1'b0 }} }}, {value} }} ) - {sign} )\""),
    _m('number-width-via-local-dtype-2', VB1, "    nbits = node.Type.get_dtype().get_length()\n    return sized_decimal( nbits, node.value )",
       "    dt = node.Type.get_dtype()\n    return sized_decimal( dt.get_length(), node.value )"),
    _m('literal-helper-wraps-by-modulo', UTIL, "  if value < 0:\n    value += 1 << nbits\n", "  value %= 1 << nbits\n"),
    _m('literal-helper-wraps-by-power-of-two', UTIL, "  if value < 0:\n    value += 1 << nbits\n", "  if value < 0:\n    value = value + 2**nbits\n"),
    _m('literal-helper-wraps-by-mask', UTIL, "  value = int( value )\n  if value < 0:\n    value += 1 << nbits\n", "  value = int( value ) & ((1 << nbits) - 1)\n"),
    _m('literal-helper-wraps-via-bits', UTIL, "  value = int( value )\n  if value < 0:\n    value += 1 << nbits\n", "  from pymtl3.datatypes import Bits\n  value = int( Bits( nbits, value ) )\n"),
    _m('number-inlines-the-helper', VB1, "    return sized_decimal( nbits, node.value )", "    value = int( node.value )\n    if value < 0:\n      value += 1 << nbits\n    return f\"{nbits}'d{value}\""),
    _m('negative-constant-test-on-local', VB1, "    if isinstance( node.obj, int ) and node.obj < 0:\n      # The constant is declared", "    obj = node.obj\n    if isinstance( obj, int ) and obj < 0:\n      # The constant is declared"),
    _m('range-defaults-assigned-first', GEN2, "    if len( args ) == 1:\n      # range( end )\n      start = bir.Number( 0 )\n      end = s.visit( args[0] )\n      step = bir.Number( 1 )\n",
       "    start, step = bir.Number( 0 ), bir.Number( 1 )\n    if len( args ) == 1:\n      # range( end )\n      end = s.visit( args[0] )\n"),
    _m('closure-created-by-dict-call', GEN1, "    s.closure = {}\n\n    for i, var in enumerate( blk.__code__.co_freevars ):", "    s.closure = dict()\n\n    for i, var in enumerate( blk.__code__.co_freevars ):"),
    _m('name-lookup-tests-nested', GEN2, "      if node.id in s.loop_var_env:\n        ret = bir.LoopVar( node.id )\n      elif node.id in s.tmp_var_env:\n        ret = bir.TmpVar( node.id, s._upblk_name )\n",
       "      if node.id in s.loop_var_env:\n        ret = bir.LoopVar( node.id )\n      elif node.id in s.tmp_var_env and node.id not in s.loop_var_env:\n        ret = bir.TmpVar( node.id, s._upblk_name )\n"),
    _m('ifc-dims-as-fstring', VS3, "unpacked_type = array_type['unpacked_type'] + tr['unpacked_type']", "unpacked_type = f\"{array_type['unpacked_type']}{tr['unpacked_type']}\""),
    _m('array-type-reset-before-branch', T.G_S1, "      if isinstance( rtype, rt.Array ):\n        array_type = rtype\n        port_rtype = rtype.get_sub_type()\n      else:\n        array_type = None\n        port_rtype = rtype\n",
       "      array_type, port_rtype = None, rtype\n      if isinstance( rtype, rt.Array ):\n        array_type = rtype\n        port_rtype = rtype.get_sub_type()\n"),
    _m('components-dict-by-constructor-call', T.G_RTLIR_TR, "      s.hierarchy.components = {}\n", "      s.hierarchy.components = dict()\n"),
    _m('index-type-read-between-visits', VB1, "    idx   = s.visit( node.idx )\n    value = s.visit( node.value )\n    Type = node.value.Type",
       "    idx   = s.visit( node.idx )\n    Type = node.value.Type\n    value = s.visit( node.value )"),
    _m('tmpvar-chain-test-restated', GEN2, "    if has_tmpvar:\n      return True\n    else:\n      return super().get_blocking(node, bir_node)",
       "    if all_tmpvar and has_tmpvar:\n      return True\n    return super().get_blocking(node, bir_node)"),
    _m('module-name-fast-path-same-object', VS4, "        obj_c_rtype = s.tr_top.get_metadata(RTLIRPass.rtlir_getter).get_rtlir(obj)\n",
       "        obj_c_rtype = c_rtype if obj is c_rtype.obj else s.tr_top.get_metadata(RTLIRPass.rtlir_getter).get_rtlir(obj)\n"),
    # loop / comprehension / map spellings of `one value per item, in order`
    _m('connections-as-comprehension', T.G_S1,
       "    connections = []\n    _connections = m.get_metadata( StructuralRTLIRGenL1Pass.connections )\n    for writer, reader in _connections:\n"
       "      connections.append( s.rtlir_tr_connection(\n        s.rtlir_signal_expr_translation( writer, m, 'writer' ),\n"
       "        s.rtlir_signal_expr_translation( reader, m, 'reader' )\n      ) )\n",
       "    _connections = m.get_metadata( StructuralRTLIRGenL1Pass.connections )\n    connections = [\n      s.rtlir_tr_connection(\n"
       "        s.rtlir_signal_expr_translation( writer, m, 'writer' ),\n        s.rtlir_signal_expr_translation( reader, m, 'reader' )\n"
       "      ) for writer, reader in _connections\n    ]\n"),
    _m('connections-as-map-lambda', T.G_S1,
       "    connections = []\n    _connections = m.get_metadata( StructuralRTLIRGenL1Pass.connections )\n    for writer, reader in _connections:\n"
       "      connections.append( s.rtlir_tr_connection(\n        s.rtlir_signal_expr_translation( writer, m, 'writer' ),\n"
       "        s.rtlir_signal_expr_translation( reader, m, 'reader' )\n      ) )\n",
       "    _connections = m.get_metadata( StructuralRTLIRGenL1Pass.connections )\n    connections = list( map( lambda wr: s.rtlir_tr_connection(\n"
       "        s.rtlir_signal_expr_translation( wr[0], m, 'writer' ),\n        s.rtlir_signal_expr_translation( wr[1], m, 'reader' )\n"
       "      ), _connections ) )\n"),
    _m('freevars-as-comprehension', T.G_B1,
       "    freevars = []\n    for name, (fvar, rtype) in s.behavioral.freevars[m].items():\n      freevars.append( s.translate_freevar( name, fvar, rtype ) )\n",
       "    freevars = [ s.translate_freevar( name, fvar, rtype )\n                 for name, (fvar, rtype) in s.behavioral.freevars[m].items() ]\n"),
    _m('signal-expr-pairs-as-append-loop', T.SGEN1,
       "    connections = [ (gen_signal_expr(m, x[0]), gen_signal_expr(m, x[1])) for x in ordered_conns ]\n",
       "    connections = []\n    for x in ordered_conns:\n      connections.append( (gen_signal_expr(m, x[0]), gen_signal_expr(m, x[1])) )\n"),
    _m('block-statements-as-comprehension', T.SV_B[1],
       "    for stmt in node.body:\n      body.extend( s.visit( stmt ) )\n",
       "    body = [ line for stmt in node.body for line in s.visit( stmt ) ]\n", count='first'),
    _m('assign-statements-as-append-loop', T.SV_B[1],
       "    stmts += [ tplt.format(\n      target = target, assignment_op = assignment_op, value = source\n    ) for target in reversed(targets[:-1]) ]\n",
       "    for target in reversed(targets[:-1]):\n      stmts.append( tplt.format( target = target, assignment_op = assignment_op, value = source ) )\n"),
    _m('chain-copies-in-source-order', T.SV_B[1], "    ) for target in reversed(targets[:-1]) ]", "    ) for target in targets[:-1] ]"),
    _m('slice-upper-commuted', VB1, "upper = str( int( node.upper._value - 1 ) )", "upper = str( int( -1 + node.upper._value ) )"),
    _m('truncate-cast-on-equal-width', VB1, "if isinstance(dtype, rdt.Vector) and dtype.get_length() > nbits:",
       "if isinstance(dtype, rdt.Vector) and dtype.get_length() >= nbits:"),
    _m('assign-op-other-polarity', VB1, "assignment_op = '<=' if not node.blocking else '='", "assignment_op = '=' if node.blocking else '<='"),
    _m('host-test-operands-swapped', T.G_S1, "if writer_host is reader_host:", "if reader_host is writer_host:"),
    _m('ops-token-with-blanks', VB2, "bir.Add : '+', bir.Sub : '-',", "bir.Add : ' + ', bir.Sub : '-',"),
    _m('stack-reversed-by-slice', T.SEXP, "for f, token in reversed(stack):", "for f, token in stack[::-1]:"),
    _m('header-appended-with-iadd', VB1, "src.append( f'always_comb begin : {blk_name}' )", "src += [ f'always_comb begin : {blk_name}' ]"),
    _m('defaults-index-nonnegative-form', T.RTYPE, "defaults[idx-len(arg_names)]", "defaults[idx - num_args + num_defaults]"),
    _m('zext-count-commuted', VB1, "padded_nbits = target_nbits - current_nbits", "padded_nbits = -current_nbits + target_nbits", count='first'),
    _m('override-gains-default', VS1, "def rtlir_tr_wire_array_index( s, base_signal, index, status ):",
       "def rtlir_tr_wire_array_index( s, base_signal, index, status = 'intermediate' ):"),
    _m('blocking-flag-positive-form', GEN1, "blocking = False if isinstance(node.op, ast.LShift) else True",
       "blocking = isinstance(node.op, ast.MatMult)"),
    _m('part-select-msb-helper-variable', VS1, "  def rtlir_tr_part_selection( s, base_signal, start, stop, status ):\n    # Part selection\n",
       "  def rtlir_tr_part_selection( s, base_signal, start, stop, status ):\n    # Part selection\n    lsb = start\n"),
    _m('partition-as-conjunction', T.RUTIL, "return [ x for x in m.get_update_block_order() if x in upblks ]",
       "return [ x for x in m.get_update_block_order() if x in m.get_update_blocks() and x not in m.get_update_ff() ]"),
]

LEVEL_TEXT = ("Static analysis of the translator source: statically linked translator classes (class factories resolved, C3 MRO), "
              "hook/handler exhaustiveness with arities, composed operator tables against a frozen IEEE-1800 reference, symbolic "
              "execution of every emitter method with partial evaluation of the emitted string templates into Verilog skeletons whose "
              "holes are judged semantically over small exhaustive grids (widths, step signs, host configurations). It decides "
              "necessary conditions of translation correctness for every design; it does not execute the translator or the Verilog.")
LEVEL_NOTE = ("Decides handler/hook exhaustiveness, table agreement and the per-construct emission rules (assignment kind, slices, "
              "extensions, explicit sizing, connection attribution/orientation, module naming). Does NOT decide cycle-for-cycle "
              "behavioural equivalence, syntactic validity of arbitrary output (e.g. `4'd-1` for negative constants), or single driver "
              "per variable in the emitted text. Trusted: IEEE-1800 operator semantics, the type checker's widths (C10), bitstruct "
              "layout (C06).")
TECHNIQUE = ("static class linking with factory resolution and C3 MRO; table extraction and composition; path-wise symbolic execution "
             "of emitter methods; partial evaluation of string templates into token skeletons; finite abstract evaluation of extracted "
             "expressions over exhaustive small grids")
