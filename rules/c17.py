"""C17 -- Library queues are FIFOs with their advertised same-cycle behaviour.  (DESIGN.md section 4, C17)

Static analysis only: the queue sources are parsed, each queue / controller class is turned into a netlist
model (sa/c17_util.py: connections, `//= lambda` drivers, @update / @update_ff blocks extracted from
`construct`), and the extracted equations are evaluated abstractly for ONE cycle over an exhaustively
enumerated abstract state (all representation-consistent register valuations for small capacities x reset x
all protocol-legal offers; messages are opaque tokens).  The results are compared with the FIFO
specification of the queue kind.  Nothing of pymtl3 is imported, elaborated or simulated.
"""
import ast
import copy
import itertools
import re

from sa.astutil import norm, walk_no_nested, guards_of, preceding_stmts, always_exits, subst
from sa.c17_util import BV, Tok, TypeVal, Sim, Elaborator, ModelFault, Inst, Sig, signature, ClassRef
from sa.errors import AnalysisError
from sa.loader import Repo, Module
from sa.minieval import Evaluator
from sa.report import RuleResult

PID = 'C17'
Q = 'pymtl3/stdlib/queues/queues.py'
ST = 'pymtl3/stdlib/stream/queues.py'
EN = 'pymtl3/stdlib/queues/enrdy_queues.py'
VR = 'pymtl3/stdlib/queues/valrdy_queues.py'
CLQ = 'pymtl3/stdlib/queues/cl_queues.py'
REGS = 'pymtl3/stdlib/basic_rtl/registers.py'
RF = 'pymtl3/stdlib/basic_rtl/register_files.py'
ARITH = 'pymtl3/stdlib/basic_rtl/arithmetics.py'
SRI = 'pymtl3/stdlib/ifcs/send_recv_ifcs.py'
GGI = 'pymtl3/stdlib/ifcs/get_give_ifcs.py'
SQA = 'pymtl3/stdlib/stream/queue_adapters.py'
SFL = 'pymtl3/stdlib/stream/fl.py'

EXPLANATION = (
    "Static analysis of the library queues (stdlib/queues/queues.py, stdlib/stream/queues.py, enrdy_queues.py, "
    "valrdy_queues.py, cl_queues.py and the registers / register file / mux / interfaces they instantiate); nothing is "
    "imported or run. Each RTL queue or controller class is parsed and its construct is turned into a netlist model "
    "(signal declarations, connect / //= connections, //= lambda drivers, @update and @update_ff blocks, sub-components "
    "and interfaces resolved through the loader); the extracted equations are then evaluated for ONE cycle by an abstract "
    "evaluator (n-bit vectors with Bits semantics, opaque message tokens, @= last-assignment-wins, <<= non-blocking) over an "
    "exhaustively enumerated abstract state: reset in {0,1} x every representation-consistent register valuation "
    "(count/head/tail with tail = head+count mod n; full bit; enq/deq pointers + full bit; full bits of a chain of 1-entry "
    "stages) for capacities n in {1,2,3,4} (5..8 in the thorough tier) x every protocol-legal offer (en => rdy for en/rdy "
    "interfaces, free val/rdy). "
    "R-C17-rdy decides the control equations the property states: enq ready iff not full (pipe: or a dequeue happens), "
    "dequeue ready/valid iff not empty (bypass: or an enqueue is offered; en/rdy send interface: deq.en = available & rdy), "
    "both low under reset for the family that gates on reset, for 19 controller / 1-entry classes of four interface families. "
    "R-C17-count decides the occupancy / pointer update equations of the same classes: count' = count + enq_xfer - deq_xfer, "
    "reset -> 0, occupancy / free-entry output, the pointers stay consistent (tail = head + count mod n, wrap at "
    "num_entries-1), and -- judged architecture-independently through a virtual storage driven by the controller's wen / "
    "waddr / raddr / bypass select -- the slot selected for delivery holds the oldest message and the accepted message is "
    "stored behind the youngest one; full' of the 1-entry queues. "
    "R-C17-step evaluates the complete queues (wrappers with their controller, data path, register file, mux; 1-entry "
    "queues with their Reg/RegEn/RegRst; BypassQueue2RTL as a chain) one cycle with message tokens: ready/valid at the "
    "interface, the delivered message is the oldest stored one (bypass: the offered one when empty), the stored sequence "
    "after the edge is old + accepted - delivered and the representation invariant is preserved, so the wiring of the "
    "wrappers, of the data path and of the register file is decided too. "
    "R-C17-cl decides the cycle-level queues: the enq / deq guards are evaluated in two phases over small integers (a cycle "
    "starts with L0 of M entries, rdy pulses are computed from that state, enq and deq run in every order the extracted "
    "method constraints allow, the first changes the live length seen by the second) against the kind's ready values, peek "
    "guard len > 0, enq and deq on opposite ends of the deque and peek on the deq end, capacity bound to num_entries, and "
    "the method-order constraints of each kind (pipe: deq, peek < enq; bypass: enq < deq, peek; normal: rdy pulse and peek "
    "before both rdy methods). "
    "R-C17-siblings compares the copies with each other without a specification: controllers / 1-entry queues of one kind "
    "across the interface families as canonical transition relations (n, occupancy, enq_xfer, deq_xfer) -> occupancy' with "
    "transfers taken from each copy's own ready/valid outputs. "
    "R-C17-history decides that the elaborated queue is a function of its construct parameters only: module-level helper "
    "functions called from construct are interpreted together with the module-level containers they read / write, and every "
    "class is elaborated for capacities 1..12 on its own and after all other capacities (ascending and descending); the "
    "netlists (constants, signal types, structure) must coincide. "
    "R-C17-copy decides that every method of the CL queues and of the CL/FL/RTL adapters in send_recv_ifcs.py / "
    "get_give_ifcs.py that keeps an incoming message beyond the call (parameter or alias assigned to an attribute / element "
    "of the component or inserted into one of its containers) keeps a private copy (clone_deepcopy / deepcopy / .clone()), "
    "and that the accepted copy helpers are deep: every return of pymtl3.extra.clone_deepcopy (and of any other repository "
    "helper used) is x.clone() or a deep copy of the argument, `deepcopy` is bound to copy.deepcopy -- a shallow copy "
    "(copy.copy, list(x), x[:]) or the argument itself is a finding. "
    "R-C17-connect interprets the isinstance(other, RecvIfcRTL) branch of GiveIfcRTL.connect (the adapter inserted by "
    "connect( q1.deq, q2.enq )) as construct-time code over a giver and a receiver interface and evaluates the netlist, And "
    "component included, for the four ready valuations: both enables = giver.rdy AND receiver.rdy, receiver.msg = giver.ret. "
    "R-C17-buffer decides the one-entry message buffers (attribute initialised to None that is stored and delivered) of the "
    "adapter classes in send_recv_ifcs.py, get_give_ifcs.py, stream/queue_adapters.py, stream/fl.py as a typestate: every "
    "test of the buffer has the same value for a stored message that is truthy and one that is falsy (emptiness by `is "
    "None`, evaluated over all valuations of the other atoms); a message is stored only into an empty buffer -- rdy guard of "
    "a non-blocking method false for every full buffer, a blocking method stores directly after a `while <full>: yield` "
    "loop, an update block captures only under conditions that (together with what en implies: the rdy this class drives, or "
    "the condition under which this class raises en) imply `empty`; the rdy driven from the buffer equals `empty`; no "
    "unconditional clear in an update block; on the sending side the entry is released iff the handshake completed (val & "
    "rdy, or the en this class drives; registers in the release condition stand for their next-state expression); on the "
    "val/rdy receiving side the rdy published in a cycle and the capture condition agree in every order of the rdy block, "
    "the capture block and the buffer-writing methods that the declared constraints admit; every port used on a declared RTL interface exists and every called function is "
    "defined or imported. "
    "Every rule carries an embedded defective example that must be flagged on every run. "
    "Known finding: BypassQueue2RTL (chain of two 1-entry bypass queues) has enq.rdy low with one of two entries occupied. "
    "NOT decided: FIFO order / no loss over arbitrary histories and arbitrary capacities (only the one-cycle step relation "
    "from representation-consistent states for n <= 4 (8) is evaluated; the inductive conclusion is not claimed beyond "
    "that), timing of the CL queues under a concrete schedule beyond the enq/deq order, the CL/RTL adapters of the "
    "interface files (send_recv_ifcs.py, get_give_ifcs.py are only read for the port lists), behaviour of the 1-entry en/rdy "
    "and val/rdy queues whose full bit has no reset under a mid-run reset (recorded as an observation). "
    "stdlib/queues/valrdy_queues.py cannot be imported today (dead code); it is analysed anyway with its val/rdy interface "
    "ports taken from a frozen table.")
ASSUMPTIONS = [
    "Bits arithmetic is modulo 2^n on equal widths and int operands must fit (C04); clog2/mk_bits/bit slices as documented (C05)",
    "every schedule of the update blocks computes the same combinational values (C02) and update_ff blocks read old / "
    "write new values (C07): the model evaluates nets on demand and registers with non-blocking semantics",
    "data independence: queue data paths only copy / select messages, so one valuation with pairwise distinct opaque "
    "tokens represents all message values (any other operation on a message is rejected by the evaluator)",
    "small-scope hypothesis for the capacity: the control equations depend on num_entries only through comparisons with "
    "num_entries / num_entries-1, +-1 steps and signal widths clog2(n), clog2(n+1); n in {1,2,3,4} (thorough: ..8) covers "
    "1-entry, power-of-two and non-power-of-two wrap",
    "the environment obeys the interface protocol (en only when rdy for en/rdy interfaces); connect() of two interfaces "
    "connects equally named ports; reset of a child component is the reset of its parent",
    "method constraints M(a) < M(b) on non-blocking CL interfaces order both the method and its rdy; callers call rdy() "
    "immediately before the method; an @update pulse block constrained before both rdy methods sees the start-of-cycle state",
    "stdlib/queues/valrdy_queues.py cannot be imported today (InValRdyIfc/OutValRdyIfc are not exported by stdlib/ifcs); "
    "its interface ports are modelled as 1-bit val/rdy and message msg",
]

KINDS = ('Normal', 'Pipe', 'Bypass')
D = TypeVal('data')
NEW = Tok('NEW')


class Fam:
    def __init__(self, name, enq_style, deq_style, gates_reset, top, ctrl=None):
        self.name, self.enq_style, self.deq_style, self.gates_reset = name, enq_style, deq_style, gates_reset
        self.top, self.ctrl = top, ctrl


# The frozen interface table of DESIGN.md: how each interface family maps onto the specification atoms.
#   offer    : input  -- an enqueue is offered            (en: legal only when enq_rdy; val: free)
#   enq_rdy  : output -- the queue accepts an enqueue
#   deq_in   : input  -- callee: deq.en (legal only when deq_avail); rdy: consumer ready
#   deq_avail: output -- a message is available (callee: deq.rdy; val/rdy: val);  en/rdy: deq_en = avail & rdy
FAMILIES = {
    'callee': Fam('callee', 'en', 'callee', True,
                  top=dict(offer='s.enq.en', enq_rdy='s.enq.rdy', enq_msg='s.enq.msg', deq_in='s.deq.en',
                           deq_avail='s.deq.rdy', deq_msg='s.deq.ret', count='s.count'),
                  ctrl=dict(offer='s.enq_en', enq_rdy='s.enq_rdy', deq_in='s.deq_en', deq_avail='s.deq_rdy',
                            count='s.count')),
    'stream': Fam('stream', 'val', 'rdy', False,
                  top=dict(offer='s.recv.val', enq_rdy='s.recv.rdy', enq_msg='s.recv.msg', deq_in='s.send.rdy',
                           deq_avail='s.send.val', deq_msg='s.send.msg', count='s.count'),
                  ctrl=dict(offer='s.recv_val', enq_rdy='s.recv_rdy', deq_in='s.send_rdy', deq_avail='s.send_val',
                            count='s.count')),
    'enrdy': Fam('enrdy', 'en', 'drive', False,
                 top=dict(offer='s.enq.en', enq_rdy='s.enq.rdy', enq_msg='s.enq.msg', deq_in='s.deq.rdy',
                          deq_en='s.deq.en', deq_msg='s.deq.msg')),
    'valrdy': Fam('valrdy', 'val', 'rdy', False,
                  top=dict(offer='s.enq.val', enq_rdy='s.enq.rdy', enq_msg='s.enq.msg', deq_in='s.deq.rdy',
                           deq_avail='s.deq.val', deq_msg='s.deq.msg', free='s.num_free_entries'),
                  ctrl=dict(offer='s.enq_val', enq_rdy='s.enq_rdy', deq_in='s.deq_rdy', deq_avail='s.deq_val',
                            free='s.num_free_entries')),
}
# queues whose occupancy bit is a register without reset (as found; simulators zero-initialise): the reset clause is
# not evaluated for them and an observation is recorded
NO_RESET = {(EN, 'NormalQueue1RTL'), (EN, 'PipeQueue1RTL'),
            (VR, 'NormalQueue1RTL'), (VR, 'PipeQueue1RTL'), (VR, 'BypassQueue1RTL')}

NS_CTRL = (2, 3, 4)


def kind_of(clsname):
    for k in KINDS:
        if clsname.startswith(k):
            return k.lower()
    raise AnalysisError(f"queue kind cannot be read from class name {clsname}")


# ---------------------------------------------------------------------------
# the specification: one step of a FIFO of the given kind
class Pt:
    pass


def spec_point(kind, n, count, contents, reset, offer, deq_in, fam):
    p = Pt()
    p.constrained = True
    if reset and fam.gates_reset:
        er = av = False
    elif kind == 'normal':
        er, av = count < n, count > 0
    elif kind == 'pipe':
        av = count > 0
        er = count < n or (av and bool(deq_in))
    elif kind == 'bypass':
        er = count < n
        av = count > 0 or (bool(offer) and er)
    else:
        raise AnalysisError(kind)
    if reset and not fam.gates_reset:
        p.constrained = False           # outputs under reset are not specified for families that do not gate
    p.er, p.av = int(er), int(av)
    p.ex, p.dx = int(bool(offer) and er), int(bool(deq_in) and av)
    p.legal = not (fam.enq_style == 'en' and offer and not er) and \
        not (fam.deq_style == 'callee' and deq_in and not av)
    if reset:
        p.count2, p.contents2 = 0, ([] if contents is not None else None)
    else:
        p.count2 = count + p.ex - p.dx
        if contents is not None:
            p.contents2 = (list(contents) + ([NEW] if p.ex else []))[p.dx:]
        else:
            p.contents2 = None
    if contents is not None:
        p.msg = contents[0] if count > 0 else NEW
    else:
        p.msg = None
    return p


# ---------------------------------------------------------------------------
# state encodings (the frozen table of DESIGN.md): enumeration of representation-consistent register valuations
# and the abstraction function back to (count, stored messages oldest first)
def _reg(nl, leaf, required=True):
    hits = []
    for s in nl.sigs:
        if s.leaf == leaf and nl.find(s) in nl.ff_nets and not any(nl.find(s) is h for h in hits):
            hits.append(nl.find(s))
    if len(hits) != 1:
        if not hits and not required:
            return None
        raise AnalysisError(f"anchor vanished: expected exactly one register named `{leaf}` in {nl.top.clsname}, "
                            f"found {len(hits)}")
    return hits[0]


def _storage(nl, required):
    regs = {}
    for s in nl.sigs:
        if isinstance(s.leaf, str) and s.leaf.startswith('regs[') and nl.find(s) in nl.ff_nets:
            regs.setdefault(id(s.owner), []).append(s)
    if not regs:
        if required:
            raise AnalysisError(f"anchor vanished: no register-file storage in {nl.top.clsname}")
        return None
    if len(regs) != 1:
        raise AnalysisError(f"{nl.top.clsname}: more than one register file")
    lst = list(regs.values())[0]
    return sorted(lst, key=lambda s: int(s.leaf[5:-1]))


class Enc:
    """an encoding instance bound to a netlist: .states() -> list of St;  .alpha(regvals) -> (count, contents|None)
    or a string describing why the valuation is not representation-consistent"""


class St:
    def __init__(self, regs, count, contents, descr, **extra):
        self.regs, self.count, self.contents, self.descr = regs, count, contents, descr
        self.__dict__.update(extra)


def _bv(sig, v):
    if sig.nbits == 'data':
        raise AnalysisError(f"{sig.name} is a message register, expected a Bits register")
    if v >= (1 << sig.nbits):
        raise ModelFault(f"register {sig.name} (Bits{sig.nbits}) cannot hold the value {v}")
    return BV(v, sig.nbits)


class EncCount(Enc):
    name = 'count register + head/tail'

    def __init__(self, nl, n, data):
        self.nl, self.n = nl, n
        self.head, self.tail, self.count = _reg(nl, 'head'), _reg(nl, 'tail'), _reg(nl, 'count')
        self.store = _storage(nl, data)
        if self.store is not None and len(self.store) != n:
            raise ModelFault(f"register file has {len(self.store)} entries for num_entries={n}")
        self._check_cover()

    def _check_cover(self):
        known = {self.head, self.tail, self.count} | set(self.nl.find(s) for s in (self.store or []))
        extra = [r for r in self.nl.registers() if r not in known]
        if extra:
            raise AnalysisError(f"{self.nl.top.clsname}: registers outside the state encoding: "
                                f"{[self.nl.net_name(r) for r in extra]}")

    def states(self):
        n = self.n
        out = []
        for h in range(n):
            for c in range(n + 1):
                regs = {self.head: _bv(self.head, h), self.tail: _bv(self.tail, (h + c) % n),
                        self.count: _bv(self.count, c)}
                for i, s in enumerate(self.store or ()):
                    regs[self.nl.find(s)] = Tok(f'R{i}')
                # (controller level: the storage is virtual -- slot i holds R<i> -- and is driven by wen / waddr)
                contents = [Tok(f'R{(h + i) % n}') for i in range(c)]
                out.append(St(regs, c, contents, f"head={h} tail={(h + c) % n} count={c}", head=h, tail=(h + c) % n))
        return out

    def alpha(self, rv, vstore=None):
        n = self.n
        h, t, c = rv[self.head].v, rv[self.tail].v, rv[self.count].v
        if h >= n or t >= n or c > n:
            return f"head'={h} tail'={t} count'={c} out of range for num_entries={n}"
        if (h + c) % n != t:
            return f"head'={h} tail'={t} count'={c}: tail' != head'+count' mod {n}"
        if self.store is not None:
            contents = [rv[self.nl.find(self.store[(h + i) % n])] for i in range(c)]
        else:
            contents = [vstore[(h + i) % n] for i in range(c)]
        return c, contents, dict(head=h, tail=t)


class EncPtrFull(Enc):
    name = 'enq/deq pointers + full bit'

    def __init__(self, nl, n, data):
        self.nl, self.n = nl, n
        self.enq, self.deq, self.full = _reg(nl, 'enq_ptr'), _reg(nl, 'deq_ptr'), _reg(nl, 'full')
        self.store = _storage(nl, data)
        if self.store is not None and len(self.store) != n:
            raise ModelFault(f"register file has {len(self.store)} entries for num_entries={n}")
        known = {self.enq, self.deq, self.full} | set(nl.find(s) for s in (self.store or []))
        extra = [r for r in nl.registers() if r not in known]
        if extra:
            raise AnalysisError(f"{nl.top.clsname}: registers outside the state encoding: {[nl.net_name(r) for r in extra]}")

    def states(self):
        n = self.n
        out = []
        for d in range(n):
            for c in range(n + 1):
                e = (d + c) % n
                regs = {self.enq: _bv(self.enq, e), self.deq: _bv(self.deq, d), self.full: BV(int(c == n), 1)}
                for i, s in enumerate(self.store or ()):
                    regs[self.nl.find(s)] = Tok(f'R{i}')
                contents = [Tok(f'R{(d + i) % n}') for i in range(c)]
                out.append(St(regs, c, contents, f"deq_ptr={d} enq_ptr={e} full={int(c == n)}", head=d, tail=e))
        return out

    def alpha(self, rv, vstore=None):
        n = self.n
        e, d, f = rv[self.enq].v, rv[self.deq].v, rv[self.full].v
        if e >= n or d >= n:
            return f"enq_ptr'={e} deq_ptr'={d} out of range for num_entries={n}"
        if f and e != d:
            return f"full'=1 with enq_ptr'={e} != deq_ptr'={d}"
        c = n if f else (e - d) % n
        if self.store is not None:
            contents = [rv[self.nl.find(self.store[(d + i) % n])] for i in range(c)]
        else:
            contents = [vstore[(d + i) % n] for i in range(c)]
        return c, contents, dict(head=d, tail=e)


def _one_regs(nl, regs, where):
    bits = [r for r in regs if r.nbits == 1]
    data = [r for r in regs if r.nbits == 'data']
    if len(bits) != 1 or len(data) != 1 or len(regs) != 2:
        raise AnalysisError(f"{where}: a 1-entry queue must have exactly one 1-bit register (full) and one message "
                            f"register (entry); found {[nl.net_name(r) for r in regs]}")
    return bits[0], data[0]


class EncOne(Enc):
    name = 'full bit + entry'

    def __init__(self, nl, n, data):
        self.nl, self.n = nl, 1
        if n != 1:
            raise AnalysisError("1-entry encoding with n != 1")
        self.full, self.entry = _one_regs(nl, nl.registers(), nl.top.clsname)

    def states(self):
        return [St({self.full: BV(f, 1), self.entry: Tok('R0')}, f, [Tok('R0')] * f, f"full={f}") for f in (0, 1)]

    def alpha(self, rv, vstore=None):
        f = rv[self.full].v
        return f, [rv[self.entry]] * f, {}


class EncChain(Enc):
    name = 'chain of 1-entry stages'

    def __init__(self, nl, n, data):
        self.nl, self.n = nl, n
        top = nl.top
        stages = [v for v in top.attrs.values() if isinstance(v, Inst) and not v.is_ifc]
        if len(stages) != n:
            raise ModelFault(f"{top.clsname}: {len(stages)} stages for a capacity of {n}")
        # order the stages upstream -> downstream by following the enq/deq connections
        def port(inst, ifc, p):
            i = inst.attrs.get(ifc)
            if not isinstance(i, Inst) or not isinstance(i.attrs.get(p), Sig):
                raise AnalysisError(f"anchor vanished: {inst.path}.{ifc}.{p}")
            return i.attrs[p]
        order = []
        cur = port(top, 'enq', 'en')
        rest = list(stages)
        while rest:
            nxt = [s for s in rest if nl.find(port(s, 'enq', 'en')) is nl.find(cur)]
            if len(nxt) != 1:
                raise ModelFault(f"{top.clsname}: the stages do not form a chain from s.enq")
            order.append(nxt[0])
            rest.remove(nxt[0])
            cur = port(nxt[0], 'deq', 'en')
        if nl.find(cur) is not nl.find(port(top, 'deq', 'en')):
            raise ModelFault(f"{top.clsname}: the last stage is not connected to s.deq")
        self.stages = []
        for s in order:
            pre = s.path + '.'
            self.stages.append(_one_regs(nl, [r for r in nl.registers() if any(m.name.startswith(pre) for m in nl.members(r))],
                                         s.path))
        if len({r for st in self.stages for r in st}) != len(nl.registers()):
            raise AnalysisError(f"{top.clsname}: registers outside the state encoding")

    def states(self):
        # every combination of stage full bits is a legal representation (stored messages: downstream stage first)
        n = self.n
        out = []
        for fulls in itertools.product((0, 1), repeat=n):
            regs = {}
            for i, (f, e) in enumerate(self.stages):
                regs[f] = BV(fulls[i], 1)
                regs[e] = Tok(f'R{i}')
            contents = [Tok(f'R{i}') for i in reversed(range(n)) if fulls[i]]
            out.append(St(regs, sum(fulls), contents, "stage full bits (upstream first) = " + ''.join(map(str, fulls))))
        return out

    def alpha(self, rv, vstore=None):
        fulls = [rv[f].v for f, e in self.stages]
        contents = [rv[e] for (f, e), fl in reversed(list(zip(self.stages, fulls))) if fl]
        return sum(fulls), contents, {}


# ---------------------------------------------------------------------------
# evaluation of one class against the specification
class Outcome:
    def __init__(self):
        self.points = {}      # aspect -> number of abstract points compared
        self.miss = {}        # aspect -> first mismatch message
        self.devs = {}        # aspect -> set of deviation signatures "<abstract state>: got X want Y" (input independent)
        self.evals = 0
        self.notes = []

    def cmp(self, aspect, ok, msg, sig=None):
        self.points[aspect] = self.points.get(aspect, 0) + 1
        if not ok:
            if aspect not in self.miss:
                self.miss[aspect] = msg() if callable(msg) else msg
            self.devs.setdefault(aspect, set()).add(sig or 'mismatch')

    def fault(self, aspect, msg):
        self.points[aspect] = self.points.get(aspect, 0) + 1
        self.miss.setdefault(aspect, msg)
        self.devs.setdefault(aspect, set()).add('evaluation fault')


def _v(x):
    return x.v if isinstance(x, BV) else x


def evaluate(nl, enc, ports, fam, kind, n, has_reset, ctrl_level):
    """compare the netlist with the specification on every abstract point; returns an Outcome.
    (a free internal signal that is read is reported by the evaluator as a ModelFault)"""
    oc = Outcome()
    sig = {k: nl.lookup(p) for k, p in ports.items()}
    for k in ('enq_rdy', 'deq_avail', 'deq_en', 'deq_msg', 'count', 'free'):
        if k in sig and nl.find(sig[k]) not in nl.driver:
            oc.fault('outputs', f"output {ports[k]} is not driven by anything")
    for k in ('offer', 'deq_in', 'enq_msg'):
        if k in sig and nl.find(sig[k]) in nl.driver:
            oc.fault('outputs', f"input {ports[k]} is driven inside the queue by {nl.driver[nl.find(sig[k])].describe()}")
    if oc.miss:
        return oc
    for st in enc.states():
        for reset in ((0, 1) if has_reset else (0,)):
            for offer in (0, 1):
                for deq_in in (0, 1):
                    where = f"n={n} {st.descr} reset={reset} {ports['offer']}={offer} {ports['deq_in']}={deq_in}"
                    inputs = {sig['offer']: BV(offer, 1), sig['deq_in']: BV(deq_in, 1)}
                    if 'enq_msg' in sig:
                        inputs[sig['enq_msg']] = NEW
                    sim = Sim(nl, st.regs, inputs, reset)
                    p = spec_point(kind, n, st.count, st.contents, reset, offer, deq_in, fam)
                    if not p.legal:
                        continue
                    try:
                        _compare(oc, sim, nl, enc, sig, ports, fam, kind, n, st, p, reset, where, ctrl_level)
                    except ModelFault as ex:
                        oc.fault('fault', f"{where}: {ex}")
                    oc.evals += sim.evals + 1
    return oc


def _compare(oc, sim, nl, enc, sig, ports, fam, kind, n, st, p, reset, where, ctrl_level):
    rd = lambda k: _v(sim.read(sig[k]))
    at = f"n={n} {st.descr}{' reset=1' if reset else ''}"
    dev = lambda got, want: f"{at}: {got} instead of {want}"
    offer, deq_in = _v(sim.inputs[nl.find(sig['offer'])]), _v(sim.inputs[nl.find(sig['deq_in'])])
    if p.constrained:
        got = rd('enq_rdy')
        oc.cmp('enq_rdy', got == p.er, lambda: f"{where}: {ports['enq_rdy']} is {got}, a {kind} queue requires {p.er}",
               dev(got, p.er))
        blocked = fam.enq_style == 'en' and offer and not got
        if 'deq_avail' in sig:
            got2 = rd('deq_avail')
            oc.cmp('deq_avail', got2 == p.av,
                   lambda: f"{where}: {ports['deq_avail']} is {got2}, a {kind} queue requires {p.av}", dev(got2, p.av))
            blocked = blocked or (fam.deq_style == 'callee' and deq_in and not got2)
        if 'deq_en' in sig:
            got3 = rd('deq_en')
            oc.cmp('deq_avail', got3 == p.dx,
                   lambda: f"{where}: {ports['deq_en']} is {got3}, a {kind} queue must send iff a message is available "
                           f"and the consumer is ready ({p.dx})", dev(got3, p.dx))
        if blocked:
            # the implementation's own ready makes this offer illegal: the mismatch is recorded above, the rest of the
            # cycle is not specified
            return
    if not reset:
        if 'count' in sig:
            c = rd('count')
            oc.cmp('count_out', c == st.count, lambda: f"{where}: {ports['count']} reads {c}, occupancy is {st.count}",
                   dev(c, st.count))
        if 'free' in sig:
            c = rd('free')
            oc.cmp('count_out', c == n - st.count,
                   lambda: f"{where}: {ports['free']} reads {c}, free entries are {n - st.count}", dev(c, n - st.count))
        if 'deq_msg' in sig and p.av:
            m = sim.read(sig['deq_msg'])
            oc.cmp('deq_msg', m == p.msg, lambda: f"{where}: {ports['deq_msg']} carries {m}, the oldest message is {p.msg}",
                   dev(m, p.msg))
    vstore = None
    if ctrl_level:
        # the controller drives a (virtual) storage: slot i holds R<i>; it is read at raddr (bypass select: the offered
        # message) and written with the offered message at waddr when wen.  Judged architecture-independently through
        # the delivered message and the stored sequence after the edge.
        vstore = [Tok(f'R{i}') for i in range(n)]
        wen, waddr, raddr = (_v(sim.read(nl.lookup('s.' + k))) for k in ('wen', 'waddr', 'raddr'))
        byp = _v(sim.read(nl.lookup('s.mux_sel'))) if nl.has('s.mux_sel') else 0
        if not reset and p.av:
            m = NEW if byp else (vstore[raddr] if raddr < n else f"slot {raddr} (out of range)")
            oc.cmp('deq_msg', m == p.msg,
                   lambda: f"{where}: raddr={raddr}{' with the bypass path selected' if byp else ''} delivers {m}, the oldest "
                           f"message is {p.msg}", dev(m, p.msg))
        if wen:
            if waddr >= n:
                oc.cmp('next_contents', False, f"{where}: write address {waddr} out of range", dev(waddr, f'< {n}'))
                return
            vstore[waddr] = NEW
    # sequential phase
    nxt = sim.step()
    a = enc.alpha(nxt, vstore)
    io = f"{at} xfer={p.ex}{p.dx}"
    if isinstance(a, str):
        oc.cmp('next_inv', False, f"{where}: after the clock edge {a}", f"{io}: {a}")
        return
    oc.cmp('next_inv', True, '')
    c2, contents2, extra = a
    oc.cmp('next_count', c2 == p.count2,
           lambda: f"{where}: occupancy after the edge is {c2}, must be {p.count2} "
                   f"(= {'0 under reset' if reset else f'{st.count} + {p.ex} - {p.dx}'})", f"{io}: {c2} instead of {p.count2}")
    if contents2 is not None:
        oc.cmp('next_contents', contents2 == p.contents2,
               lambda: f"{where}: stored messages after the edge are {contents2}, must be {p.contents2}",
               f"{io}: {contents2} instead of {p.contents2}")

# ---------------------------------------------------------------------------
# the classes under analysis
def _targets():
    """(file, class, family, level, encoding, capacities, ctor(n) -> args)"""
    t = []
    for rel, fam in ((Q, 'callee'), (ST, 'stream')):
        for k in KINDS:
            t.append(dict(rel=rel, cls=f'{k}QueueCtrlRTL', fam=fam, level='ctrl', enc=EncCount, ns=NS_CTRL,
                          args=lambda n: ((n,), {})))
            t.append(dict(rel=rel, cls=f'{k}Queue1EntryRTL', fam=fam, level='one', enc=EncOne, ns=(1,),
                          args=lambda n: ((D,), {})))
            t.append(dict(rel=rel, cls=f'{k}QueueRTL', fam=fam, level='top', enc=None, ns=(1, 2, 3, 4),
                          args=lambda n: ((D, n), {})))
    for rel, fam in ((EN, 'enrdy'), (VR, 'valrdy')):
        for k in KINDS:
            t.append(dict(rel=rel, cls=f'{k}Queue1RTL', fam=fam, level='one', enc=EncOne, ns=(1,),
                          args=lambda n: ((D,), {})))
    t.append(dict(rel=EN, cls='BypassQueue2RTL', fam='enrdy', level='top', enc=EncChain, ns=(2,),
                  args=lambda n: ((D,), {})))
    t.append(dict(rel=VR, cls='NormalQueueRTLCtrl', fam='valrdy', level='ctrl', enc=EncPtrFull, ns=NS_CTRL,
                  args=lambda n: ((n,), {})))
    t.append(dict(rel=VR, cls='NormalQueueRTL', fam='valrdy', level='top', enc=EncPtrFull, ns=(2, 3, 4),
                  args=lambda n: ((n, D), {})))
    return t


_CACHE = {}


def _reads_reset(nl):
    for b in nl.blocks:
        if isinstance(b.node, ast.AST) and any(isinstance(x, ast.Attribute) and x.attr == 'reset' for x in ast.walk(b.node)):
            return True
    return False


# A tiny embedded positive example (expected finding count on the real tree is zero): a "normal" 1-entry val/rdy queue
# with three planted defects.  Every netlist rule must flag its defect on every run, otherwise the evaluator / the
# specification has lost its teeth and the run is an ANALYSIS-ERROR.
_PROBE_REL = 'pymtl3/stdlib/stream/c17_embedded_probe_.py'
_PROBE_SRC = '''
from pymtl3 import *
from .ifcs import RecvIfcRTL, SendIfcRTL

class NormalQueue1EntryRTL( Component ):
  def construct( s, EntryType ):
    s.recv  = RecvIfcRTL( EntryType )
    s.send  = SendIfcRTL( EntryType )
    s.count = OutPort()
    s.full  = Wire()
    s.entry = Wire( EntryType )
    s.count    //= s.full
    s.send.msg //= s.entry
    s.send.val //= s.full
    s.recv.rdy //= lambda: ~s.full | s.send.rdy          # defect 1: pipe behaviour in a normal queue
    @update_ff
    def ff_probe():
      if s.reset:
        s.full <<= 0
      else:
        s.full <<= s.recv.val | (s.full & ~s.send.rdy)   # defect 2: occupancy ignores whether the offer was accepted
      if s.recv.val:
        s.entry <<= s.recv.msg                           # defect 3: a stored message is overwritten
'''
_PROBE_CACHE = {}


def _probe(repo):
    key = id(repo)
    if key in _PROBE_CACHE and _PROBE_CACHE[key][0] is repo:
        return _PROBE_CACHE[key][1]
    prepo = Repo(repo.root, dict(repo.overlay, **{_PROBE_REL: _PROBE_SRC}))
    fam = FAMILIES['stream']
    nl = Elaborator(prepo).build(_PROBE_REL, 'NormalQueue1EntryRTL', D)
    enc = EncOne(nl, 1, True)
    oc = evaluate(nl, enc, dict(fam.top), fam, 'normal', 1, True, False)
    _PROBE_CACHE.clear()
    _PROBE_CACHE[key] = (repo, (oc, nl, enc))
    return oc, nl, enc


def _require_probe(repo, rule, aspects):
    oc, _, _ = _probe(repo)
    for a in aspects:
        if a not in oc.miss:
            raise AnalysisError(f"{rule}: the embedded positive example (planted defect in `{a}`) was not flagged; "
                                f"the checker has lost its teeth")


NS_WIDE = (5, 6, 7, 8)


def analyse_all(repo, wide=False):
    """elaborate and evaluate every target once per run (shared by the rules).  wide: the n-entry controllers and
    wrappers with the larger capacities of the thorough tier"""
    key = (id(repo), wide)
    if key in _CACHE and _CACHE[key][0] is repo:
        return _CACHE[key][1]
    elab = Elaborator(repo)
    out = []
    targets = _targets()
    if wide:
        targets = [dict(t, ns=NS_WIDE) for t in targets if t['level'] in ('ctrl', 'top') and t['enc'] is not EncChain]
    for t in targets:
        mod = repo.mod(t['rel'])
        cls = mod.get_class(t['cls'])
        fam = FAMILIES[t['fam']]
        kind = kind_of(t['cls'])
        for n in t['ns']:
            rec = dict(t=t, n=n, mod=mod, cls=cls, kind=kind, fam=fam, has_reset=True, nl=None, oc=None, err=None)
            a, kw = t['args'](n)
            try:
                nl = elab.build(t['rel'], t['cls'], *a, **kw)
                rec['nl'] = nl
                # the exemption applies only while the class really has no reset logic
                has_reset = rec['has_reset'] = (t['rel'], t['cls']) not in NO_RESET or _reads_reset(nl)
                encc = t['enc'] or (EncOne if n == 1 else EncCount)
                enc = encc(nl, n, t['level'] != 'ctrl')
                ports = dict(fam.ctrl if t['level'] == 'ctrl' else fam.top)
                if t['level'] != 'ctrl' and 'free' in ports and not nl.has(ports['free']):
                    ports.pop('free')
                if 'count' in ports and not nl.has(ports['count']):
                    raise AnalysisError(f"anchor vanished: {ports['count']} in {t['cls']}")
                rec['enc'] = enc
                rec['oc'] = evaluate(nl, enc, ports, fam, kind, n, has_reset, t['level'] == 'ctrl')
            except ModelFault as ex:
                rec['err'] = str(ex)
            out.append(rec)
    for k in [k for k, v in _CACHE.items() if v[0] is not repo]:
        del _CACHE[k]
    _CACHE[key] = (repo, out)
    return out


def _driver_text(rec, port_key):
    """normalised text of whatever drives the given port (for the finding's construct)"""
    nl, t = rec['nl'], rec['t']
    ports = rec['fam'].ctrl if t['level'] == 'ctrl' else rec['fam'].top
    p = ports.get(port_key)
    if nl is None or p is None or not nl.has(p):
        return port_key
    d = nl.driver.get(nl.find(nl.lookup(p)))
    return f"{p} <- {d.describe()}" if d is not None else f"{p} (undriven)"


def _report(r, recs, aspects, label, construct_of, level_filter):
    """one rule instance per (class, aspect): holds iff no abstract point of any capacity mismatches"""
    groups = {}
    for rec in recs:
        if not level_filter(rec):
            continue
        groups.setdefault((rec['t']['rel'], rec['t']['cls']), []).append(rec)
    for (rel, cls), rs in groups.items():
        mod = rs[0]['mod']
        line = rs[0]['cls'].lineno
        errs = [x for x in rs if x['err']]
        if errs:
            r.bad(mod, cls, 'elaboration', f"n={errs[0]['n']}: {errs[0]['err']}", line)
            continue
        for x in rs:
            r.evaluations += x['oc'].evals
        faults = [x['oc'].miss[a] for x in rs for a in ('fault', 'outputs') if a in x['oc'].miss]
        for a in aspects:
            pts = sum(x['oc'].points.get(a, 0) for x in rs)
            if not pts:
                continue
            miss = [x['oc'].miss[a] for x in rs if a in x['oc'].miss]
            cons = f"{label[a]}: {construct_of(rs[0], a)}"
            if miss:
                # the construct of a failing instance names the deviating abstract states (no line numbers, no inputs),
                # so a different deviation of the same equation has a different finding key
                devs = sorted({d for x in rs for d in x['oc'].devs.get(a, ())})
                shown = '; '.join(devs[:4]) + (f"; ... {len(devs)} deviating states" if len(devs) > 4 else '')
                r.bad(mod, cls, f"{cons} -- deviates at {shown}", miss[0], line)
            elif faults:
                r.bad(mod, cls, cons, faults[0], line)
            else:
                r.ok(mod, cls, cons, note=f"{pts} abstract points, n in {sorted({x['n'] for x in rs})}")
        if faults and not any(sum(x['oc'].points.get(a, 0) for x in rs) for a in aspects):
            r.bad(mod, cls, 'evaluation', faults[0], line)


# ---------------------------------------------------------------------------
def rule_rdy(repo):
    r = RuleResult('R-C17-rdy', "ready/valid outputs are asserted exactly when the queue kind says (normal: enq iff not "
                                "full, deq iff not empty; pipe: enq also when a dequeue happens; bypass: deq also when an "
                                "enqueue is offered), low under reset where the family gates on reset")
    recs = analyse_all(repo)
    _require_probe(repo, r.rule, ('enq_rdy',))
    label = {'enq_rdy': 'enqueue-ready equation', 'deq_avail': 'dequeue-ready/valid equation'}

    def cons(rec, a):
        if a == 'enq_rdy':
            return _driver_text(rec, 'enq_rdy')
        return _driver_text(rec, 'deq_avail' if 'deq_avail' in (rec['fam'].top) else 'deq_en')
    # reset gating is folded into the two equations: for the family that gates, the specification is 0 under reset
    _report(r, recs, ('enq_rdy', 'deq_avail'), label, cons, lambda rec: rec['t']['level'] in ('ctrl', 'one'))
    for rel, cls in sorted({(x['t']['rel'], x['t']['cls']) for x in recs if not x['has_reset']}):
        r.observations.append(f"{rel}:{cls}: the full bit is a register without reset; the reset clause is not evaluated")
    notes = sorted({n for rec in recs if rec['nl'] is not None for n in rec['nl'].notes})
    r.observations.extend(notes)
    r.require_floor(34)
    return r


def rule_count(repo):
    r = RuleResult('R-C17-count', "occupancy / pointer update equations: count' = count + enq_xfer - deq_xfer, reset -> 0, "
                                  "pointers stay consistent (tail = head + count mod n, wrap at num_entries-1); the controller's "
                                  "wen / waddr / raddr / bypass select deliver the oldest message and store the accepted one "
                                  "behind the youngest; full' of the 1-entry queues")
    recs = analyse_all(repo)
    _require_probe(repo, r.rule, ('next_count',))
    label = {'count_out': 'occupancy output', 'next_count': "occupancy update", 'next_inv': 'pointer consistency after the edge',
             'deq_msg': 'slot selected for delivery (raddr / bypass select)',
             'next_contents': 'stored sequence implied by wen / waddr / pointer updates'}

    def cons(rec, a):
        nl = rec['nl']
        if a == 'count_out':
            return _driver_text(rec, 'count' if 'count' in rec['fam'].top else 'free')
        if a in ('deq_msg', 'next_contents') and nl is not None:
            def drv(k):
                if not nl.has('s.' + k):
                    return None
                d = nl.driver.get(nl.find(nl.lookup('s.' + k)))
                return f"s.{k} <- {('register ' + nl.net_name(nl.lookup('s.' + k))) if d and d.kind == 'ff' else (d.describe() if d else 'undriven')}"
            keys = ('raddr', 'mux_sel') if a == 'deq_msg' else ('wen', 'waddr')
            return '; '.join(x for x in map(drv, keys) if x)
        regs = ', '.join(sorted({b.name for b in nl.blocks if b.kind == 'ff'})) if nl is not None else ''
        return f"update_ff {regs}"
    _report(r, recs, ('count_out', 'next_count', 'next_inv', 'deq_msg', 'next_contents'), label, cons,
            lambda rec: rec['t']['level'] == 'ctrl')
    _report(r, recs, ('count_out', 'next_count', 'next_inv'), label, cons, lambda rec: rec['t']['level'] == 'one')
    r.require_floor(60)
    return r


def rule_step(repo):
    r = RuleResult('R-C17-step', "complete queues, one cycle with message tokens: outputs, delivered message = oldest stored "
                                 "(bypass: the offered one when empty), stored sequence after the edge = old + accepted - "
                                 "delivered, representation invariant preserved (decides wrapper / data-path wiring)")
    recs = analyse_all(repo)
    _require_probe(repo, r.rule, ('next_contents', 'enq_rdy', 'next_count'))
    label = {'enq_rdy': 'enqueue-ready at the interface', 'deq_avail': 'dequeue-ready/valid at the interface',
             'count_out': 'occupancy output', 'deq_msg': 'delivered message', 'next_inv': 'representation invariant',
             'next_count': 'occupancy after the edge', 'next_contents': 'stored messages after the edge'}

    def cons(rec, a):
        return f"{rec['fam'].name} interface, capacities {sorted(set(rec['t']['ns']))}"
    _report(r, recs, ('enq_rdy', 'deq_avail', 'count_out', 'deq_msg', 'next_inv', 'next_count', 'next_contents'),
            label, cons, lambda rec: rec['t']['level'] in ('top', 'one'))
    r.require_floor(120)
    return r


# ---------------------------------------------------------------------------
# sibling agreement (no hand-written specification involved)
def _majority(table):
    """table: name -> value; returns (majority value or None on a tie, names that deviate)"""
    counts = {}
    for v in table.values():
        counts[v] = counts.get(v, 0) + 1
    best = sorted(counts.items(), key=lambda kv: -kv[1])
    if len(best) > 1 and best[0][1] == best[1][1]:
        return None, sorted(table)
    return best[0][0], sorted(k for k, v in table.items() if v != best[0][0])


def _relation(nl, enc, ports, fam, n, r):
    """canonical transition relation {(n, occupancy, enq_xfer, deq_xfer, occupancy')} of a queue / controller over the
    offers that are legal for this implementation (reset low); transfers are derived from the implementation's own
    ready / valid outputs, so no hand-written specification is involved"""
    sig = {k: nl.lookup(p) for k, p in ports.items() if k in ('offer', 'enq_rdy', 'deq_in', 'deq_avail', 'deq_en', 'enq_msg')}
    rel = set()
    for st in enc.states():
        for offer, deq_in in itertools.product((0, 1), repeat=2):
            inputs = {sig['offer']: BV(offer, 1), sig['deq_in']: BV(deq_in, 1)}
            if 'enq_msg' in sig:
                inputs[sig['enq_msg']] = NEW
            sim = Sim(nl, st.regs, inputs, 0)
            r.evaluations += 1
            try:
                er = _v(sim.read(sig['enq_rdy']))
                if fam.enq_style == 'en' and offer and not er:
                    continue        # illegal offer for this implementation
                ex = offer if fam.enq_style == 'en' else (offer & er)
                if fam.deq_style == 'drive':
                    dx = _v(sim.read(sig['deq_en']))
                else:
                    av = _v(sim.read(sig['deq_avail']))
                    if fam.deq_style == 'callee' and deq_in and not av:
                        continue
                    dx = deq_in if fam.deq_style == 'callee' else (deq_in & av)
                a = enc.alpha(sim.step(), [None] * n)
                rel.add((n, st.count, ex, dx, a if isinstance(a, str) else a[0]))
            except ModelFault as e:
                rel.add((n, st.count, 'fault', str(e)))
    return frozenset(rel)


def rule_siblings(repo):
    r = RuleResult('R-C17-siblings', "the sibling copies agree with each other: queues / controllers of one kind compared "
                                     "across the interface families as canonical transition relations (capacity, occupancy, "
                                     "enq_xfer, deq_xfer) -> occupancy', transfers taken from each copy's own ready/valid")
    recs = analyse_all(repo)
    for level, what in (('ctrl', 'n-entry controller'), ('one', '1-entry queue')):
        for kind in KINDS:
            group = [x for x in recs if x['t']['level'] == level and x['kind'] == kind.lower()]
            rel_tab, by_name = {}, {}
            for x in group:
                name = (x['t']['rel'], x['t']['cls'])
                by_name[name] = x
                if x['err'] or x['nl'] is None:
                    rel_tab[name] = frozenset([('elaboration', str(x['err']))])
                    continue
                ports = x['fam'].ctrl if level == 'ctrl' else x['fam'].top
                rel_tab[name] = rel_tab.get(name, frozenset()) | _relation(x['nl'], x['enc'], ports, x['fam'], x['n'], r)
            if len(rel_tab) < 2:
                raise AnalysisError(f"R-C17-siblings: fewer than two {kind.lower()} {what} copies found")
            if level == 'one' and kind == 'Normal':
                # embedded positive example: the planted-defect queue must be singled out by the comparison
                _, pnl, penc = _probe(repo)
                ptab = dict(rel_tab)
                ptab[('<probe>', 'probe')] = _relation(pnl, penc, FAMILIES['stream'].top, FAMILIES['stream'], 1, r)
                if ('<probe>', 'probe') not in _majority(ptab)[1]:
                    raise AnalysisError("R-C17-siblings: the embedded positive example was not singled out")
            maj, odd = _majority(rel_tab)
            for name, x in by_name.items():
                cons = f"{kind.lower()} {what}: transition relation (n, occupancy, enq_xfer, deq_xfer, occupancy')"
                if name in odd:
                    others = [v for k, v in rel_tab.items() if k != name]
                    ref = maj if maj is not None else others[0]
                    diff = sorted(rel_tab[name] ^ ref, key=str)
                    r.bad(x['mod'], x['t']['cls'], cons,
                          f"differs from the {kind.lower()} {what} copies of the other interface families "
                          f"({', '.join(sorted(k[0].split('/')[-2] + '/' + k[1] for k in rel_tab if k != name))}) in the "
                          f"transitions {diff[:4]}", x['cls'].lineno)
                else:
                    r.ok(x['mod'], x['t']['cls'], cons, note=f"{len(rel_tab[name])} transitions, {len(rel_tab)} copies")
    r.require_floor(16)
    return r


# ---------------------------------------------------------------------------
# cycle-level queues
from sa.minieval import Obj, Raised        # noqa: E402

CL_REQUIRED = {
    'pipe': {('M:deq', 'M:enq'), ('M:peek', 'M:enq')},
    'bypass': {('M:enq', 'M:deq'), ('M:enq', 'M:peek')},
    'normal': {('U:pulse', 'M:enq.rdy'), ('U:pulse', 'M:deq.rdy'), ('M:peek', 'M:deq.rdy'), ('M:peek', 'M:enq.rdy')},
}

def _cl_guard(func):
    """the guard expression of a @non_blocking( lambda s: ... ) method: (param name, body)"""
    for d in func.decorator_list:
        if isinstance(d, ast.Call) and norm(d.func) == 'non_blocking' and len(d.args) == 1 and not d.keywords:
            g = d.args[0]
            if isinstance(g, ast.Lambda) and len(g.args.args) == 1:
                return g.args.args[0].arg, g.body
            raise AnalysisError(f"guard of {func.name} is not a one-parameter lambda")
    return None


def _cl_term(e, selfname, pulse_name):
    """'M:enq' / 'M:enq.rdy' / 'U:pulse' for M( s.enq ) / M( s.enq.rdy ) / U( up_pulse )"""
    if isinstance(e, ast.Call) and isinstance(e.func, ast.Name) and len(e.args) == 1 and not e.keywords:
        a = e.args[0]
        if e.func.id == 'M':
            t = norm(a)
            if t.startswith(selfname + '.'):
                return 'M:' + t[len(selfname) + 1:]
        if e.func.id == 'U' and isinstance(a, ast.Name):
            return 'U:pulse' if a.id == pulse_name else 'U:' + a.id
    raise AnalysisError(f"constraint term outside the model: {norm(e)}")


_CL_PROBE_SRC = '''
from collections import deque
from pymtl3 import *

class PipeQueueCL( Component ):
  def construct( s, num_entries=1 ):
    s.queue = deque( maxlen=num_entries )
    s.add_constraints(
      M( s.peek ) < M( s.enq ),
      M( s.enq  ) < M( s.deq ),       # planted: bypass ordering in a pipe queue
    )
  @non_blocking( lambda s: len( s.queue ) <= s.queue.maxlen )   # planted: accepts when full
  def enq( s, msg ):
    s.queue.appendleft( msg )
  @non_blocking( lambda s: len( s.queue ) > 0 )
  def deq( s ):
    return s.queue.popleft()          # planted: last in, first out
  @non_blocking( lambda s: len( s.queue ) > 0 )
  def peek( s ):
    return s.queue[-1]
'''


def rule_cl(repo):
    r = RuleResult('R-C17-cl', "cycle-level queues: enq / deq guards equal the kind's ready values in every enq/deq order the "
                               "method constraints allow (two-phase evaluation over small integers, rdy pulses from the "
                               "start-of-cycle state), peek guard len > 0, enq and deq on opposite ends of the deque, peek on the "
                               "deq end, capacity = num_entries, method-order constraints of the kind")
    # embedded positive example: three planted defects must be flagged on every run
    probe = RuleResult('probe', '')
    _cl_check(probe, Module(repo, 'c17_embedded_cl_probe_.py', _CL_PROBE_SRC), ('PipeQueueCL',))
    got = {f.func + '|' + f.construct.split(':')[0].split(' ')[0] for f in probe.findings}
    for want in ('PipeQueueCL.enq|guard', 'PipeQueueCL.deq|enq', 'PipeQueueCL.construct|constraint'):
        if want not in got:
            raise AnalysisError(f"R-C17-cl: the embedded positive example ({want}) was not flagged (got {sorted(got)})")
    _cl_check(r, repo.mod(CLQ), ('PipeQueueCL', 'BypassQueueCL', 'NormalQueueCL'))
    r.require_floor(20)
    return r


def _cl_spec(kind, L0, M, enq_offered, deq_offered):
    """ready values a CL queue of the kind must show in a cycle that starts with L0 of M entries occupied"""
    if kind == 'normal':
        return L0 < M, L0 > 0
    if kind == 'pipe':
        av = L0 > 0
        return (L0 < M or (deq_offered and av)), av
    er = L0 < M
    return er, (L0 > 0 or (enq_offered and er))


def _cl_check(r, m, classes):
    for cname in classes:
        kind = kind_of(cname)
        m.get_class(cname)
        meths = m.methods(cname)
        for need in ('construct', 'enq', 'deq', 'peek'):
            if need not in meths:
                raise AnalysisError(f"anchor vanished: {cname}.{need}")
        con = meths['construct']
        me = con.args.args[0].arg
        # -- capacity
        qattr, cap, capst = None, None, None
        for st in walk_no_nested(con):
            if isinstance(st, ast.Assign) and isinstance(st.value, ast.Call) and norm(st.value.func) in ('deque', 'collections.deque'):
                for t in st.targets:
                    if isinstance(t, ast.Attribute) and norm(t.value) == me:
                        qattr = t.attr
                        kw = [k.value for k in st.value.keywords if k.arg == 'maxlen']
                        cap = kw[0] if kw else (st.value.args[1] if len(st.value.args) > 1 else None)
                        capst = st
        if qattr is None:
            raise AnalysisError(f"anchor vanished: {cname}.construct does not create a deque")
        params = [a.arg for a in con.args.args[1:]]
        if cap is None:
            r.bad(m, f"{cname}.construct", norm(capst), "the deque is unbounded: the queue never becomes full", capst.lineno)
        else:
            okc = len(params) == 1
            if okc:
                for k in range(1, 5):
                    r.evaluations += 1
                    try:
                        okc = okc and Evaluator({params[0]: k}, arith=True).ev(cap) == k
                    except AnalysisError:
                        okc = False
            if okc:
                r.ok(m, f"{cname}.construct", f"capacity: {norm(capst)}")
            else:
                r.bad(m, f"{cname}.construct", f"capacity: {norm(capst)}",
                      f"the deque capacity `{norm(cap)}` is not the num_entries parameter", capst.lineno)
        # -- rdy pulses (plain assignments to attributes inside an @update block of construct)
        pulses, pulse_name = {}, None
        for fn in con.body:
            if isinstance(fn, ast.FunctionDef) and [norm(d) for d in fn.decorator_list] == ['update']:
                local = {}       # plain locals of the block (occupancy = len( s.queue )), inlined into later expressions
                for st in fn.body:
                    if isinstance(st, ast.Assign) and len(st.targets) == 1 and isinstance(st.targets[0], ast.Attribute) \
                            and norm(st.targets[0].value) == me:
                        pulses[st.targets[0].attr] = subst(st.value, local)
                        pulse_name = fn.name
                    elif isinstance(st, ast.Assign) and len(st.targets) == 1 and isinstance(st.targets[0], ast.Name):
                        local[st.targets[0].id] = subst(st.value, local)
                    elif not (isinstance(st, ast.Expr) and isinstance(st.value, ast.Constant)):
                        raise AnalysisError(f"{cname}.construct.{fn.name}: statement outside the model: {norm(st)[:60]}")
        # -- method-order constraints
        pairs = set()
        calls = [n for n in walk_no_nested(con) if isinstance(n, ast.Call) and isinstance(n.func, ast.Attribute)
                 and n.func.attr == 'add_constraints' and norm(n.func.value) == me]
        def top_stmt(n):
            while n is not None and not any(n is st for st in con.body):
                n = getattr(n, '_parent', None)
            return n

        def expand(a, call, depth=0):
            """the constraint expressions an argument of add_constraints stands for: the expression itself, a
            single-assignment local of construct bound before the call, a list / tuple of those, a starred one"""
            if depth > 6:
                raise AnalysisError(f"{cname}: constraint outside the model: {norm(a)}")
            if isinstance(a, ast.Starred):
                return expand(a.value, call, depth + 1)
            if isinstance(a, (ast.List, ast.Tuple)):
                return [x for e in a.elts for x in expand(e, call, depth + 1)]
            if isinstance(a, ast.Name):
                stores = [n for n in walk_no_nested(con) if isinstance(n, ast.Name) and n.id == a.id and isinstance(n.ctx, (ast.Store, ast.Del))]
                mutated = any(isinstance(n, ast.Attribute) and isinstance(n.value, ast.Name) and n.value.id == a.id
                              and isinstance(getattr(n, '_parent', None), ast.Call) and n._parent.func is n for n in walk_no_nested(con)) or \
                    any(isinstance(n, ast.AugAssign) and isinstance(n.target, ast.Name) and n.target.id == a.id for n in walk_no_nested(con))
                defs = [st for st in con.body if isinstance(st, ast.Assign) and len(st.targets) == 1 and stores
                        and st.targets[0] is stores[0]]
                cs = top_stmt(call)
                if len(stores) != 1 or mutated or len(defs) != 1 or cs is None or \
                        [i for i, st in enumerate(con.body) if st is defs[0]][0] >= [i for i, st in enumerate(con.body) if st is cs][0]:
                    raise AnalysisError(f"{cname}: constraint `{a.id}` is not a single-assignment local bound before add_constraints")
                return expand(defs[0].value, call, depth + 1)
            if isinstance(a, ast.Compare) and len(a.ops) == 1 and isinstance(a.ops[0], (ast.Lt, ast.Gt)):
                return [a]
            raise AnalysisError(f"{cname}: constraint outside the model: {norm(a)}")
        for c in calls:
            if c.keywords:
                raise AnalysisError(f"{cname}: add_constraints with keyword arguments")
            for arg in c.args:
                for a in expand(arg, c):
                    x, y = _cl_term(a.left, me, pulse_name), _cl_term(a.comparators[0], me, pulse_name)
                    pairs.add((x, y) if isinstance(a.ops[0], ast.Lt) else (y, x))
        for before, after in sorted(CL_REQUIRED[kind]):
            cons = f"constraint {before} < {after}"
            if (after, before) in pairs:
                r.bad(m, f"{cname}.construct", cons, f"the constraint is reversed ({after} before {before}): a {kind} queue "
                      f"needs {before} to run before {after} within a cycle", con.lineno)
            elif (before, after) not in pairs:
                r.bad(m, f"{cname}.construct", cons, f"missing: without it the scheduler may run {after} before {before} and "
                      f"the queue does not show {kind} same-cycle behaviour", con.lineno)
            else:
                r.ok(m, f"{cname}.construct", cons)
        for a, b in sorted(pairs):
            if (b, a) in pairs and a < b:
                r.bad(m, f"{cname}.construct", f"constraints {a} < {b} and {b} < {a}", "contradictory constraints", con.lineno)
        # -- guards: two-phase evaluation.  A cycle starts with L0 of M entries; the pulses (if any) are computed from
        # that state; enq and deq run in every order the constraints allow; the method that runs first changes the live
        # length seen by the guard of the second.  Each guard must equal the ready value of the kind.
        guards = {}
        for meth in ('enq', 'deq', 'peek'):
            g = _cl_guard(meths[meth])
            if g is None:
                r.bad(m, f"{cname}.{meth}", 'guard', f"{meth} has no @non_blocking guard: it can be called on a "
                      f"{'full' if meth == 'enq' else 'empty'} queue", meths[meth].lineno)
            guards[meth] = g
        funcs = {'len': lambda o: o.fields['_len'] if isinstance(o, Obj) and o.tag == 'deque' else
                 (_ for _ in ()).throw(AnalysisError('len() of a non-deque'))}

        def ev_at(expr, pname, L, M, pvals):
            selfobj = Obj('queue', **{qattr: Obj('deque', maxlen=M, _len=L)})
            selfobj.fields.update(pvals)
            r.evaluations += 1
            try:
                return bool(Evaluator({pname: selfobj}, arith=True, funcs=funcs).ev(expr))
            except Raised as ex:
                raise AnalysisError(f"{cname}: guard / pulse reads an unknown attribute ({ex.what})")
        orders = []
        if ('M:enq', 'M:deq') not in pairs:
            orders.append(('deq', 'enq'))
        if ('M:deq', 'M:enq') not in pairs:
            orders.append(('enq', 'deq'))
        firstbad = {}
        if guards['enq'] and guards['deq']:
            for M in (1, 2, 3):
                for L0 in range(M + 1):
                    pvals = {a: ev_at(e, me, L0, M, {}) for a, e in pulses.items()}
                    for first, second in orders:
                        for off_e, off_d in itertools.product((False, True), repeat=2):
                            offered = {'enq': off_e, 'deq': off_d}
                            er, av = _cl_spec(kind, L0, M, off_e, off_d)
                            want = {'enq': er, 'deq': av}
                            g1 = ev_at(guards[first][1], guards[first][0], L0, M, pvals)
                            fired = offered[first] and g1
                            L1 = L0 + ((1 if first == 'enq' else -1) if fired else 0)
                            if not 0 <= L1 <= M:
                                L1 = L0      # a wrongly enabled first method is reported through its own guard
                            g2 = ev_at(guards[second][1], guards[second][0], L1, M, pvals)
                            for meth, got, live in ((first, g1, L0), (second, g2, L1)):
                                if got != want[meth] and meth not in firstbad:
                                    firstbad[meth] = (
                                        f"cycle starting with {L0} of {M} entries, schedule {first} before {second}, "
                                        f"{'enq offered' if off_e else 'no enq'}, {'deq offered' if off_d else 'no deq'}"
                                        f"{', ' + first + ' happened' if fired and meth == second else ''}: the {meth} guard is "
                                        f"{got} (live length {live}); a {kind} queue must be "
                                        f"{'ready' if want[meth] else 'not ready'} here")
            for meth in ('enq', 'deq'):
                body = guards[meth][1]
                uses = [k for k in sorted(pulses) if any(isinstance(n, ast.Attribute) and n.attr == k for n in ast.walk(body))]
                cons = f"guard {norm(body)}" + (f" with {', '.join(f'{k} = {norm(pulses[k])}' for k in uses)}" if uses else '')
                if meth in firstbad:
                    r.bad(m, f"{cname}.{meth}", cons, firstbad[meth], meths[meth].lineno)
                else:
                    r.ok(m, f"{cname}.{meth}", cons, note=f"orders {orders}")
        if guards['peek']:
            pname, body = guards['peek']
            bad = None
            for M in (1, 2, 3):
                for L0 in range(M + 1):
                    pvals = {a: ev_at(e, me, L0, M, {}) for a, e in pulses.items()}
                    got = ev_at(body, pname, L0, M, pvals)
                    if got != (L0 > 0) and bad is None:
                        bad = f"with {L0} of {M} entries occupied the peek guard is {got}; peek must be ready iff len > 0"
            (r.bad(m, f"{cname}.peek", f"guard {norm(body)}", bad, meths['peek'].lineno) if bad
             else r.ok(m, f"{cname}.peek", f"guard {norm(body)}"))
        # -- FIFO ends: abstract execution of the three bodies on a two-element deque
        def q_of(e, f):
            return isinstance(e, ast.Attribute) and e.attr == qattr and norm(e.value) == f.args.args[0].arg

        def is_msg(e, names):
            """the message parameter, an alias of it, a copy of either, or a conditional expression of such values"""
            if isinstance(e, ast.Name):
                return e.id in names
            if isinstance(e, ast.IfExp):
                return is_msg(e.body, names) and is_msg(e.orelse, names)
            if _is_copy(e) and not e.keywords:
                if norm(e.func) in COPY_FUNCS:
                    return len(e.args) >= 1 and is_msg(e.args[0], names)
                return is_msg(e.func.value, names)
            return False

        MUTATORS = {'append', 'appendleft', 'pop', 'popleft', 'insert', 'extend', 'extendleft', 'remove', 'clear', 'rotate', 'reverse'}

        def run(f, L, arg=None):
            """abstract execution of a method body on the list L (the deque, left end first): plain local assignments,
            one insertion of the message / removal / indexed read; returns (list after, returned value)"""
            names = {f.args.args[1].arg} if len(f.args.args) == 2 else set()
            env = {}
            L = list(L)
            ret = None

            def touches_queue(e):
                return any(isinstance(n, ast.Call) and isinstance(n.func, ast.Attribute) and n.func.attr in MUTATORS
                           and q_of(n.func.value, f) for n in ast.walk(e))

            def value(e):
                nonlocal L
                if isinstance(e, ast.Name) and e.id in env:
                    return env[e.id]
                if is_msg(e, names):
                    return arg
                if isinstance(e, ast.Call) and isinstance(e.func, ast.Attribute) and q_of(e.func.value, f) and not e.keywords:
                    op = e.func.attr
                    if op in ('append', 'appendleft') and len(e.args) == 1:
                        v = value(e.args[0])
                        if v is not arg or arg is None:
                            raise AnalysisError(f"{cname}.{f.name}: {norm(e)} does not insert the message")
                        L = [v] + L if op == 'appendleft' else L + [v]
                        return None
                    if op in ('pop', 'popleft') and not e.args:
                        if not L:
                            raise AnalysisError(f"{cname}.{f.name}: removal from an empty deque in the model")
                        v = L[-1] if op == 'pop' else L[0]
                        L = L[:-1] if op == 'pop' else L[1:]
                        return v
                    raise AnalysisError(f"{cname}.{f.name}: deque operation outside the model: {norm(e)[:70]}")
                if isinstance(e, ast.Subscript) and q_of(e.value, f):
                    try:
                        i = ast.literal_eval(e.slice)
                    except Exception:
                        i = None
                    if isinstance(i, int) and -len(L) <= i < len(L):
                        return L[i]
                    raise AnalysisError(f"{cname}.{f.name}: subscript outside the model: {norm(e)}")
                if touches_queue(e):
                    raise AnalysisError(f"{cname}.{f.name}: statement outside the model: {norm(e)[:70]}")
                return ('opaque', norm(e))
            for st in f.body:
                if isinstance(st, ast.Expr) and isinstance(st.value, ast.Constant):
                    continue
                if isinstance(st, ast.Assign) and len(st.targets) == 1 and isinstance(st.targets[0], ast.Name):
                    if is_msg(st.value, names):
                        names.add(st.targets[0].id)
                    else:
                        env[st.targets[0].id] = value(st.value)
                elif isinstance(st, ast.Expr):
                    value(st.value)
                elif isinstance(st, ast.Return):
                    ret = value(st.value) if st.value is not None else None
                    break
                else:
                    raise AnalysisError(f"{cname}.{f.name}: statement outside the model: {norm(st)[:70]}")
            return L, ret
        L0, _ = run(meths['enq'], [], 'A')
        L1, _ = run(meths['enq'], L0, 'B')
        _, pk = run(meths['peek'], L1)
        L2, d1 = run(meths['deq'], L1)
        _, pk2 = run(meths['peek'], L2) if L2 else (None, None)
        L3, d2 = run(meths['deq'], L2) if L2 else (None, None)
        r.evaluations += 6
        cons = f"enq: {norm(meths['enq'].body[-1])}; deq: {norm(meths['deq'].body[-1])}; peek: {norm(meths['peek'].body[-1])}"
        if (d1, d2) != ('A', 'B') or sorted(L1) != ['A', 'B'] or L3 != []:
            r.bad(m, f"{cname}.deq", cons, f"after enq(A), enq(B) the dequeue order is ({d1}, {d2}): enq and deq must work on "
                  f"opposite ends of the deque (first in, first out)", meths['deq'].lineno)
        elif (pk, pk2) != ('A', 'B'):
            r.bad(m, f"{cname}.peek", cons, f"peek returns {pk} where the next deq returns A: peek must look at the deq end",
                  meths['peek'].lineno)
        else:
            r.ok(m, cname, cons)


# ---------------------------------------------------------------------------
# construction-history independence
HIST_CAPS = 12
_HIST_PROBE_REL = 'pymtl3/stdlib/stream/c17_embedded_history_probe_.py'
_HIST_PROBE_SRC = '''
from pymtl3 import *

_cache = {}

def _consts( T, n ):
  if T not in _cache:              # planted: the cache key forgets the capacity
    _cache[ T ] = T( n-1 )
  return _cache[ T ]

class ProbeCtrl( Component ):
  def construct( s, num_entries=2 ):
    T = mk_bits( clog2( num_entries ) )
    s.last_idx = _consts( T, num_entries )
    s.ptr = Wire( T )
'''


def _history_diffs(repo, rel, cls, args, caps):
    """elaborate the class for every capacity alone (initial module state) and after all other capacities were
    elaborated before it (ascending and descending); returns (touched module-level objects, list of differences)"""
    fresh, touched = {}, set()
    e0 = Elaborator(repo)
    for n in caps:
        a, kw = args(n)
        try:
            fresh[n] = signature(e0.build(rel, cls, *a, **kw))
        except ModelFault as ex:
            fresh[n] = {'<elaboration>': str(ex)}
        touched |= e0.touched
    diffs = []
    if not touched:
        return touched, diffs
    for order in (list(caps), list(reversed(caps))):
        eh = Elaborator(repo)
        prev = None
        for n in order:
            a, kw = args(n)
            try:
                sg = signature(eh.build(rel, cls, *a, keep_state=True, **kw))
            except ModelFault as ex:
                sg = {'<elaboration>': str(ex)}
            for k in sorted(set(sg) | set(fresh[n])):
                if sg.get(k) != fresh[n].get(k):
                    diffs.append((n, prev, k, sg.get(k), fresh[n].get(k)))
            prev = n
    return touched, diffs


def rule_history(repo):
    r = RuleResult('R-C17-history', "the elaborated queue (capacity constants, signal types, structure) is a function of its "
                                    "construct parameters only: elaborating the same class after other capacities gives the "
                                    "same netlist (module-level helper functions are interpreted with their module state)")
    # embedded positive example
    prepo = Repo(repo.root, dict(repo.overlay, **{_HIST_PROBE_REL: _HIST_PROBE_SRC}))
    t, d = _history_diffs(prepo, _HIST_PROBE_REL, 'ProbeCtrl', lambda n: ((n,), {}), range(2, 9))
    if not t or not d:
        raise AnalysisError("R-C17-history: the embedded positive example was not flagged")
    for tg in _targets():
        mod = repo.mod(tg['rel'])
        cls = mod.get_class(tg['cls'])
        caps = [1, 1] if tg['level'] == 'one' or tg['enc'] is EncChain else list(range(min(tg['ns']), HIST_CAPS + 1))
        touched, diffs = _history_diffs(repo, tg['rel'], tg['cls'], tg['args'], caps)
        r.evaluations += len(caps) * (3 if touched else 1)
        if not touched:
            r.ok(mod, tg['cls'], 'construct reads no module-level mutable state', nontrivial=False)
            continue
        what = ', '.join(sorted(f"{n} ({rel.split('/')[-1]})" for rel, n in touched))
        cons = f"construct depends on module-level state {what}"
        if diffs:
            n, prev, k, got, want = diffs[0]
            keys = sorted({d[2] for d in diffs})
            r.bad(mod, tg['cls'], f"{cons} -- history-dependent: {', '.join(keys[:4])}",
                  f"{tg['cls']} with capacity {n} elaborated after capacity {prev}: {k} is {got}, built on its own it is {want}; "
                  f"the capacity constants must be a function of num_entries only ({len(diffs)} differences over capacities "
                  f"{caps[0]}..{caps[-1]})", cls.lineno)
        else:
            r.ok(mod, tg['cls'], cons, note=f"same netlist for capacities {caps[0]}..{caps[-1]} in ascending / descending order")
    r.require_floor(25)
    return r


# ---------------------------------------------------------------------------
# stored messages are private copies
COPY_FUNCS = {'clone_deepcopy', 'deepcopy', 'copy.deepcopy'}      # what these names are bound to is checked by _copy_helpers
COPY_METHODS = {'clone', '__deepcopy__'}
CLONE_PY = 'pymtl3/extra/clone_deepcopy.py'
_HELPER_PROBE = '''
from copy import copy, deepcopy

def clone_deepcopy( x ):
  try:
    return x.clone()
  except AttributeError:
    return copy( x )          # planted: shallow copy of a plain-Python message

def keep( x ):
  return x                    # planted: no copy at all

def good( x ):
  y = x
  return deepcopy( y )
'''


def _deep_binding(repo, m, name, seen=()):
    """is the name `name`, as bound in module m, a DEEP-copying function?  returns a list of
    (Module, function, construct, message-or-None): one entry per return statement of every repository helper
    involved; message None = this return yields a deep copy"""
    if name == 'copy.deepcopy':
        if m.imports.get('copy') == ('copy', None):
            return []
        return [(m, '<module>', 'copy.deepcopy', f"`copy` is not the standard copy module in {m.rel}")]
    if name in m.imports and name not in m.functions:
        dotted, orig = m.imports[name]
        if dotted == 'copy':
            return [] if orig == 'deepcopy' else [(m, '<module>', f"from copy import {orig} as {name}",
                                                   f"`{name}` is bound to copy.{orig}, a shallow copy: nested mutable data of the "
                                                   f"message stays shared with the caller")]
    rr = repo.resolve(m, name)
    if rr is None or not isinstance(rr[1], ast.FunctionDef):
        return [(m, '<module>', f"copy helper {name}", f"`{name}` cannot be resolved to a copying function in {m.rel}")]
    hm, fn = rr
    if (hm.rel, fn.name) in seen:
        return []
    out = []
    params = {a.arg for a in fn.args.args}
    changed = True
    while changed:            # plain aliases of the parameter
        changed = False
        for st in walk_no_nested(fn):
            if isinstance(st, ast.Assign) and isinstance(st.value, ast.Name) and st.value.id in params:
                for t in st.targets:
                    if isinstance(t, ast.Name) and t.id not in params:
                        params.add(t.id)
                        changed = True
    rets = [n for n in walk_no_nested(fn) if isinstance(n, ast.Return)]
    if not always_exits(fn.body) or not rets:
        out.append((hm, fn.name, 'fall-through', f"{fn.name} can end without returning a copy (returns None)"))
    for ret in rets:
        v = ret.value
        cons = f"return {norm(v)}"
        why = None
        if isinstance(v, ast.Call) and isinstance(v.func, ast.Attribute) and v.func.attr in COPY_METHODS \
                and isinstance(v.func.value, ast.Name) and v.func.value.id in params and not v.args:
            pass
        elif isinstance(v, ast.Call) and v.args and isinstance(v.args[0], ast.Name) and v.args[0].id in params \
                and isinstance(v.func, (ast.Name, ast.Attribute)) and norm(v.func) not in ('list', 'dict', 'set', 'tuple', 'type'):
            sub = _deep_binding(repo, hm, norm(v.func), seen + ((hm.rel, fn.name),))
            bad = [x for x in sub if x[3]]
            if bad:
                why = f"`{norm(v.func)}` is not a deep copy: {bad[0][3]}"
            out += [x for x in sub if not x[3] and x[1] != fn.name]
        elif isinstance(v, ast.Name) and v.id in params:
            why = "the argument itself is returned: no copy at all"
        else:
            why = "this is not x.clone() / a deep copy of the argument (a shallow copy such as copy(x), list(x), x[:], dict(x) " \
                  "shares nested mutable data with the caller)"
        out.append((hm, fn.name, cons, why and f"{fn.name}: {why}"))
    return out


def _copy_helpers(r, repo, mods):
    """the copying functions accepted at the store sites really produce private (deep) copies"""
    done = set()
    for m in mods:
        used = {norm(n.func) for n in ast.walk(m.tree) if isinstance(n, ast.Call) and norm(n.func) in COPY_FUNCS}
        for name in sorted(used):
            for hm, func, cons, msg in _deep_binding(repo, m, name):
                key = (hm.rel, func, cons)
                if key in done:
                    continue
                done.add(key)
                if msg:
                    r.bad(hm, func, cons, msg + " -- a stored message is then not a private copy", 0)
                else:
                    r.ok(hm, func, cons)
STORE_METHODS = {'append', 'appendleft', 'insert', 'extend', 'extendleft', 'add', 'put', 'push'}
_COPY_PROBE_SRC = '''
class ProbeAdapter( Component ):
  @non_blocking( lambda s : s.entry is None )
  def recv( s, msg ):
    m = msg
    s.entry = m                      # planted: alias of the caller's object kept beyond the call
  def good( s, msg ):
    s.entry = clone_deepcopy( msg )
  def fwd( s, msg ):
    s.send( msg )
'''


def _is_copy(e):
    return isinstance(e, ast.Call) and (norm(e.func) in COPY_FUNCS or
                                        (isinstance(e.func, ast.Attribute) and e.func.attr in COPY_METHODS))


def _uncopied(e, tainted):
    """names of `tainted` that occur in e outside a copying call"""
    if _is_copy(e):
        return set()
    if isinstance(e, ast.Name):
        return {e.id} & tainted
    if isinstance(e, ast.IfExp):
        return _uncopied(e.body, tainted) | _uncopied(e.orelse, tainted)      # the test only inspects the message
    out = set()
    for ch in ast.iter_child_nodes(e):
        out |= _uncopied(ch, tainted)
    return out


def _copy_check(r, m, scope):
    """every method (not construct, not an update block) that keeps a parameter beyond the call -- assignment to an
    attribute / element of self, or insertion into a container of self -- must keep a copy"""
    for cname, cls in sorted(m.classes.items()):
        if scope is not None and cname not in scope:
            continue
        for f in m.methods(cname).values():
            if f.name in ('construct', 'line_trace', '__str__', 'connect') or len(f.args.args) < 2:
                continue
            me = f.args.args[0].arg
            tainted = {a.arg for a in f.args.args[1:]} | {a.arg for a in f.args.kwonlyargs}
            # aliases: x = msg (no copy)
            changed = True
            while changed:
                changed = False
                for st in walk_no_nested(f):
                    if isinstance(st, ast.Assign) and all(isinstance(t, ast.Name) for t in st.targets) and _uncopied(st.value, tainted):
                        for t in st.targets:
                            if t.id not in tainted:
                                tainted.add(t.id)
                                changed = True

            # names bound to a copy of the message (m = clone_deepcopy( msg )): storing them is a copying store
            clean = set()
            for st in walk_no_nested(f):
                if isinstance(st, ast.Assign) and all(isinstance(t, ast.Name) for t in st.targets) \
                        and not _uncopied(st.value, tainted) \
                        and any(isinstance(n, ast.Name) and n.id in tainted | clean for n in ast.walk(st.value)):
                    clean |= {t.id for t in st.targets} - tainted

            def on_self(e):
                while isinstance(e, (ast.Attribute, ast.Subscript)):
                    e = e.value
                return isinstance(e, ast.Name) and e.id == me
            stores = []
            for st in walk_no_nested(f):
                if isinstance(st, (ast.Assign, ast.AugAssign, ast.AnnAssign)):
                    tg = st.targets if isinstance(st, ast.Assign) else [st.target]
                    if st.value is not None and any(isinstance(t, (ast.Attribute, ast.Subscript)) and on_self(t) for t in tg):
                        stores.append((st, st.value))
                elif isinstance(st, ast.Call) and isinstance(st.func, ast.Attribute) and st.func.attr in STORE_METHODS \
                        and isinstance(st.func.value, (ast.Attribute, ast.Subscript)) and on_self(st.func.value):
                    for a in st.args:
                        stores.append((st, a))
            for st, val in stores:
                leak = _uncopied(val, tainted)
                involved = any(isinstance(n, ast.Name) and n.id in tainted | clean for n in ast.walk(val))
                if not involved:
                    continue
                tgt = (st.targets[0] if isinstance(st, ast.Assign) else st.target) if not isinstance(st, ast.Call) else st.func.value
                while isinstance(tgt, (ast.Attribute, ast.Subscript)) and not (isinstance(tgt, ast.Attribute) and
                                                                                 isinstance(tgt.value, ast.Name)):
                    tgt = tgt.value
                where = f"s.{tgt.attr}" if isinstance(tgt, ast.Attribute) else 's'
                names = sorted({n.id for n in ast.walk(val) if isinstance(n, ast.Name) and n.id in tainted | clean})
                cons = f"keeps `{names[0]}` in {where} " + ('without a copy' if leak else 'as a copy')
                if leak:
                    r.bad(m, f"{cname}.{f.name}", cons,
                          f"the incoming message `{sorted(leak)[0]}` is kept beyond the call without a copy: a caller that re-uses "
                          f"or mutates its message object afterwards changes what is delivered later (store "
                          f"clone_deepcopy(...) / deepcopy(...) / .clone())", st.lineno)
                else:
                    r.ok(m, f"{cname}.{f.name}", cons)


def rule_copy(repo):
    r = RuleResult('R-C17-copy', "every adapter / CL queue method that keeps an incoming message beyond the call (assignment "
                                 "of a parameter to an attribute or insertion into a container of the component) keeps a private "
                                 "copy, so the message delivered is the message accepted")
    probe = RuleResult('probe', '')
    _copy_check(probe, Module(repo, 'c17_embedded_copy_probe_.py', _COPY_PROBE_SRC), None)
    if [f.func for f in probe.findings] != ['ProbeAdapter.recv'] or len(probe.instances) != 2:
        raise AnalysisError(f"R-C17-copy: the embedded positive example was not judged as expected "
                            f"({[(i['function'], i['verdict']) for i in probe.instances]})")
    hp = RuleResult('probe', '')
    pm = Module(repo, 'c17_embedded_copy_helper_probe_.py', _HELPER_PROBE + "\nclone_deepcopy(1); keep(1); good(1)\n")
    for nm in ('clone_deepcopy', 'keep', 'good'):
        for hm, func, cons, msg in _deep_binding(repo, pm, nm):
            (hp.bad if msg else hp.ok)(hm, func, cons, *([msg] if msg else []))
    if sorted(f.func + ':' + f.construct for f in hp.findings) != ['clone_deepcopy:return copy(x)', 'keep:return x'] \
            or len(hp.instances) != 4:
        raise AnalysisError(f"R-C17-copy: the embedded copy-helper example was not judged as expected "
                            f"({[(i['function'], i['construct'], i['verdict']) for i in hp.instances]})")
    mods = [repo.mod(rel) for rel in (SRI, GGI, CLQ)]
    for m in mods:
        _copy_check(r, m, None)
    _copy_helpers(r, repo, mods)
    r.require_floor(5)
    return r


# ---------------------------------------------------------------------------
# the And adapter inserted by connect( giver, receiver )
_CONNECT_PROBE = '''
class GiveIfcRTL( CalleeIfcRTL ):
  def construct( s, Type ):
    super().construct( en=True, rdy=True, MsgType=None, RetType=Type )
  def connect( s, other, parent ):
    if isinstance( other, RecvIfcRTL ):
      connect( s.ret, other.msg )
      m = And( Bits1 )
      connect_pairs( m.in0, s.rdy, m.in1, s.rdy, m.out, s.en, m.out, other.en )    # planted: receiver's rdy ignored
      return True
    return False
'''


def _connect_adapter(repo, mod, clsname, othername, r):
    """interpret the isinstance(other, <othername>) branch of <clsname>.connect as construct-time code over a giver
    and a receiver interface instance and evaluate the resulting netlist; returns a list of (construct, message)"""
    cls = mod.get_class(clsname)
    meths = mod.methods(clsname)
    if 'connect' not in meths:
        raise AnalysisError(f"anchor vanished: {clsname}.connect in {mod.rel}")
    f = meths['connect']
    if len(f.args.args) != 3:
        raise AnalysisError(f"{clsname}.connect signature outside the model")
    me, other, parent = (a.arg for a in f.args.args)
    branch = None
    for st in f.body:
        cur = st
        while isinstance(cur, ast.If):
            t = cur.test
            if isinstance(t, ast.Call) and norm(t.func) == 'isinstance' and len(t.args) == 2 and norm(t.args[0]) == other \
                    and norm(t.args[1]) == othername:
                branch = cur.body
                break
            cur = cur.orelse[0] if len(cur.orelse) == 1 else None
        if branch:
            break
    if branch is None:
        raise AnalysisError(f"anchor vanished: {clsname}.connect has no branch for {othername}")

    def bookkeeping(st):
        return isinstance(st, ast.Return)        # the result of connect(); everything else is interpreted
    elab = Elaborator(repo)
    rother = repo.resolve(mod, othername)
    if rother is None or not isinstance(rother[1], ast.ClassDef):
        raise AnalysisError(f"anchor vanished: {othername} cannot be resolved from {mod.rel}")

    the_parent = Inst(None, None, False)      # shared: the second adapter finds the bookkeeping left by the first

    def make_env(e, nl):
        giver = e.instantiate(nl, ClassRef(mod, cls), [D], {})
        recv = e.instantiate(nl, ClassRef(rother[0], rother[1]), [D], {})
        return {other: recv, parent: the_parent}, giver
    out = []
    for nth in ('first', 'second'):
        out += [(k, f"{nth} adapter inserted on a parent: {msg}") for k, msg in
                _connect_eval(elab, mod, cls, branch, make_env, me, other, bookkeeping, r)]
    return out


def _connect_eval(elab, mod, cls, branch, make_env, me, other, bookkeeping, r):
    out = []
    try:
        nl, env = elab.run_snippet(mod, cls, branch, make_env, me, skip=bookkeeping)
        giver, recv = nl.top, env[other]
        g = lambda inst, k: inst.attrs[k] if isinstance(inst.attrs.get(k), Sig) else \
            (_ for _ in ()).throw(AnalysisError(f"anchor vanished: port {k} of {inst.clsname}"))
        tok = Tok('M')
        for grdy, rrdy in itertools.product((0, 1), repeat=2):
            sim = Sim(nl, {}, {g(giver, 'rdy'): BV(grdy, 1), g(recv, 'rdy'): BV(rrdy, 1), g(giver, 'ret'): tok}, 0)
            r.evaluations += 1
            gen, ren, msg = _v(sim.read(g(giver, 'en'))), _v(sim.read(g(recv, 'en'))), sim.read(g(recv, 'msg'))
            want = grdy & rrdy
            if (gen, ren) != (want, want):
                out.append(('shared enable', f"giver.rdy={grdy} receiver.rdy={rrdy}: giver.en={gen} receiver.en={ren}; the shared "
                            f"enable must be giver.rdy AND receiver.rdy = {want} (otherwise the giver dequeues a message the "
                            f"receiver cannot accept, or the receiver accepts a message that was not given)"))
            if msg != tok:
                out.append(('message path', f"receiver.msg carries {msg}, must be the giver's ret"))
    except ModelFault as ex:
        out.append(('adapter netlist', str(ex)))
    return out


def rule_connect(repo):
    r = RuleResult('R-C17-connect', "the adapter that connect( giver.deq, receiver.enq ) inserts between an en/rdy giver and an "
                                    "en/rdy receiver: shared enable = giver.rdy AND receiver.rdy on both sides, receiver.msg = "
                                    "giver.ret (the branch of GiveIfcRTL.connect is interpreted as construct-time code and the "
                                    "netlist, including the And component, is evaluated for the four ready valuations)")
    m = repo.mod(GGI)
    src = repo.src(GGI)
    # embedded positive example: the same module with the connect method replaced by a defective one
    cut = src.index('class GiveIfcRTL')
    end = src.index('class GetIfcFL')
    pm = Module(repo, GGI, src[:cut] + _CONNECT_PROBE + '\n' + src[end:])
    if not any(k == 'shared enable' for k, _ in _connect_adapter(repo, pm, 'GiveIfcRTL', 'RecvIfcRTL', RuleResult('probe', ''))):
        raise AnalysisError("R-C17-connect: the embedded positive example was not flagged")
    bad = _connect_adapter(repo, m, 'GiveIfcRTL', 'RecvIfcRTL', r)
    line = m.get_class('GiveIfcRTL').lineno
    for aspect in ('shared enable', 'message path', 'adapter netlist'):
        msgs = [x for k, x in bad if k == aspect]
        if msgs:
            r.bad(m, 'GiveIfcRTL.connect', f"{aspect} of the giver/receiver adapter", msgs[0], line)
        elif aspect != 'adapter netlist':
            r.ok(m, 'GiveIfcRTL.connect', f"{aspect} of the giver/receiver adapter")
    r.require_floor(2)
    return r


# ---------------------------------------------------------------------------
# one-entry message buffers of the adapters (typestate: full -> store forbidden, tests by `is None` only)
class _Msg:
    """a stored message whose truth value is `truth` (a Bits message of value 0 is falsy)"""
    def __init__(self, truth): self.truth = truth
    def __bool__(self): return self.truth
    def __repr__(self): return f"<message, {'truthy' if self.truth else 'falsy (value 0)'}>"


FULLS = (_Msg(True), _Msg(False))
BUFFER_FILES = (SRI, GGI, SQA, SFL)
_BUFFER_PROBE = '''
class ProbeAdapter( Component ):
  @non_blocking( lambda s: not s.entry )                 # planted: truthiness instead of `is None`
  def enq( s, msg ):
    s.entry = clone_deepcopy( msg )
  def push( s, msg ):
    if s.entry is not None:                              # planted: waits once, not until empty
      greenlet.getcurrent().parent.switch(0)
    s.entry = clone_deepcopy( msg )
  @non_blocking( lambda s: s.entry is not None )
  def deq( s ):
    ret = s.entry
    s.entry = None
    return ret
  def construct( s, Type ):
    s.recv = RecvIfcRTL( Type )
    s.entry = None
    @update_once
    def up_rdy():
      s.recv.rdy @= (s.entry is not None)                # planted: ready when full
    @update_once
    def up_msg():
      if s.recv.val:                                     # planted: captures while full
        s.entry = clone_deepcopy( s.recv.msg )
'''


def _is_none(e):
    return isinstance(e, ast.Constant) and e.value is None


def _buf_eval(expr, selfname, buf, entry, atoms):
    """value of a test expression with the buffer holding `entry` and the other signals / names valued by `atoms`"""
    def leaf(e):
        if isinstance(e, ast.Attribute) and e.attr == buf and isinstance(e.value, ast.Name) and e.value.id == selfname:
            return entry
        if isinstance(e, ast.Name) and e.id in ('True', 'False', 'None'):
            return NotImplemented
        if isinstance(e, ast.Call) and norm(e.func) in ('b1', 'Bits1', 'bool', 'int') and len(e.args) == 1 and not e.keywords:
            return NotImplemented
        if isinstance(e, (ast.Attribute, ast.Name, ast.Subscript, ast.Call)):
            return atoms[norm(e)]
        return NotImplemented
    cast = lambda v: v if isinstance(v, BV) else BV(1 if v else 0, 1)
    ev = Evaluator({}, arith=True, leaf=leaf, funcs={'b1': cast, 'Bits1': cast, 'bool': lambda v: bool(v), 'int': lambda v: int(bool(v))})
    try:
        return ev.ev(expr)
    except TypeError as ex:
        raise AnalysisError(f"test expression outside the buffer model: {norm(expr)} ({ex})")


def _buf_atoms(expr, selfname, buf):
    out = []

    def walk(e):
        if isinstance(e, ast.Attribute) and e.attr == buf and isinstance(e.value, ast.Name) and e.value.id == selfname:
            return
        if isinstance(e, ast.Name) and e.id in ('True', 'False', 'None'):
            return
        if isinstance(e, ast.Call) and norm(e.func) in ('b1', 'Bits1', 'bool', 'int') and len(e.args) == 1 and not e.keywords:
            walk(e.args[0])
            return
        if isinstance(e, (ast.Attribute, ast.Name, ast.Subscript, ast.Call)):
            if norm(e) not in out:
                out.append(norm(e))
            return
        for ch in ast.iter_child_nodes(e):
            walk(ch)
    walk(expr)
    return out


def _mentions(e, selfname, buf):
    return any(isinstance(n, ast.Attribute) and n.attr == buf and isinstance(n.value, ast.Name) and n.value.id == selfname
               for n in ast.walk(e))


def _valuations(names):
    for vals in itertools.product((0, 1), repeat=len(names)):
        yield {k: BV(v, 1) for k, v in zip(names, vals)}


def _buffer_check(r, m, only=None):
    for cname in sorted(m.classes):
        if only is not None and cname not in only:
            continue
        meths = m.methods(cname)
        con = meths.get('construct')
        if con is None or not con.args.args:
            continue
        me = con.args.args[0].arg
        inits = {t.attr for st in con.body if isinstance(st, ast.Assign) and _is_none(st.value)
                 for t in st.targets if isinstance(t, ast.Attribute) and norm(t.value) == me}
        blocks = [fn for fn in con.body if isinstance(fn, ast.FunctionDef)]
        funcs = [(f, f.args.args[0].arg, 'method') for n, f in meths.items() if n != 'construct' and f.args.args] + \
                [(b, me, 'block') for b in blocks]

        def stores(buf, clear):
            out = []
            for f, sn, kind in funcs:
                for st in walk_no_nested(f):
                    if isinstance(st, ast.Assign) and _is_none(st.value) == clear and any(
                            isinstance(t, ast.Attribute) and t.attr == buf and norm(t.value) == sn for t in st.targets):
                        out.append((f, sn, kind, st))
            return out
        for buf in sorted(inits):
            sts = stores(buf, False)
            delivered = any(_mentions(n, sn, buf) for f, sn, kind in funcs if f.name not in ('line_trace', '__str__')
                            for n in walk_no_nested(f)
                            if (isinstance(n, ast.Return) and n.value is not None) or
                            (isinstance(n, (ast.Assign, ast.AugAssign)) and not _is_none(n.value) and
                             not any(isinstance(t, ast.Attribute) and t.attr == buf for t in
                                     (n.targets if isinstance(n, ast.Assign) else [n.target]))))
            if not sts or not delivered:
                continue        # a trace variable, not a message buffer
            where = lambda f, kind: f"{cname}.{f.name}" if kind == 'method' else f"{cname}.construct.{f.name}"
            # -- B1: every test of the buffer is independent of the stored message's value (`is None`, not truthiness)
            tests = []
            for f, sn, kind in funcs:
                if f.name in ('line_trace', '__str__'):
                    continue
                for d in f.decorator_list:
                    if isinstance(d, ast.Call) and norm(d.func) == 'non_blocking' and d.args and isinstance(d.args[0], ast.Lambda) \
                            and d.args[0].args.args:
                        tests.append((f, d.args[0].args.args[0].arg, kind, d.args[0].body))
                for n in walk_no_nested(f):
                    if isinstance(n, (ast.If, ast.While, ast.IfExp, ast.Assert)):
                        tests.append((f, sn, kind, n.test))
                    elif isinstance(n, (ast.Assign, ast.AugAssign)) and isinstance(n.value, (ast.Compare, ast.BoolOp, ast.UnaryOp, ast.BinOp)):
                        tests.append((f, sn, kind, n.value))
            for f, sn, kind, e in tests:
                if not _mentions(e, sn, buf):
                    continue
                names = _buf_atoms(e, sn, buf)
                if len(names) > 6:
                    raise AnalysisError(f"{where(f, kind)}: test with too many atoms: {norm(e)[:60]}")
                bad = None
                for at in _valuations(names):
                    r.evaluations += 2
                    a, b = (bool(_buf_eval(e, sn, buf, full, at)) for full in FULLS)
                    if a != b:
                        bad = at
                cons = f"test of s.{buf}: {norm(e)}"
                if bad is not None:
                    r.bad(m, where(f, kind), cons, "the test treats a stored message of value 0 like an empty buffer (its result "
                          "depends on the truth value of the message): emptiness must be tested with `is None` / `is not None`",
                          e.lineno)
                else:
                    r.ok(m, where(f, kind), cons)
            # -- B2: a message is stored only into an empty buffer
            rdy_of = {}     # interface path -> rdy expression driven by this class
            en_of = {}      # signal path -> list of (guards, value) of @= assignments in the update blocks
            for b in blocks:
                for n in walk_no_nested(b):
                    if isinstance(n, ast.AugAssign) and isinstance(n.op, ast.MatMult):
                        t = norm(n.target)
                        en_of.setdefault(t, []).append((b, n))
                        if t.endswith('.rdy'):
                            rdy_of[t[:-4]] = n.value
            for f, sn, kind, st in sts:
                cons = f"store {norm(st)}"
                w = where(f, kind)
                if kind == 'method':
                    guard = None
                    for d in f.decorator_list:
                        if isinstance(d, ast.Call) and norm(d.func) == 'non_blocking' and d.args and isinstance(d.args[0], ast.Lambda) \
                                and d.args[0].args.args:
                            guard = d.args[0]
                    if guard is not None:
                        gs, gb = guard.args.args[0].arg, guard.body
                        names = _buf_atoms(gb, gs, buf)
                        msg = None
                        for at in _valuations(names):
                            r.evaluations += 3
                            if not bool(_buf_eval(gb, gs, buf, None, at)) and not names:
                                msg = "the method is never ready although the buffer is empty"
                            for full in FULLS:
                                if bool(_buf_eval(gb, gs, buf, full, at)):
                                    msg = (f"the rdy guard `{norm(gb)}` is true while the buffer holds a {full!r}: the pending "
                                           "message is overwritten")
                        (r.bad(m, w, cons, msg, st.lineno) if msg else r.ok(m, w, cons + f" under rdy guard {norm(gb)}"))
                        continue
                    # blocking method: the store must directly follow a wait loop that exits only when the buffer is empty
                    msg = "the store is not preceded by a `while <buffer not empty>: <yield>` loop: a pending message is overwritten"
                    for prev in reversed(preceding_stmts(st)):
                        has_yield = any(isinstance(n, ast.Call) and isinstance(n.func, ast.Attribute) and n.func.attr == 'switch'
                                        for n in ast.walk(prev))
                        has_store = any(isinstance(n, ast.Assign) and any(isinstance(t, ast.Attribute) and t.attr == buf for t in n.targets)
                                        for n in ast.walk(prev))
                        if not (has_yield or has_store):
                            continue
                        if isinstance(prev, ast.While) and has_yield and not has_store and not prev.orelse and \
                                not any(isinstance(n, ast.Break) for n in ast.walk(prev)):
                            names = _buf_atoms(prev.test, sn, buf)
                            okw = True
                            for at in _valuations(names):
                                r.evaluations += 3
                                okw = okw and not bool(_buf_eval(prev.test, sn, buf, None, at)) and \
                                    all(bool(_buf_eval(prev.test, sn, buf, full, at)) for full in FULLS)
                            msg = None if okw else f"the wait loop `while {norm(prev.test)}` does not wait exactly while the buffer is full"
                        elif has_yield:
                            msg = f"the wait `{norm(prev)[:50]}...` is not a loop: after the yield the buffer is not re-checked and a " \
                                  f"still pending message is overwritten"
                        else:
                            msg = "the buffer is written twice in a row"
                        break
                    (r.bad(m, w, cons, msg, st.lineno) if msg else r.ok(m, w, cons + " after a wait-until-empty loop"))
                    continue
                # update block: dominating conditions (+ what en implies) must imply that the buffer is empty
                prevs = preceding_stmts(st)
                if any(isinstance(p_, ast.Assign) and _is_none(p_.value) and any(isinstance(t, ast.Attribute) and t.attr == buf
                                                                                for t in p_.targets) for p_ in prevs):
                    r.ok(m, w, cons, nontrivial=False, note="buffer cleared earlier in the same block (see the clear clause)")
                    continue
                gl = [(g.test, g.polarity) for g in guards_of(st) if g.kind in ('if', 'exit', 'assert')]
                facts = []      # implications  atom -> expr
                for gtest, pol in gl:
                    for n in ast.walk(gtest):
                        t = norm(n) if isinstance(n, ast.Attribute) else None
                        if t and t.endswith('.en'):
                            if t[:-3] in rdy_of:
                                facts.append((t, [([], rdy_of[t[:-3]])]))       # protocol: en only when the rdy we drive
                            elif t in en_of:
                                alts = []
                                for b, asg in en_of[t]:
                                    v = asg.value
                                    zero = (isinstance(v, ast.Constant) and not v.value) or \
                                        (isinstance(v, ast.Call) and len(v.args) == 1 and isinstance(v.args[0], ast.Constant) and not v.args[0].value)
                                    if not zero:
                                        alts.append(([(g.test, g.polarity) for g in guards_of(asg) if g.kind in ('if', 'exit')], v))
                                facts.append((t, alts))
                exprs = [g for g, _ in gl] + [x for _, alts in facts for gs, v in alts for x in [v] + [g for g, _ in gs]]
                names = []
                for e in exprs:
                    for a in _buf_atoms(e, me, buf):
                        if a not in names:
                            names.append(a)
                for t, _ in facts:
                    if t not in names:
                        names.append(t)
                if len(names) > 8:
                    raise AnalysisError(f"{w}: too many atoms around {norm(st)}")
                msg, sat = None, False
                for at in _valuations(names):
                    for entry in (None,) + FULLS:
                        r.evaluations += 1
                        if not all(bool(_buf_eval(g, me, buf, entry, at)) == pol for g, pol in gl):
                            continue
                        consistent = True
                        for t, alts in facts:
                            if bool(at[t]) and not any(all(bool(_buf_eval(g, me, buf, entry, at)) == pol for g, pol in gs)
                                                       and bool(_buf_eval(v, me, buf, entry, at)) for gs, v in alts):
                                consistent = False
                        if not consistent:
                            continue
                        sat = True
                        if entry is not None and msg is None:
                            msg = f"the message is captured under `{' and '.join(('' if pol else 'not ') + '(' + norm(g) + ')' for g, pol in gl) or 'no condition'}`" \
                                  f", which can hold while the buffer is full ({entry!r}): the pending message is overwritten"
                if not sat:
                    raise AnalysisError(f"{w}: the capture condition of {norm(st)} is unsatisfiable in the model")
                (r.bad(m, w, cons, msg, st.lineno) if msg else r.ok(m, w, cons + " only while the buffer is empty"))
            # -- B3: the rdy this class drives from the buffer equals "buffer empty"
            for ifc, e in sorted(rdy_of.items()):
                if not _mentions(e, me, buf):
                    continue
                names = _buf_atoms(e, me, buf)
                msg = None
                for at in _valuations(names):
                    r.evaluations += 3
                    if not names and not bool(_buf_eval(e, me, buf, None, at)):
                        msg = "rdy is low although the buffer is empty"
                    for full in FULLS:
                        if bool(_buf_eval(e, me, buf, full, at)):
                            msg = f"rdy `{norm(e)}` is high while the buffer holds a {full!r}: the sender is told to overwrite it"
                cons = f"{ifc}.rdy @= {norm(e)}"
                (r.bad(m, f"{cname}.construct", cons, msg, e.lineno) if msg else r.ok(m, f"{cname}.construct", cons))
            # -- B4: the buffer is cleared only on delivery (a clear at the top level of an update block drops the message)
            for f, sn, kind, st in stores(buf, True):
                if kind != 'block':
                    continue
                if not [g for g in guards_of(st) if g.kind in ('if', 'exit')]:
                    r.bad(m, where(f, kind), f"clear {norm(st)}", "the buffer is cleared unconditionally in an update block: a "
                          "message that was stored but not yet taken is dropped", st.lineno)
                else:
                    r.ok(m, where(f, kind), f"clear {norm(st)} under a condition")
            # -- B5: on the sending side the entry is released iff the handshake completed (val & rdy, resp. the en this
            #        class drives); registers in the release condition stand for their next-state expression
            regs = {}
            for b in blocks:
                if [norm(d) for d in b.decorator_list] == ['update_ff']:
                    for n in b.body:
                        if isinstance(n, ast.AugAssign) and isinstance(n.op, ast.LShift):
                            regs[norm(n.target)] = n.value
            send_ifcs = sorted({norm(n.target)[:-4] for b in blocks for n in walk_no_nested(b)
                                if isinstance(n, ast.AugAssign) and isinstance(n.op, ast.MatMult) and norm(n.target).endswith('.msg')
                                and _mentions(n.value, me, buf)})

            class _Unreg(ast.NodeTransformer):
                def visit_Attribute(self, n):
                    return self.visit(copy.deepcopy(regs[norm(n)])) if norm(n) in regs else n
            for f, sn, kind, st in stores(buf, True):
                if kind != 'block' or not send_ifcs:
                    continue
                gl = [(_Unreg().visit(copy.deepcopy(g.test)), g.polarity) for g in guards_of(st) if g.kind in ('if', 'exit')]
                if not gl:
                    continue
                ifc = send_ifcs[0]
                drives_val = (ifc + '.val') in en_of
                tnames = [ifc + '.val', ifc + '.rdy'] if drives_val else [ifc + '.en']
                names = list(tnames)
                for g, _ in gl:
                    for a in _buf_atoms(g, me, buf):
                        if a not in names:
                            names.append(a)
                if len(names) > 8:
                    raise AnalysisError(f"{where(f, kind)}: too many atoms in the release condition of s.{buf}")
                msg = None
                for at in _valuations(names):
                    for entry in FULLS:
                        r.evaluations += 1
                        released = all(bool(_buf_eval(g, me, buf, entry, at)) == pol for g, pol in gl)
                        transfer = all(bool(at[t]) for t in tnames)
                        if released and not transfer and msg is None:
                            msg = (f"the entry is released under `{' and '.join(('' if pol else 'not ') + '(' + norm(g) + ')' for g, pol in gl)}`, "
                                   f"which holds with {', '.join(f'{t}={at[t].v}' for t in tnames)}: the message is dropped although the "
                                   f"receiver did not accept it (release only on a completed handshake)")
                        if transfer and not released and msg is None:
                            msg = (f"with {', '.join(f'{t}={at[t].v}' for t in tnames)} the handshake completes but the entry is kept: "
                                   f"the message is sent again")
                cons = f"release of s.{buf} on {ifc}: " + ' and '.join(('' if pol else 'not ') + norm(g) for g, pol in gl)
                (r.bad(m, where(f, kind), cons, msg, st.lineno) if msg else r.ok(m, where(f, kind), cons))
            # -- B6: receiving side (val/rdy): the rdy published in a cycle and the capture condition of that cycle agree in
            #        every order of the rdy block, the capture block and the methods writing the buffer that the declared
            #        constraints allow: a message is captured only if the published rdy was 1
            pairs = set()
            for c in [n for n in walk_no_nested(con) if isinstance(n, ast.Call) and isinstance(n.func, ast.Attribute)
                      and n.func.attr == 'add_constraints' and norm(n.func.value) == me]:
                for a in c.args:
                    if isinstance(a, ast.Compare) and len(a.ops) == 1 and isinstance(a.ops[0], (ast.Lt, ast.Gt)):
                        try:
                            x, y = _cl_term(a.left, me, None), _cl_term(a.comparators[0], me, None)
                        except AnalysisError:
                            continue
                        pairs.add((x, y) if isinstance(a.ops[0], ast.Lt) else (y, x))
            for ifc, rexpr in sorted(rdy_of.items()):
                if not _mentions(rexpr, me, buf) or (ifc + '.val') in en_of:
                    continue
                rblk = [b for b, n in en_of[ifc + '.rdy']][0]
                caps = [(f, st) for f, sn, kind, st in sts if kind == 'block' and
                        any(isinstance(n, ast.Attribute) and norm(n) == ifc + '.val' for g in guards_of(st) for n in ast.walk(g.test))]
                for cblk, cst in caps:
                    cgl = [(g.test, g.polarity) for g in guards_of(cst) if g.kind in ('if', 'exit')]
                    writers = []
                    for f, sn, kind in funcs:
                        if kind != 'method' or f.name in ('line_trace', '__str__'):
                            continue
                        ws = [n for n in walk_no_nested(f) if isinstance(n, ast.Assign) and any(
                            isinstance(t, ast.Attribute) and t.attr == buf and norm(t.value) == sn for t in n.targets)]
                        if not ws:
                            continue
                        guard = None
                        for d in f.decorator_list:
                            if isinstance(d, ast.Call) and norm(d.func) == 'non_blocking' and d.args and isinstance(d.args[0], ast.Lambda):
                                guard = (d.args[0].args.args[0].arg, d.args[0].body, True)
                        if guard is None and f.body and isinstance(f.body[0], ast.While):
                            guard = (sn, f.body[0].test, False)          # blocking: proceeds once the wait condition is false
                        writers.append((f, guard, _is_none(ws[-1].value)))
                    items = [('U:' + rblk.name, 'rdy', None), ('U:' + cblk.name, 'cap', None)] + \
                            [('M:' + f.name, 'meth', (g, clr)) for f, g, clr in writers]
                    if len(items) > 5:
                        raise AnalysisError(f"{cname}: too many writers of s.{buf}")
                    msg, norders = None, 0
                    for order in itertools.permutations(items):
                        pos = {it[0]: i for i, it in enumerate(order)}
                        if any(a in pos and b in pos and pos[a] > pos[b] for a, b in pairs):
                            continue
                        norders += 1
                        for entry0, val, called in itertools.product((None, FULLS[0]), (0, 1), (False, True)):
                            if True:
                                at = {ifc + '.val': BV(val, 1)}
                                entry, published = entry0, None
                                for key, what, info in order:
                                    r.evaluations += 1
                                    if what == 'rdy':
                                        published = bool(_buf_eval(rexpr, me, buf, entry, at))
                                    elif what == 'cap':
                                        names = [a for g, _ in cgl for a in _buf_atoms(g, me, buf)]
                                        if set(names) - set(at):
                                            raise AnalysisError(f"{cname}.{cblk.name}: capture condition with atoms {names}")
                                        if all(bool(_buf_eval(g, me, buf, entry, at)) == pol for g, pol in cgl):
                                            if published is not True and msg is None:
                                                msg = (f"schedule {' < '.join(k for k, _, _ in order)}, buffer {'full' if entry0 else 'empty'} at the "
                                                       f"start, {ifc}.val={val}: the message is captured although the rdy published in this "
                                                       f"cycle was {published} -- the sender keeps its message and it is delivered twice")
                                            entry = FULLS[0]
                                    else:
                                        g, clr = info
                                        fires = called           # the method may or may not be called in this cycle
                                        if fires and g is not None and not _buf_atoms(g[1], g[0], buf):
                                            v = bool(_buf_eval(g[1], g[0], buf, entry, {}))
                                            fires = v if g[2] else not v
                                        if fires:
                                            entry = None if clr else FULLS[0]
                    if not norders:
                        raise AnalysisError(f"{cname}: the declared constraints admit no order of {[i[0] for i in items]}")
                    cons = f"published {ifc}.rdy vs capture in {cblk.name} over {norders} admissible orders"
                    (r.bad(m, f"{cname}.construct", cons, msg, cst.lineno) if msg else r.ok(m, f"{cname}.construct", cons))


def _adapter_wellformed(r, repo, m, only=None):
    """the adapter can be built and run at all: every port it uses on one of its RTL interfaces exists in that
    interface, every function it calls is defined (imported) in its module"""
    import builtins
    elab = Elaborator(repo)
    for cname in sorted(m.classes):
        if only is not None and cname not in only:
            continue
        meths = m.methods(cname)
        con = meths.get('construct')
        if con is None or not con.args.args:
            continue
        me = con.args.args[0].arg
        funcs = [(f, f.args.args[0].arg) for n, f in meths.items() if f.args.args and n != 'construct'] + \
                [(b, me) for b in con.body if isinstance(b, ast.FunctionDef)] + [(con, me)]
        # -- ports of the RTL interfaces the class declares
        ports = {}
        for st in con.body:
            if isinstance(st, ast.Assign) and isinstance(st.value, ast.Call) and isinstance(st.value.func, ast.Name):
                rr = repo.resolve(m, st.value.func.id)
                if rr is None or not isinstance(rr[1], ast.ClassDef):
                    continue
                try:
                    if elab.kind_of(rr[0], rr[1]) != 'ifc':
                        continue
                    from sa.c17_util import Netlist
                    inst = elab.instantiate(Netlist(), ClassRef(rr[0], rr[1]), [D] * len(st.value.args),
                                            {k.arg: D for k in st.value.keywords if k.arg})
                except (AnalysisError, ModelFault):
                    continue
                sigs = {k for k, v in inst.attrs.items() if isinstance(v, Sig)}
                if not sigs:
                    continue
                for t in st.targets:
                    if isinstance(t, ast.Attribute) and norm(t.value) == me:
                        ports[t.attr] = (rr[1].name, set(inst.attrs))
        for f, sn in funcs:
            for n in walk_no_nested(f):
                if isinstance(n, ast.Attribute) and isinstance(n.value, ast.Attribute) and isinstance(n.value.value, ast.Name) \
                        and n.value.value.id == sn and n.value.attr in ports:
                    iname, have = ports[n.value.attr]
                    w = f"{cname}.{f.name}" if f in meths.values() and f is not con else f"{cname}.construct" + ('' if f is con else '.' + f.name)
                    if n.attr in have or n.attr in ('line_trace',):
                        r.ok(m, w, f"port {norm(n)}", nontrivial=False)
                    else:
                        r.bad(m, w, f"port {norm(n)}", f"{iname} has no port `{n.attr}` (it has {sorted(k for k in have if not k[0].isupper())}): "
                              f"the adapter cannot be elaborated", n.lineno)
        # -- called functions are defined (tracing helpers are reported as an observation only)
        for f, sn in funcs:
            local = {a.arg for a in f.args.args + f.args.kwonlyargs} | \
                {n.id for n in ast.walk(f) if isinstance(n, ast.Name) and isinstance(n.ctx, ast.Store)} | \
                {x.name for x in ast.walk(f) if isinstance(x, ast.FunctionDef)}
            if f is not con:
                local |= {a.arg for a in con.args.args} | {n.id for n in walk_no_nested(con) if isinstance(n, ast.Name) and isinstance(n.ctx, ast.Store)}
            for n in walk_no_nested(f):
                if isinstance(n, ast.Call) and isinstance(n.func, ast.Name):
                    nm = n.func.id
                    if nm in local or hasattr(builtins, nm) or re.match(r'^(b|Bits)[0-9]+$', nm) or nm in m.imports \
                            or repo.resolve(m, nm) is not None:
                        continue
                    w = f"{cname}.{f.name}" if f is not con and f in meths.values() else f"{cname}.construct" + ('' if f is con else '.' + f.name)
                    if f.name in ('line_trace', '__str__'):
                        r.observations.append(f"{m.rel}: {w} calls `{nm}`, which is neither defined nor imported (NameError when tracing)")
                        continue
                    r.bad(m, w, f"call of {nm}", f"`{nm}` is neither defined nor imported in {m.rel}: NameError when the adapter "
                          f"handles its first message", n.lineno)


def rule_buffer(repo):
    r = RuleResult('R-C17-buffer', "one-entry message buffers of the CL/FL/RTL adapters (send_recv_ifcs.py, get_give_ifcs.py, "
                                   "stream/queue_adapters.py, stream/fl.py): emptiness is tested with `is None` (never by truth "
                                   "value), a message is stored only into an empty buffer (rdy guard of non-blocking methods, "
                                   "wait-until-empty loop in blocking methods, capture condition of update blocks incl. what en "
                                   "implies), the rdy driven from the buffer equals `empty`, no unconditional clear")
    probe = RuleResult('probe', '')
    _buffer_check(probe, Module(repo, 'c17_embedded_buffer_probe_.py', _BUFFER_PROBE))
    got = sorted({f.func.split('.')[-1] + ':' + f.construct.split(' ')[0] for f in probe.findings})
    for want in ('enq:test', 'enq:store', 'push:store', 'up_msg:store', 'construct:s.recv.rdy'):
        if want not in got:
            raise AnalysisError(f"R-C17-buffer: the embedded positive example ({want}) was not flagged (got {got})")
    wf = RuleResult('probe', '')
    _adapter_wellformed(wf, repo, Module(repo, SQA, repo.src(SQA).replace('s.recv.msg', 's.recv.ret').replace(
        'clone_deepcopy( msg )', 'undefined_copy_( msg )')))
    if not {'port', 'call'} <= {f.construct.split(' ')[0] for f in wf.findings}:
        raise AnalysisError("R-C17-buffer: the embedded positive example (missing port / undefined function) was not flagged")
    for rel in BUFFER_FILES:
        _buffer_check(r, repo.mod(rel))
        _adapter_wellformed(r, repo, repo.mod(rel))
    r.require_floor(40)
    return r


def rule_wide(repo):
    """thorough tier: the same equations for the larger capacities 5..8 (controllers and complete n-entry queues)"""
    r = RuleResult('R-C17-wide', "thorough tier: ready/valid, occupancy / pointer updates, delivered message and stored "
                                 "sequence for capacities 5..8 (n-entry controllers and complete queues)")
    recs = analyse_all(repo, wide=True)
    label = {'enq_rdy': 'enqueue-ready', 'deq_avail': 'dequeue-ready/valid', 'count_out': 'occupancy output',
             'deq_msg': 'delivered message', 'next_inv': 'representation invariant', 'next_count': 'occupancy after the edge',
             'next_contents': 'stored messages after the edge'}
    _report(r, recs, tuple(label), label, lambda rec, a: f"{rec['fam'].name} interface, capacities {list(NS_WIDE)}",
            lambda rec: True)
    r.require_floor(88)
    return r


def rule_openloop_rdy_order(repo):
    """the CL queues publish their start-of-cycle ready flags through constraints of the form U(up_pulse) < M(s.enq.rdy); in
    open-loop simulation these are stated on raw functions and only take effect if both the method and the rdy of a top-level
    non-blocking interface are entered in the raw-function -> vertex map: otherwise enq.rdy is evaluated before the block that
    computes it, a full queue reports ready and deque(maxlen) drops the oldest message -- decided by C02 (R-C02-openloop-vertices)"""
    from rules.c02 import rule_openloop_vertices
    return rule_openloop_vertices(repo)


def rule_fl_blocks_stay_ordered(repo):
    """a CL queue's same-cycle behaviour (pipe: dequeue before enqueue; bypass: enqueue before dequeue) between a producer and a
    consumer that both use blocking FL methods survives the greenlet wrapping only if BOTH ends of every constraint are
    renamed to the wrapped blocks -- decided by C02 (R-C02-greenlet)"""
    from rules.c02 import rule_greenlet
    return rule_greenlet(repo)


def rule_method_equivalence_keys(repo):
    """an FL producer reaches a CL queue through the adapter connect() inserts; the adapter's M(recv) == M(send) only carries the
    queue's M(enq) / M(deq) ordering to the producer if both sides of the equivalence are normalised to the underlying method
    by the same case split (blocking and non-blocking interfaces alike) -- decided by C02 (R-C02-constraint-entry)"""
    from rules.c02 import rule_constraint_entry
    return rule_constraint_entry(repo)


def rule_every_cycle_group_runs(repo):
    """the RTL queues driven by one control block form block-level cycles (one per lane / bank): every group's own blocks are
    re-evaluated by its own generated loop, under every scheduler and for groups large enough to be partitioned -- decided by
    C11 (R-C11-cover, R-C11-once, R-C11-metaname)"""
    import rules.c11 as c11
    out = []
    for rl in (c11.rule_cover, c11.rule_once, c11.rule_metaname):
        res = rl(repo)
        out.extend(res if isinstance(res, list) else [res])
    return out


def rule_inputs_seen_by_the_edge(repo):
    """a multi-entry RTL queue registers an accepted offer only if the tick evaluates the combinational schedule (enq_xfer /
    deq_xfer from the inputs just written) before the update_ff blocks, under every pass group -- decided by C07
    (R-tick-order)"""
    from rules.c07 import rule_tick_order
    return rule_tick_order(repo)


RULES = [rule_inputs_seen_by_the_edge, rule_fl_blocks_stay_ordered, rule_method_equivalence_keys, rule_every_cycle_group_runs, rule_rdy, rule_count, rule_step, rule_siblings, rule_cl, rule_history, rule_copy, rule_connect, rule_buffer,
         rule_openloop_rdy_order]
THOROUGH_RULES = [rule_wide]

# ---------------------------------------------------------------------------
# self-test of the checker (thorough tier)
def _m(name, file, old, new, rule=None, count=1):
    return dict(name=name, file=file, old=old, new=new, rule=rule, count=count)


MUTANTS = [
    # -- stdlib/queues/queues.py: n-entry controllers
    _m('q-normal-enq-rdy-le', Q, "s.enq_rdy //= lambda: ~s.reset & ( s.count < s.num_entries )",
       "s.enq_rdy //= lambda: ~s.reset & ( s.count <= s.num_entries )", 'R-C17-rdy', 'first'),
    _m('q-pipe-enq-rdy-no-deq', Q, "( ( s.count < s.num_entries ) | s.deq_en )", "( s.count < s.num_entries )", 'R-C17-rdy'),
    _m('q-pipe-enq-rdy-wrong-input', Q, "( s.count < s.num_entries ) | s.deq_en )", "( s.count < s.num_entries ) | s.enq_en )",
       'R-C17-rdy'),
    _m('q-bypass-deq-rdy-no-enq', Q, "( (s.count > CountType(0) ) | s.enq_en )", "(s.count > CountType(0) )", 'R-C17-rdy'),
    _m('q-normal-deq-rdy-ungated', Q, "s.deq_rdy //= lambda: ~s.reset & ( s.count > CountType(0) )",
       "s.deq_rdy //= lambda: ( s.count > CountType(0) )", 'R-C17-rdy', 'first'),
    _m('q-normal-deq-rdy-ge', Q, "s.deq_rdy //= lambda: ~s.reset & ( s.count > CountType(0) )",
       "s.deq_rdy //= lambda: ~s.reset & ( s.count >= CountType(0) )", 'R-C17-rdy', 'first'),
    _m('q-head-wrap-off-by-one', Q, "s.head <<= s.head + PtrType(1) if s.head < s.last_idx else PtrType(0)",
       "s.head <<= s.head + PtrType(1) if s.head <= s.last_idx else PtrType(0)", 'R-C17-count', 'first'),
    _m('q-tail-advances-on-deq', Q, "        if s.enq_xfer:\n          s.tail", "        if s.deq_xfer:\n          s.tail",
       'R-C17-count', 'first'),
    _m('q-count-dec-on-any-deq', Q, "        if ~s.enq_xfer & s.deq_xfer:", "        if s.deq_xfer:", 'R-C17-count', 'first'),
    _m('q-reset-forgets-count', Q, "s.tail  <<= PtrType(0)\n        s.count <<= CountType(0)", "s.tail  <<= PtrType(0)",
       'R-C17-count', 'first'),
    _m('q-waddr-is-head', Q, "connect( s.waddr, s.tail     )", "connect( s.waddr, s.head     )", 'R-C17-count', 'first'),
    _m('q-wen-is-deq-xfer', Q, "connect( s.wen,   s.enq_xfer )", "connect( s.wen,   s.deq_xfer )", 'R-C17-count', 'first'),
    _m('q-enq-xfer-or', Q, "s.enq_xfer //= lambda: s.enq_en & s.enq_rdy", "s.enq_xfer //= lambda: s.enq_en | s.enq_rdy",
       'R-C17-count', 'first'),
    _m('q-bypass-mux-sel-polarity', Q, "s.mux_sel //= lambda: s.count == CountType(0)",
       "s.mux_sel //= lambda: s.count != CountType(0)", 'R-C17-count'),
    _m('q-normal-enq-rdy-msb-test', Q, "s.enq_rdy //= lambda: ~s.reset & ( s.count < s.num_entries )",
       "s.enq_rdy //= lambda: ~s.reset & ~s.count[ count_nbits-1 ]", 'R-C17-rdy', 'first'),     # only wrong for non powers of two
    dict(name='q-ctrl-consts-cached-by-type', rule='R-C17-history', edits=[   # depth 6 built after depth 5 reuses capacity 5
        dict(file=Q, old="#-------------------------------------------------------------------------\n# Dpath and Ctrl for NormalQueueRTL",
             new="_ctrl_consts = {}\n\ndef _mk_ctrl_consts( PtrType, CountType, num_entries ):\n  key = ( PtrType, CountType )\n"
                 "  if key not in _ctrl_consts:\n    _ctrl_consts[ key ] = ( PtrType( num_entries-1 ), CountType( num_entries ) )\n"
                 "  return _ctrl_consts[ key ]\n\n"
                 "#-------------------------------------------------------------------------\n# Dpath and Ctrl for NormalQueueRTL", count=1),
        dict(file=Q, old="    s.last_idx    = PtrType  ( num_entries-1 )\n    s.num_entries = CountType( num_entries   )\n",
             new="    s.last_idx, s.num_entries = _mk_ctrl_consts( PtrType, CountType, num_entries )\n", count=3)]),
    # -- queues.py: 1-entry queues
    _m('q-normal1-full-ignores-deq', Q, "s.full <<= ~s.reset & ( ~s.deq.en & (s.enq.en | s.full) )",
       "s.full <<= ~s.reset & ( s.enq.en | s.full )", 'R-C17-count', 'first'),
    _m('q-pipe1-enq-rdy-no-deq', Q, "s.enq.rdy //= lambda: ~s.reset & ( ~s.full | s.deq.en )",
       "s.enq.rdy //= lambda: ~s.reset & ~s.full", 'R-C17-rdy'),
    _m('q-pipe1-full-precedence', Q, "( s.enq.en | s.full & ~s.deq.en )", "( (s.enq.en | s.full) & ~s.deq.en )", 'R-C17-count'),
    _m('q-bypass1-entry-write-cond', Q, "      if s.enq.en & ~s.deq.en:\n        s.entry", "      if s.enq.en & s.deq.en:\n        s.entry",
       'R-C17-step'),
    _m('q-bypass1-mux-swapped', Q, "m.in_[0] //= s.enq.msg\n    m.in_[1] //= s.entry", "m.in_[1] //= s.enq.msg\n    m.in_[0] //= s.entry",
       'R-C17-step'),
    _m('q-bypass1-deq-rdy-no-enq', Q, "s.deq.rdy //= lambda: ~s.reset & ( s.full | s.enq.en )",
       "s.deq.rdy //= lambda: ~s.reset & s.full", 'R-C17-rdy'),
    # -- queues.py: wrappers and data path
    _m('q-pipe-wrapper-wrong-1entry', Q, "s.q = PipeQueue1EntryRTL( EntryType )", "s.q = NormalQueue1EntryRTL( EntryType )",
       'R-C17-step'),
    _m('q-wrapper-addr-crossed', Q, "connect( s.ctrl.waddr,   s.dpath.waddr   )\n      connect( s.ctrl.raddr,   s.dpath.raddr   )",
       "connect( s.ctrl.waddr,   s.dpath.raddr   )\n      connect( s.ctrl.raddr,   s.dpath.waddr   )", 'R-C17-step', 'first'),
    _m('q-bypass-wrapper-no-mux-sel', Q, "      connect( s.ctrl.mux_sel, s.dpath.mux_sel )\n", "", 'R-C17-step'),
    _m('q-bypass-dpath-mux-swapped', Q, "m.in_[0] //= s.queue.rdata[0]\n    m.in_[1] //= s.enq_msg",
       "m.in_[1] //= s.queue.rdata[0]\n    m.in_[0] //= s.enq_msg", 'R-C17-step'),
    _m('q-wrapper-en-crossed', Q, "connect( s.enq.en,  s.ctrl.enq_en   )\n      connect( s.enq.rdy, s.ctrl.enq_rdy  )\n      connect( s.deq.en,  s.ctrl.deq_en   )",
       "connect( s.enq.en,  s.ctrl.deq_en   )\n      connect( s.enq.rdy, s.ctrl.enq_rdy  )\n      connect( s.deq.en,  s.ctrl.enq_en   )",
       'R-C17-step', 'first'),
    # -- stdlib/stream/queues.py
    _m('st-normal-recv-rdy-le', ST, "s.recv_rdy  //= lambda: s.count < num_entries", "s.recv_rdy  //= lambda: s.count <= num_entries",
       'R-C17-rdy'),
    _m('st-pipe-recv-rdy-and', ST, "( s.count < num_entries ) | s.send_rdy", "( s.count < num_entries ) & s.send_rdy", 'R-C17-rdy'),
    _m('st-bypass-send-val-no-recv', ST, "s.send_val //= lambda: (s.count > 0) | s.recv_val", "s.send_val //= lambda: (s.count > 0)",
       'R-C17-rdy'),
    _m('st-tail-wrap-late', ST, "s.tail <<= s.tail + 1 if ( s.tail < num_entries - 1 ) else 0",
       "s.tail <<= s.tail + 1 if ( s.tail < num_entries ) else 0", 'R-C17-count', 'first'),
    _m('st-count-dec-on-any-send', ST, "        elif ~s.recv_xfer & s.send_xfer:", "        elif s.send_xfer:", 'R-C17-count', 'first'),
    _m('st-normal1-full-ignores-rdy', ST, "s.full <<= (s.recv.val & ~s.full) | (s.full & ~s.send.rdy)",
       "s.full <<= s.recv.val | (s.full & ~s.send.rdy)", 'R-C17-count'),
    _m('st-normal1-entry-overwritten', ST, "      if s.recv.val & ~s.full:\n        s.entry", "      if s.recv.val:\n        s.entry",
       'R-C17-step'),
    _m('st-pipe1-recv-rdy-and', ST, "s.recv.rdy //= lambda: s.send.rdy | ~s.full", "s.recv.rdy //= lambda: s.send.rdy & ~s.full",
       'R-C17-rdy'),
    _m('st-bypass1-send-val-no-recv', ST, "s.send.val //= lambda: s.full | s.recv.val", "s.send.val //= lambda: s.full", 'R-C17-rdy'),
    _m('st-bypass1-full-loses', ST, "s.full <<= ~s.send.rdy & (s.full | s.recv.val)", "s.full <<= ~s.send.rdy & s.recv.val",
       'R-C17-count'),
    _m('st-bypass-dpath-no-bypass', ST, "m.in_[1] //= s.recv_msg", "m.in_[1] //= s.rf.rdata[0]", 'R-C17-step'),
    dict(name='st-bypass-skip-write-pointers-drift', rule='R-C17-count', edits=[
        dict(file=ST, old="    s.wen   //= s.recv_xfer\n    s.waddr //= s.tail\n    s.raddr //= s.head\n\n    s.recv_rdy //= lambda: s.count < num_entries\n"
                          "    s.send_val //= lambda: (s.count > 0) | s.recv_val",
             new="    s.wen //= lambda: s.recv_xfer & ~( s.mux_sel & s.send_xfer )\n    s.waddr //= s.tail\n    s.raddr //= s.head\n\n"
                 "    s.recv_rdy //= lambda: s.count < num_entries\n    s.send_val //= lambda: (s.count > 0) | s.recv_val", count=1),
        dict(file=ST, old="        if s.recv_xfer:\n          s.tail <<= s.tail + 1 if ( s.tail < num_entries - 1 ) else 0\n\n"
                          "        if s.send_xfer:\n          s.head <<= s.head + 1 if ( s.head < num_entries -1 ) else 0\n\n"
                          "        if s.recv_xfer & ~s.send_xfer:\n          s.count <<= s.count + 1\n        if ~s.recv_xfer",
             new="        if s.wen:\n          s.tail <<= s.tail + 1 if ( s.tail < num_entries - 1 ) else 0\n\n"
                 "        if s.send_xfer:\n          s.head <<= s.head + 1 if ( s.head < num_entries -1 ) else 0\n\n"
                 "        if s.recv_xfer & ~s.send_xfer:\n          s.count <<= s.count + 1\n        if ~s.recv_xfer", count=1)]),
    _m('st-reset-sets-full', ST, "      if s.reset:\n        s.full <<= 0", "      if s.reset:\n        s.full <<= 1", 'R-C17-count', 'first'),
    # -- stdlib/queues/enrdy_queues.py
    _m('en-pipe1-enq-rdy-no-deq', EN, "s.enq.rdy @= ~s.full.out | s.deq.rdy", "s.enq.rdy @= ~s.full.out", 'R-C17-rdy'),
    _m('en-pipe1-full-sticky', EN, "s.full.in_ @= s.enq.en | (s.full.out & ~s.deq.rdy )", "s.full.in_ @= s.enq.en | s.full.out",
       'R-C17-count'),
    _m('en-bypass1-deq-en-no-bypass', EN, "s.deq.en    @= (s.enq.en | s.full.out) & s.deq.rdy", "s.deq.en    @= s.full.out & s.deq.rdy",
       'R-C17-rdy'),
    _m('en-bypass1-buffer-en', EN, "s.buffer.en @=  s.enq.en & ~s.deq.en", "s.buffer.en @=  s.enq.en & s.deq.en", 'R-C17-step'),
    _m('en-bypass1-reset-value', EN, "RegRst( Bits1, reset_value = 0 )", "RegRst( Bits1, reset_value = 1 )", 'R-C17-count'),
    _m('en-normal1-full-term', EN, "(~s.deq.rdy & s.full.out)", "(s.deq.rdy & s.full.out)", 'R-C17-count'),
    _m('en-normal1-deq-en-always', EN, "s.deq.en @= s.full.out & s.deq.rdy", "s.deq.en @= s.deq.rdy", 'R-C17-rdy'),
    # -- registers / register file / mux used by the queues
    _m('regen-ignores-en', REGS, "      if s.en:\n        s.out <<= s.in_", "      s.out <<= s.in_", 'R-C17-step'),
    _m('regrst-polarity', REGS, "if s.reset: s.out <<= reset_value\n      else:       s.out <<= s.in_",
       "if ~s.reset: s.out <<= reset_value\n      else:       s.out <<= s.in_", 'R-C17'),
    _m('rf-write-enable-inverted', RF, "          if s.wen[i]:\n            s.regs[ s.waddr[i] ] <<= s.wdata[i]",
       "          if ~s.wen[i]:\n            s.regs[ s.waddr[i] ] <<= s.wdata[i]", 'R-C17-step', 'first'),
    _m('rf-read-uses-waddr', RF, "s.rdata[i] @= s.regs[ s.raddr[i] ]", "s.rdata[i] @= s.regs[ s.waddr[i] ]", 'R-C17-step', 'first'),
    _m('mux-select-inverted', ARITH, "s.out @= s.in_[ s.sel ]", "s.out @= s.in_[ ~s.sel ]", 'R-C17-step'),
    # -- stdlib/queues/valrdy_queues.py
    _m('vr-full-next-ignores-deq', VR, "s.full_next_cycle @= s.do_enq & ~s.do_deq & (s.enq_ptr_next == s.deq_ptr)",
       "s.full_next_cycle @= s.do_enq & (s.enq_ptr_next == s.deq_ptr)", 'R-C17-count'),
    _m('vr-empty-ignores-full', VR, "s.empty   @= ~s.full & (s.enq_ptr == s.deq_ptr)", "s.empty   @= (s.enq_ptr == s.deq_ptr)",
       'R-C17-rdy'),
    _m('vr-pipe1-next-full', VR, "s.next_full @= s.enq.val | (s.full & ~s.deq.rdy)", "s.next_full @= s.enq.val & (s.full & ~s.deq.rdy)",
       'R-C17-count'),
    _m('vr-bypass1-deq-val', VR, "s.deq.val @= s.full | s.enq.val", "s.deq.val @= s.full", 'R-C17-rdy'),
    _m('vr-free-entries', VR, "s.num_free_entries @= zext( s.deq_ptr - s.enq_ptr, SizeType )",
       "s.num_free_entries @= zext( s.enq_ptr - s.deq_ptr, SizeType )", 'R-C17-count'),
    # -- stored messages must be private copies (the five sites repaired after this rule found them, and the seeded one)
    _m('adapter-recvcl2sendrtl-no-copy', SRI, "  def recv( s, msg ):\n    s.entry = clone_deepcopy( msg )\n\n  def line_trace( s ):\n    return \"{}(){}\".format( s.recv, s.send )\n\n#-------------------------------------------------------------------------\n# RecvRTL2SendCL",
       "  def recv( s, msg ):\n    s.entry = msg\n\n  def line_trace( s ):\n    return \"{}(){}\".format( s.recv, s.send )\n\n#-------------------------------------------------------------------------\n# RecvRTL2SendCL", 'R-C17-copy'),
    _m('adapter-recvcl2sendrtl-alias-stored', SRI, "    s.entry = clone_deepcopy( msg )", "    m = msg\n    s.entry = m", 'R-C17-copy', 'first'),
    _m('adapter-recvfl2sendrtl-no-copy', SRI, "      greenlet.getcurrent().parent.switch(0)\n    s.entry = clone_deepcopy( msg )",
       "      greenlet.getcurrent().parent.switch(0)\n    s.entry = msg", 'R-C17-copy'),
    _m('adapter-recvcl2givefl-no-copy', GGI, "    s.entry = clone_deepcopy( msg )", "    s.entry = msg", 'R-C17-copy'),
    dict(name='clone-deepcopy-falls-back-to-shallow', rule='R-C17-copy', edits=[
        dict(file=CLONE_PY, old="from copy import deepcopy\n", new="from copy import copy\n", count=1),
        dict(file=CLONE_PY, old="    return deepcopy(x)", new="    return copy(x)", count=1)]),
    _m('clone-deepcopy-returns-argument', CLONE_PY, "    return deepcopy(x)", "    return x", 'R-C17-copy'),
    _m('clone-deepcopy-deepcopy-aliased-to-copy', CLONE_PY, "from copy import deepcopy\n", "from copy import copy as deepcopy\n", 'R-C17-copy'),
    _m('clone-deepcopy-list-copy', CLONE_PY, "    return deepcopy(x)", "    return list(x)", 'R-C17-copy'),
    _m('cl-enq-copies-only-structured-messages', CLQ, "    s.queue.appendleft( clone_deepcopy( msg ) )",
       "    s.queue.appendleft( clone_deepcopy( msg ) if hasattr( msg, 'clone' ) else msg )", 'R-C17-copy', 'first'),
    _m('cl-pulse-local-wrong-compare', CLQ, "      s.enq_rdy = len( s.queue ) < s.queue.maxlen\n      s.deq_rdy = len( s.queue ) > 0",
       "      occupancy = len( s.queue )\n      s.enq_rdy = occupancy <= s.queue.maxlen\n      s.deq_rdy = occupancy > 0", 'R-C17-cl'),
    _m('cl-pipe-enq-no-copy', CLQ, "s.queue.appendleft( clone_deepcopy( msg ) )", "s.queue.appendleft( msg )", 'R-C17-copy', 'first'),
    dict(name='cl-bypass-enq-no-copy', rule='R-C17-copy', edits=[
        dict(file=CLQ, old="  @non_blocking( lambda s: len( s.queue ) < s.queue.maxlen )\n  def enq( s, msg ):\n    s.queue.appendleft( clone_deepcopy( msg ) )\n\n"
                           "  @non_blocking( lambda s: len( s.queue ) > 0 )\n  def deq( s ):\n    return s.queue.pop()\n\n"
                           "  @non_blocking( lambda s: len( s.queue ) > 0 )\n  def peek( s ):\n    return s.queue[-1]\n\n"
                           "  def line_trace( s ):\n    return \"{}( ){}\".format( s.enq, s.deq )\n\n"
                           "#-------------------------------------------------------------------------\n# NormalQueueCL",
             new="  @non_blocking( lambda s: len( s.queue ) < s.queue.maxlen )\n  def enq( s, msg ):\n    s.queue.appendleft( msg )\n\n"
                 "  @non_blocking( lambda s: len( s.queue ) > 0 )\n  def deq( s ):\n    return s.queue.pop()\n\n"
                 "  @non_blocking( lambda s: len( s.queue ) > 0 )\n  def peek( s ):\n    return s.queue[-1]\n\n"
                 "  def line_trace( s ):\n    return \"{}( ){}\".format( s.enq, s.deq )\n\n"
                 "#-------------------------------------------------------------------------\n# NormalQueueCL", count=1)]),
    _m('cl-normal-enq-no-copy', CLQ, "  @non_blocking( lambda s: s.enq_rdy )\n  def enq( s, msg ):\n    s.queue.appendleft( clone_deepcopy( msg ) )",
       "  @non_blocking( lambda s: s.enq_rdy )\n  def enq( s, msg ):\n    s.queue.appendleft( msg )", 'R-C17-copy'),
    # -- adapters through which queues are chained / driven from CL and FL code (round 4 of seeded bugs)
    _m('adapter-and-ignores-receiver-rdy', GGI, "        m.in1, other.rdy,", "        m.in1, s.rdy,", 'R-C17-connect'),
    _m('adapter-and-wired-only-for-first', GGI, "      connect_pairs(\n        m.in0, s.rdy,\n        m.in1, other.rdy,",
       "      connect_pairs(\n        m.in0, s.rdy,\n        m.in1, other.rdy if parent.give_recv_ander_cnt == 0 else s.rdy,", 'R-C17-connect'),
    _m('adapter-and-enable-only-giver', GGI, "        m.out, other.en,", "        m.in0, other.en,", 'R-C17-connect'),
    _m('adapter-sendq-guard-truthiness', SQA, "@non_blocking( lambda s: s.entry is None )", "@non_blocking( lambda s: not s.entry )", 'R-C17-buffer'),
    _m('adapter-recvfl2sendrtl-waits-once', SRI, "    while s.entry is not None:\n      greenlet.getcurrent().parent.switch(0)\n    s.entry = clone_deepcopy( msg )",
       "    if s.entry is not None:\n      greenlet.getcurrent().parent.switch(0)\n    s.entry = clone_deepcopy( msg )", 'R-C17-buffer'),
    _m('adapter-recvq-captures-while-full', SQA, "      if (s.entry is None) & s.recv.val:", "      if s.recv.val:", 'R-C17-buffer'),
    _m('adapter-recvq-rdy-inverted', SQA, "      s.recv.rdy @= (s.entry is None)", "      s.recv.rdy @= (s.entry is not None)", 'R-C17-buffer'),
    _m('adapter-recvcl2sendrtl-guard-dropped', SRI, "  @non_blocking( lambda s : s.entry is None )\n  def recv( s, msg ):",
       "  @non_blocking( lambda s : True )\n  def recv( s, msg ):", 'R-C17-buffer'),
    _m('adapter-fl-sendq-no-wait', SFL, "    while s.entry is not None:\n      greenlet.getcurrent().parent.switch(0)\n\n    s.entry = clone_deepcopy(msg)",
       "    s.entry = clone_deepcopy(msg)", 'R-C17-buffer'),
    _m('adapter-fl-recvq-captures-while-full', SFL, "      if (s.entry is None) & s.recv.val:", "      if s.recv.val:", 'R-C17-buffer'),
    _m('adapter-getrtl2givecl-en-while-full', GGI, "      if s.entry is None and s.get.rdy:", "      if s.get.rdy:", 'R-C17-buffer'),
    # -- round 9: release only on a completed handshake; published rdy vs capture over the admissible orders
    _m('fl-sendq-sent-ignores-rdy', SFL, "      s.sent <<= s.send.val & s.send.rdy", "      s.sent <<= s.send.val", 'R-C17-buffer'),
    _m('sqa-sendq-sent-ignores-rdy', SQA, "      s.sent <<= s.send.val & s.send.rdy", "      s.sent <<= s.send.val", 'R-C17-buffer'),
    _m('sqa-sendq-sent-on-rdy-only', SQA, "      s.sent <<= s.send.val & s.send.rdy", "      s.sent <<= s.send.rdy", 'R-C17-buffer'),
    _m('fl-recvq-deq-after-rdy', SFL, "M( s.deq )       < U( up_recv_rdy ),", "U( up_recv_rdy ) < M( s.deq ),", 'R-C17-buffer'),
    _m('sqa-recvq-deq-unconstrained', SQA, "M( s.deq )     < U( up_recv_rdy ), # deq before recv in a cycle -- pipe behavior\n                       M( s.deq.rdy ) < U( up_recv_rdy ),",
       "M( s.deq.rdy ) < U( up_recv_rdy ),", 'R-C17-buffer'),
    # -- stdlib/queues/cl_queues.py
    _m('cl-pipe-enq-guard-le', CLQ, "lambda s: len( s.queue ) < s.queue.maxlen", "lambda s: len( s.queue ) <= s.queue.maxlen",
       'R-C17-cl', 'first'),
    _m('cl-pipe-deq-guard-ge', CLQ, "@non_blocking( lambda s: len( s.queue ) > 0 )\n  def deq",
       "@non_blocking( lambda s: len( s.queue ) >= 0 )\n  def deq", 'R-C17-cl', 'first'),
    _m('cl-bypass-constraint-reversed', CLQ, "M( s.enq    ) < M( s.deq     ),", "M( s.enq    ) > M( s.deq     ),", 'R-C17-cl'),
    _m('cl-constraints-local-list-misses-one', CLQ, "    s.add_constraints(\n      M( s.enq    ) < M( s.peek    ),\n      M( s.enq    ) < M( s.deq     ),\n    )",
       "    cs = [ M( s.enq ) < M( s.peek ) ]\n    s.add_constraints( *cs )", 'R-C17-cl'),
    _m('cl-pipe-constraint-dropped', CLQ, "M( s.peek   ) < M( s.enq  ),\n      M( s.deq    ) < M( s.enq  )",
       "M( s.peek   ) < M( s.enq  ),", 'R-C17-cl'),
    _m('cl-enq-same-end', CLQ, "s.queue.appendleft( clone_deepcopy( msg ) )", "s.queue.append( clone_deepcopy( msg ) )", 'R-C17-cl', 'first'),
    _m('cl-deq-same-end', CLQ, "return s.queue.pop()", "return s.queue.popleft()", 'R-C17-cl', 'first'),
    _m('cl-peek-wrong-end', CLQ, "return s.queue[-1]", "return s.queue[0]", 'R-C17-cl', 'first'),
    _m('cl-normal-pulse-ge', CLQ, "s.deq_rdy = len( s.queue ) > 0", "s.deq_rdy = len( s.queue ) >= 0", 'R-C17-cl'),
    _m('cl-normal-pulse-constraint-reversed', CLQ, "U( up_pulse ) < M( s.enq.rdy ),", "U( up_pulse ) > M( s.enq.rdy ),", 'R-C17-cl'),
    _m('cl-capacity-plus-one', CLQ, "deque( maxlen=num_entries )", "deque( maxlen=num_entries+1 )", 'R-C17-cl', 'first'),
    _m('cl-normal-deq-live-guard', CLQ, "@non_blocking( lambda s: s.deq_rdy )", "@non_blocking( lambda s: len( s.queue ) > 0 )",
       'R-C17-cl'),      # bypass behaviour when the producer is scheduled first
    dict(name='cl-pipe-enq-pulsed-guard', rule='R-C17-cl', edits=[      # a pipe queue whose enq.rdy is a start-of-cycle pulse
        dict(file=CLQ, old="    s.queue = deque( maxlen=num_entries )\n\n    s.add_constraints(\n      M( s.peek   ) < M( s.enq  ),",
             new="    s.queue = deque( maxlen=num_entries )\n    s.enq_rdy = False\n\n    @update\n    def up_pulse():\n"
                 "      s.enq_rdy = len( s.queue ) < s.queue.maxlen\n\n    s.add_constraints(\n      U( up_pulse ) < M( s.enq.rdy ),\n"
                 "      M( s.peek   ) < M( s.enq  ),", count=1),
        dict(file=CLQ, old="@non_blocking( lambda s: len( s.queue ) < s.queue.maxlen )", new="@non_blocking( lambda s: s.enq_rdy )",
             count='first')]),
    _m('cl-normal-enq-uses-deq-pulse', CLQ, "@non_blocking( lambda s: s.enq_rdy )", "@non_blocking( lambda s: s.deq_rdy )", 'R-C17-cl'),
]

EQUIV = [
    _m('q-rdy-operands-swapped', Q, "~s.reset & ( s.count < s.num_entries )", "( s.count < s.num_entries ) & ~s.reset", None, 'first'),
    _m('q-nonzero-as-ne', Q, "s.count > CountType(0)", "s.count != CountType(0)", None, 'first'),
    _m('q-not-full-as-ne', Q, "( s.count < s.num_entries )", "( s.count != s.num_entries )", None, 'first'),
    _m('q-wrap-eq-form', Q, "s.head + PtrType(1) if s.head < s.last_idx else PtrType(0)",
       "PtrType(0) if s.head == s.last_idx else s.head + PtrType(1)", None, 'first'),
    _m('q-count-elif', Q, "        if ~s.enq_xfer & s.deq_xfer:", "        elif ~s.enq_xfer & s.deq_xfer:", None, 'first'),
    _m('q-connect-args-swapped', Q, "connect( s.waddr, s.tail     )", "connect( s.tail, s.waddr )", None, 'first'),
    _m('q-connect-as-floordiv', Q, "connect( s.raddr, s.head     )", "s.raddr //= s.head", None, 'first'),
    _m('q-lambda-as-update-block', Q, "    s.enq_xfer //= lambda: s.enq_en & s.enq_rdy\n",
       "    @update\n    def up_enq_xfer():\n      s.enq_xfer @= s.enq_en & s.enq_rdy\n", None, 'first'),
    _m('q-1entry-full-reassociated', Q, "~s.reset & ( ~s.deq.en & (s.enq.en | s.full) )",
       "( (s.enq.en | s.full) & ~s.deq.en ) & ~s.reset", None, 'first'),
    _m('q-wrapper-le-1', Q, "    if num_entries == 1:", "    if num_entries <= 1:", None, 'first'),
    _m('q-reset-last-assignment-wins', Q,
       "      if s.reset:\n        s.head  <<= PtrType(0)\n        s.tail  <<= PtrType(0)\n        s.count <<= CountType(0)\n\n      else:\n"
       "        if s.deq_xfer:\n          s.head <<= s.head + PtrType(1) if s.head < s.last_idx else PtrType(0)\n\n"
       "        if s.enq_xfer:\n          s.tail <<= s.tail + PtrType(1) if s.tail < s.last_idx else PtrType(0)\n\n"
       "        if s.enq_xfer & ~s.deq_xfer:\n          s.count <<= s.count + CountType(1)\n"
       "        if ~s.enq_xfer & s.deq_xfer:\n          s.count <<= s.count - CountType(1)\n",
       "      if s.deq_xfer:\n        s.head <<= s.head + PtrType(1) if s.head < s.last_idx else PtrType(0)\n"
       "      if s.enq_xfer:\n        s.tail <<= s.tail + PtrType(1) if s.tail < s.last_idx else PtrType(0)\n"
       "      if s.enq_xfer & ~s.deq_xfer:\n        s.count <<= s.count + CountType(1)\n"
       "      if ~s.enq_xfer & s.deq_xfer:\n        s.count <<= s.count - CountType(1)\n"
       "      if s.reset:\n        s.head  <<= PtrType(0)\n        s.tail  <<= PtrType(0)\n        s.count <<= CountType(0)\n",
       None, 'first'),
    dict(name='q-ctrl-consts-memoised-by-capacity', edits=[
        dict(file=Q, old="#-------------------------------------------------------------------------\n# Dpath and Ctrl for NormalQueueRTL",
             new="_ctrl_consts = {}\n\ndef _mk_ctrl_consts( PtrType, CountType, num_entries ):\n  key = ( PtrType, CountType, num_entries )\n"
                 "  if key not in _ctrl_consts:\n    _ctrl_consts[ key ] = ( PtrType( num_entries-1 ), CountType( num_entries ) )\n"
                 "  return _ctrl_consts[ key ]\n\n"
                 "#-------------------------------------------------------------------------\n# Dpath and Ctrl for NormalQueueRTL", count=1),
        dict(file=Q, old="    s.last_idx    = PtrType  ( num_entries-1 )\n    s.num_entries = CountType( num_entries   )\n",
             new="    s.last_idx, s.num_entries = _mk_ctrl_consts( PtrType, CountType, num_entries )\n", count=3)]),
    _m('adapter-emptiness-as-eq-none', SQA, "@non_blocking( lambda s: s.entry is None )", "@non_blocking( lambda s: s.entry == None )"),
    _m('adapter-capture-guard-nested', SQA, "      if (s.entry is None) & s.recv.val:\n        s.entry = clone_deepcopy( s.recv.msg )",
       "      if s.recv.val:\n        if s.entry is None:\n          s.entry = clone_deepcopy( s.recv.msg )"),
    _m('adapter-wait-loop-negated-form', SRI, "    while s.entry is not None:\n      greenlet.getcurrent().parent.switch(0)\n    s.entry = clone_deepcopy( msg )",
       "    while not (s.entry is None):\n      greenlet.getcurrent().parent.switch(0)\n    s.entry = clone_deepcopy( msg )"),
    _m('adapter-naming-branches-flipped', GGI,
       "      if hasattr( parent, \"give_recv_ander_cnt\" ):\n        cnt = parent.give_recv_ander_cnt\n"
       "        setattr( parent, \"give_recv_ander_\" + str( cnt ), m )\n      else:\n"
       "        parent.give_recv_ander_cnt = 0\n        parent.give_recv_ander_0   = m\n",
       "      if not hasattr( parent, \"give_recv_ander_cnt\" ):\n        parent.give_recv_ander_cnt = 0\n"
       "        parent.give_recv_ander_0   = m\n      else:\n        cnt = parent.give_recv_ander_cnt\n"
       "        setattr( parent, \"give_recv_ander_\" + str( cnt ), m )\n"),
    _m('adapter-and-inputs-swapped', GGI, "        m.in0, s.rdy,\n        m.in1, other.rdy,", "        m.in1, s.rdy,\n        m.in0, other.rdy,"),
    _m('adapter-send-branches-swapped', SRI, "      if s.entry is None:\n        s.send.en  @= b1( 0 )\n      else:\n        s.send.en  @= b1( s.send.rdy )\n        s.send.msg @= s.entry",
       "      if s.entry is not None:\n        s.send.en  @= b1( s.send.rdy )\n        s.send.msg @= s.entry\n      else:\n        s.send.en  @= b1( 0 )"),
    dict(name='clone-deepcopy-via-copy-module', edits=[
        dict(file=CLONE_PY, old="from copy import deepcopy\n", new="import copy\n", count=1),
        dict(file=CLONE_PY, old="    return deepcopy(x)", new="    return copy.deepcopy(x)", count=1)]),
    _m('clone-deepcopy-helper-local', CLONE_PY, "  except AttributeError:\n    return deepcopy(x)",
       "  except AttributeError:\n    obj = x\n    return deepcopy(obj)"),
    _m('fl-sendq-sent-operands-swapped', SFL, "      s.sent <<= s.send.val & s.send.rdy", "      s.sent <<= s.send.rdy & s.send.val"),
    _m('sqa-sendq-clear-compare-form', SQA, "      if s.sent: # constraints reverse this", "      if s.sent == 1: # constraints reverse this"),
    _m('fl-recvq-constraint-as-gt', SFL, "M( s.deq )       < U( up_recv_rdy ),", "U( up_recv_rdy ) > M( s.deq ),"),
    _m('adapter-copy-via-clone-method', SRI, "s.entry = clone_deepcopy( msg )", "s.entry = msg.clone()", None, 'first'),
    dict(name='adapter-copy-via-deepcopy', edits=[
        dict(file=GGI, old="import greenlet\n", new="import greenlet\nfrom copy import deepcopy\n", count=1),
        dict(file=GGI, old="    s.entry = clone_deepcopy( msg )", new="    s.entry = deepcopy( msg )", count=1)]),
    _m('cl-copy-via-local', CLQ, "    s.queue.appendleft( clone_deepcopy( msg ) )", "    m = msg.clone()\n    s.queue.appendleft( m )", None, 'first'),
    dict(name='cl-copy-via-deepcopy', edits=[
        dict(file=CLQ, old="from collections import deque\n", new="import copy\nfrom collections import deque\n", count=1),
        dict(file=CLQ, old="  @non_blocking( lambda s: s.enq_rdy )\n  def enq( s, msg ):\n    s.queue.appendleft( clone_deepcopy( msg ) )",
             new="  @non_blocking( lambda s: s.enq_rdy )\n  def enq( s, msg ):\n    s.queue.appendleft( copy.deepcopy( msg ) )", count=1)]),
    _m('st-not-full-as-ne', ST, "s.recv_rdy  //= lambda: s.count < num_entries", "s.recv_rdy  //= lambda: s.count != num_entries"),
    _m('st-1entry-reset-last', ST,
       "      if s.reset:\n        s.full <<= 0\n      else:\n        s.full <<= (s.recv.val & ~s.full) | (s.full & ~s.send.rdy)\n",
       "      s.full <<= (s.recv.val & ~s.full) | (s.full & ~s.send.rdy)\n      if s.reset:\n        s.full <<= 0\n"),
    _m('st-wrap-helper-constant', ST, "s.tail <<= s.tail + 1 if ( s.tail < num_entries - 1 ) else 0",
       "s.tail <<= 0 if ( s.tail >= num_entries - 1 ) else s.tail + 1", None, 'first'),
    _m('en-normal1-full-simplified', EN,
       "s.full.in_ @= (~s.full.out & s.enq.en) | \\\n                    (~s.deq.rdy & s.enq.en)  | \\\n                    (~s.deq.rdy & s.full.out)",
       "s.full.in_ @= s.enq.en | (~s.deq.rdy & s.full.out)"),
    _m('en-bypass1-reordered', EN, "s.deq.en    @= (s.enq.en | s.full.out) & s.deq.rdy", "s.deq.en    @= s.deq.rdy & (s.full.out | s.enq.en)"),
    _m('vr-not-full-as-compare', VR, "s.enq_rdy @= ~s.full\n      s.deq_val", "s.enq_rdy @= s.full == 0\n      s.deq_val"),
    dict(name='st-bypass-skip-write-both-pointers-held', edits=[
        dict(file=ST, old="    s.wen   //= s.recv_xfer\n    s.waddr //= s.tail\n    s.raddr //= s.head\n\n    s.recv_rdy //= lambda: s.count < num_entries\n"
                          "    s.send_val //= lambda: (s.count > 0) | s.recv_val",
             new="    s.wen //= lambda: s.recv_xfer & ~( s.mux_sel & s.send_xfer )\n    s.waddr //= s.tail\n    s.raddr //= s.head\n\n"
                 "    s.recv_rdy //= lambda: s.count < num_entries\n    s.send_val //= lambda: (s.count > 0) | s.recv_val", count=1),
        dict(file=ST, old="        if s.recv_xfer:\n          s.tail <<= s.tail + 1 if ( s.tail < num_entries - 1 ) else 0\n\n"
                          "        if s.send_xfer:\n          s.head <<= s.head + 1 if ( s.head < num_entries -1 ) else 0\n\n"
                          "        if s.recv_xfer & ~s.send_xfer:\n          s.count <<= s.count + 1\n        if ~s.recv_xfer",
             new="        if s.wen:\n          s.tail <<= s.tail + 1 if ( s.tail < num_entries - 1 ) else 0\n\n"
                 "        if s.send_xfer & ~s.mux_sel:\n          s.head <<= s.head + 1 if ( s.head < num_entries -1 ) else 0\n\n"
                 "        if s.recv_xfer & ~s.send_xfer:\n          s.count <<= s.count + 1\n        if ~s.recv_xfer", count=1)]),
    _m('cl-constraints-bound-to-locals', CLQ, "    s.add_constraints(\n      M( s.peek   ) < M( s.enq  ),\n      M( s.deq    ) < M( s.enq  )\n    )",
       "    peek_before_enq = M( s.peek ) < M( s.enq )\n    deq_before_enq  = M( s.deq  ) < M( s.enq )\n\n"
       "    s.add_constraints( peek_before_enq, deq_before_enq )"),
    _m('cl-constraints-starred-list', CLQ, "    s.add_constraints(\n      M( s.enq    ) < M( s.peek    ),\n      M( s.enq    ) < M( s.deq     ),\n    )",
       "    cs = [ M( s.enq ) < M( s.peek ), M( s.enq ) < M( s.deq ) ]\n    s.add_constraints( *cs )"),
    _m('cl-pulse-occupancy-local', CLQ, "      s.enq_rdy = len( s.queue ) < s.queue.maxlen\n      s.deq_rdy = len( s.queue ) > 0",
       "      occupancy = len( s.queue )\n      s.enq_rdy = occupancy < s.queue.maxlen\n      s.deq_rdy = occupancy > 0"),
    _m('cl-deq-via-local', CLQ, "    return s.queue.pop()", "    head = s.queue.pop()\n    return head", None, 'first'),
    _m('cl-enq-conditional-copy-both-arms', CLQ, "    s.queue.appendleft( clone_deepcopy( msg ) )",
       "    s.queue.appendleft( clone_deepcopy( msg ) if hasattr( msg, 'clone' ) else msg.clone() )", None, 'first'),
    _m('cl-guard-ge-1', CLQ, "@non_blocking( lambda s: len( s.queue ) > 0 )\n  def deq", "@non_blocking( lambda s: len( s.queue ) >= 1 )\n  def deq",
       None, 'first'),
    _m('cl-constraint-as-gt', CLQ, "M( s.deq    ) < M( s.enq  )", "M( s.enq  ) > M( s.deq    )"),
    dict(name='cl-ends-switched-consistently', edits=[
        dict(file=CLQ, old="s.queue.appendleft( clone_deepcopy( msg ) )", new="s.queue.append( clone_deepcopy( msg ) )", count='first'),
        dict(file=CLQ, old="return s.queue.pop()", new="return s.queue.popleft()", count='first'),
        dict(file=CLQ, old="return s.queue[-1]", new="return s.queue[0]", count='first')]),
]

LEVEL_TEXT = ("Static analysis of the queue sources: every RTL queue / controller class is parsed, its construct is turned into a "
              "netlist model (connections, //= lambda drivers, @update / @update_ff blocks, sub-components resolved statically) "
              "and the extracted equations are evaluated for one cycle by an abstract evaluator over an exhaustively enumerated "
              "abstract state (reset x every representation-consistent register valuation for capacities 1..4 x every "
              "protocol-legal offer, messages as opaque tokens) and compared with the FIFO specification of the queue kind: "
              "ready/valid equations, occupancy and pointer updates, delivered message and stored sequence after the edge "
              "(which also decides the wrapper / data-path / register-file wiring); the cycle-level queues are decided from their "
              "guards (two-phase evaluation over small integers in every enq/deq order the extracted method constraints allow), "
              "deque ends and method-order constraints; sibling copies are compared with each other; elaboration is checked to be "
              "independent of construction history (module-level helper state) and stored messages to be private copies. It covers all "
              "boundary cases (full/empty, simultaneous enq/deq, non-power-of-two wrap, reset) of the one-step relation, which the "
              "example-based tests do not; it does not execute pymtl3 and does not decide FIFO order over arbitrary histories "
              "or capacities.")
LEVEL_NOTE = ("Trusted: Bits semantics (C04), schedule independence of combinational blocks (C02), flip-flop semantics (C07), data "
              "independence of the data path, small-scope hypothesis n <= 4 (8 in the thorough tier), environments obey en => rdy. Not decided: histories, "
              "CL timing under a concrete schedule, interface adapters, mid-run reset of the 1-entry en/rdy and val/rdy Normal/Pipe "
              "queues (no reset on the full bit). Known finding: BypassQueue2RTL.enq.rdy is low with one of two entries occupied. "
              "valrdy_queues.py cannot be imported today (dead code) but is analysed.")
TECHNIQUE = ("ast extraction of a netlist from construct (connect / //= / lambdas / update blocks, static instantiation through the "
             "loader), finite abstract one-cycle evaluation (bit vectors + opaque tokens) over enumerated representation-consistent "
             "states, comparison with a per-kind FIFO step specification, structural analysis of the CL queues, sibling agreement")

