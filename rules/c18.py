"""C18 -- Magic memories act as one in-order memory whatever the timing parameters.  (DESIGN.md section 4, C18)"""
import ast
import itertools

from sa.astutil import (norm, guards_of, walk_no_nested, always_exits, parent, enclosing, stmt_of,
                        names_in, qualname, subst, Guard)
from sa.c18_util import BV, SB, SymMem, MemView, int_from_bytes, Interp, Closure, strip_doc, decorators, copy_expr
from sa.errors import AnalysisError
from sa.minieval import Raised, Obj
from sa.report import RuleResult

PID = 'C18'
CL = 'pymtl3/stdlib/mem/MagicMemoryCL.py'
FL = 'pymtl3/stdlib/mem/MagicMemoryFL.py'
STREAM = 'pymtl3/stdlib/stream/magic_memory.py'
MSG = 'pymtl3/stdlib/mem/MemMsg.py'
DELAY = 'pymtl3/stdlib/delays/DelayPipeCL.py'
STALL = 'pymtl3/stdlib/delays/StallCL.py'
BYTES = 'pymtl3/extra/pypy/fast_bytearray_funcs.py'

EXPLANATION = (
    "Static analysis (ast only; pymtl3 is never imported or run) of the two magic memories (MagicMemoryCL, "
    "stream/MagicMemoryRTL), MagicMemoryFL, the byte-array helpers, MemMsg and the delay/stall components. "
    "NOT decided: anything that quantifies over request histories, RNG seeds or schedules (in-order delivery through "
    "a concrete run, the final image of a concrete run). Decided necessary conditions, for every port count / "
    "latency / stall setting because they are facts of the code shape: "
    "R-C18-amo-table: MemMsgType codes are distinct 4-bit values; AMO_FUNS has an entry for every AMO_* code and each "
    "entry MEANS the operation (every function is evaluated abstractly over all 64 pairs of 3-bit values -- all signed/"
    "unsigned order types -- against a frozen reference table); MagicMemoryFL.amo = read old, write f(old, data) to the "
    "same bytes, return old. "
    "R-C18-dispatch: in both up_mem blocks the dispatch is partially evaluated for EVERY MemMsgType code: every READ/WRITE/"
    "AMO_* code performs exactly the matching memory call, INV/FLUSH/LR never modify memory; "
    "every READ/WRITE/AMO_* code is routed (tests evaluated per code) to a branch "
    "performing exactly the matching memory call with (addr, decoded length, data[0:8*len]) and the length decode is "
    "len or data_nbits/8 when len==0 (evaluated for every len value at data widths 16..128 incl. 24/40/96, field widths taken "
    "from MemMsg.py, for both ports of a two-port memory with different data widths and -- as mk_mem_msg produces -- equal class "
    "names, with construct-level tables bound, so a per-port quantity looked up by class name is caught); conditions guarding the type dispatch (e.g. an address "
    "range check) are part of the routing: every in-range access (first bytes, ending one before / exactly at the end of the "
    "memory) is served by its branch in BOTH memories. "
    "R-C18-echo: every response constructor passes the request's type_ and opaque (mapped through the MemRespMsg field "
    "order extracted from MemMsg.py), test=0, len=req.len for reads/AMOs, zero-extended read data / old AMO value. "
    "R-C18-pairing: one update_once request-processing block which is the ONLY block that modifies the memory (a store queued "
    "in up_mem and committed by another / a clocked block is not visible to the next request of the same cycle), "
    "one MagicMemoryFL instance built with the wrapper's own mem_nbytes, loop ranges "
    "over exactly 0..nports-1 (evaluated for nports 1..4 and longer message-type lists) and serves ports "
    "independently (no break/return in the port loop, no loop-carried variable), per port i the "
    "request is taken and the memory touched only under a guard implying request-valid AND response-ready of the SAME "
    "index, exactly one response on every path, ports wired index-to-index. "
    "R-C18-endian: read/write byte helpers evaluated over symbolic bytes for 1..8 bytes, for several array sizes len(arr) "
    "(power of two or not, tiny) and aligned / misaligned addresses, touch exactly [addr, addr+nbytes) and are little-endian "
    "inverses; read_mem hands out a copy, never a live view (byte loops, slice assignment, int.to_bytes/from_bytes and memoryview(...).cast() "
    "word views are modelled); a helper that only accepts data of exactly nbytes bytes is accepted iff every caller slices "
    "the data to its low bytes (helper and callers are judged together, also by R-C18-dispatch); "
    "read_mem/write_mem address exactly [addr, addr+size) and write_mem stores EVERY byte of the image (zero bytes included; "
    "slice assignment and enumerate / index loops are evaluated). "
    "R-C18-read-pure: MagicMemoryFL's methods are evaluated on an abstract instance (instance attributes = abstract state, "
    "byte array = versioned opaque image) after every history of <= 2 reads/writes/AMOs/write_mem: read(addr, nbytes) returns "
    "the current bytes [addr, addr+nbytes) and does not modify the image, i.e. it does not depend on state left by earlier calls. "
    "R-C18-purity: delay/stall components store only None or a private copy of the incoming message, never modify or "
    "construct a message, are FIFO shaped (insert slot 0, remove slot -1, rotate only when slot -1 is empty), the RNG "
    "feeds only rdy/val expressions, stall handshakes fire on both sides together, and timing parameters do not reach "
    "up_mem.")
ASSUMPTIONS = [
    "Python int / bytearray / collections.deque semantics (rotate() moves slot -1 to slot 0)",
    "pymtl3 Bits semantics for + & | ^ comparisons .int() .uint() slicing (property C04/C05)",
    "message classes handed to the memories come from mk_mem_msg (field order checked in MemMsg.py)",
    "clone_deepcopy returns an independent equal copy; zext zero-extends",
    "memoryview.cast('H'/'I'/'Q') items are native little-endian 2/4/8-byte integers (little-endian host)",
    "values handed to MagicMemoryFL.write by amo() are at most nbytes bytes wide (sub-word AMOs on wider data are unsupported)",
    "CL method-call scheduling (C02) and update_once/update_ff semantics (C07) are as documented",
    "AMO functions are judged on 3-bit operands; they are width-uniform expressions (no width-dependent constant)",
]

AMO_REF = {   # the specification: new memory value as a function of (old memory value m, request data a)
    'AMO_ADD': lambda m, a: (m.u + a.u) % (1 << m.w),
    'AMO_AND': lambda m, a: m.u & a.u,
    'AMO_OR': lambda m, a: m.u | a.u,
    'AMO_XOR': lambda m, a: m.u ^ a.u,
    'AMO_SWAP': lambda m, a: a.u,
    'AMO_MIN': lambda m, a: m.u if m.int() < a.int() else a.u,
    'AMO_MAX': lambda m, a: m.u if m.int() > a.int() else a.u,
    'AMO_MINU': lambda m, a: min(m.u, a.u),
    'AMO_MAXU': lambda m, a: max(m.u, a.u),
}
REQ_FIELDS = ['type_', 'opaque', 'addr', 'len', 'data']      # documented positional layout of a request
RESP_FIELDS = ['type_', 'opaque', 'test', 'len', 'data']     # ... of a response


def _f_int(x):
    if isinstance(x, (BV, int)):
        return int(x)
    if isinstance(x, SB):
        return x
    raise AnalysisError(f"int() of a value outside the abstract domain: {x!r}")


def _f_min(*a):
    return min(a[0] if len(a) == 1 else a)


def _f_max(*a):
    return max(a[0] if len(a) == 1 else a)


BASE_FUNCS = {'int': _f_int, 'min': _f_min, 'max': _f_max}


# ---------------------------------------------------------------------------
def _memtypes(repo):
    m = repo.mod(MSG)
    c = m.get_class('MemMsgType')
    env, dups = {}, []
    for st in c.body:
        if isinstance(st, ast.Assign) and len(st.targets) == 1 and isinstance(st.targets[0], ast.Name) \
                and not isinstance(st.value, ast.Dict):
            try:
                v = Interp(env).ev(st.value)
            except AnalysisError:
                continue
            if isinstance(v, int) and not isinstance(v, bool):
                env[st.targets[0].id] = v
    for need in ('READ', 'WRITE'):
        if need not in env:
            raise AnalysisError(f"anchor vanished: MemMsgType.{need}")
    if not any(k.startswith('AMO_') for k in env):
        raise AnalysisError("anchor vanished: MemMsgType.AMO_*")
    return m, env


def _msg_fields(repo, maker):
    """(module, function, inner class, [(field, annotation expr)], class-level assigns) of mk_mem_req_msg / mk_mem_resp_msg"""
    m = repo.mod(MSG)
    f = m.functions.get(maker)
    if f is None:
        raise AnalysisError(f"anchor vanished: {maker}")
    classes = [n for n in f.body if isinstance(n, ast.ClassDef)]
    if len(classes) != 1:
        raise AnalysisError(f"{maker}: expected exactly one message class")
    c = classes[0]
    fields = [(st.target.id, st.annotation) for st in c.body if isinstance(st, ast.AnnAssign) and isinstance(st.target, ast.Name)]
    assigns = {st.targets[0].id: st.value for st in c.body if isinstance(st, ast.Assign) and isinstance(st.targets[0], ast.Name)}
    return m, f, c, fields, assigns


def rule_layout(repo):
    r = RuleResult('R-C18-layout', "request/response messages have the documented positional layout; type_ is 4 bits and "
                                   "all MemMsgType codes are distinct 4-bit values; data_nbits is the data width")
    m, types = _memtypes(repo)
    # distinct codes that fit the type_ field
    for name, v in sorted(types.items(), key=lambda kv: kv[1]):
        same = sorted(k for k, x in types.items() if x == v and k != name)
        if same:
            r.bad(m, 'MemMsgType', f'{name} = {v}', f"code {v} is shared by {name} and {', '.join(same)}: requests of one "
                  f"type are executed and answered as the other")
        elif not 0 <= v < 16:
            r.bad(m, 'MemMsgType', f'{name} = {v}', f"code {v} does not fit the 4-bit type_ field")
        else:
            r.ok(m, 'MemMsgType', f'{name} = {v}')
    for maker, want in (('mk_mem_req_msg', REQ_FIELDS), ('mk_mem_resp_msg', RESP_FIELDS)):
        mm, f, c, fields, assigns = _msg_fields(repo, maker)
        got = [n for n, _ in fields]
        if got == want:
            r.ok(mm, maker, 'fields ' + ', '.join(got))
        else:
            r.bad(mm, maker, 'fields ' + ', '.join(got), f"positional layout must be ({', '.join(want)}): messages built "
                  f"positionally put values into the wrong fields", c.lineno)
            continue
        ann = dict(fields)
        dparam = f.args.args[-1].arg
        if 'bitstruct' not in decorators(c):
            r.bad(mm, maker, f'class {c.name}', "message class is not a @bitstruct", c.lineno)
        if norm(ann['type_']) == 'Bits4':
            r.ok(mm, maker, 'type_ : Bits4')
        else:
            r.bad(mm, maker, f"type_ : {norm(ann['type_'])}", "type_ must be 4 bits wide (16 message codes)", c.lineno)
        # data : mk_bits(d) and data_nbits = d
        da = ann['data']
        ok = isinstance(da, ast.Call) and norm(da.func) == 'mk_bits' and len(da.args) == 1 and norm(da.args[0]) == dparam
        dn = assigns.get('data_nbits')
        if ok and dn is not None and norm(dn) == dparam:
            r.ok(mm, maker, f'data : mk_bits({dparam}); data_nbits = {dparam}')
        else:
            r.bad(mm, maker, f"data : {norm(da)}; data_nbits = {norm(dn)}",
                  f"data_nbits must equal the width of the data field ({dparam}): up_mem decodes len==0 as data_nbits/8 bytes",
                  c.lineno)
        # len : enough bits for 0 .. d/8-1  (0 meaning all d/8 bytes)
        la = ann['len']
        if isinstance(la, ast.Call) and norm(la.func) == 'mk_bits' and len(la.args) == 1:
            bad = None
            for d in (8, 16, 32, 64, 128):
                try:
                    w = Interp({dparam: d}, funcs={'clog2': lambda n: (int(n) - 1).bit_length()}).ev(la.args[0])
                except Raised:
                    w = None
                r.evaluations += 1
                if w is None or (d > 8 and (1 << w) < (d >> 3)):
                    bad = (d, w)
                    break
            if bad:
                r.bad(mm, maker, f'len : {norm(la)}', f"for data width {bad[0]} the len field has {bad[1]} bits: byte counts "
                      f"1..{(bad[0] >> 3) - 1} are not all representable", c.lineno)
            else:
                r.ok(mm, maker, f'len : {norm(la)}')
        else:
            raise AnalysisError(f"{maker}: len annotation outside the understood shapes: {norm(la)}")
    r.require_floor(24)
    return r


# ---------------------------------------------------------------------------
def _resolve_fn(mod, e):
    """function value of a dict entry -> Closure / python callable for the abstract evaluation"""
    if isinstance(e, ast.Lambda):
        return Closure(e, {})
    if isinstance(e, ast.Name):
        if e.id in mod.functions:
            return Closure(mod.functions[e.id], {})
        if e.id in mod.assigns and isinstance(mod.assigns[e.id], ast.Lambda):
            return Closure(mod.assigns[e.id], {})
        if e.id in ('min', 'max') and e.id not in mod.imports and e.id not in mod.assigns:
            return BASE_FUNCS[e.id]
    raise AnalysisError(f"AMO function outside the understood shapes: {norm(e)}")


def _amo_table(repo, types):
    fm = repo.mod(FL)
    tab = fm.assigns.get('AMO_FUNS')
    if not isinstance(tab, ast.Dict):
        raise AnalysisError("anchor vanished: AMO_FUNS dictionary in MagicMemoryFL.py")

    def leaf(e):
        if isinstance(e, ast.Attribute) and isinstance(e.value, ast.Name) and e.value.id == 'MemMsgType':
            if e.attr not in types:
                raise AnalysisError(f"unknown MemMsgType.{e.attr}")
            return types[e.attr]
        return NotImplemented
    out = {}
    for k, v in zip(tab.keys, tab.values):
        if k is None:
            raise AnalysisError("AMO_FUNS uses dictionary unpacking")
        kv = Interp({}, funcs=BASE_FUNCS, leaf=leaf).ev(k)
        out[int(kv)] = (k, v)       # later keys overwrite earlier ones, as in Python
    return fm, tab, out


def rule_amo_table(repo):
    r = RuleResult('R-C18-amo-table', "every AMO_* code has an AMO_FUNS entry whose function means the operation "
                                      "(all 3-bit operand pairs); amo() reads old, writes f(old,data), returns old")
    m, types = _memtypes(repo)
    fm, tab, table = _amo_table(repo, types)
    amos = sorted((k for k in types if k.startswith('AMO_')), key=lambda k: types[k])
    W = 3
    for name in amos:
        if name not in AMO_REF:
            raise AnalysisError(f"MemMsgType.{name} has no reference meaning in the checker")
        code = types[name]
        if code not in table:
            r.bad(fm, '<module>', f'AMO_FUNS[{name}]', f"no AMO_FUNS entry for {name} (code {code}): an {name} request "
                  f"raises KeyError / is not executed", tab.lineno)
            continue
        k, v = table[code]
        fn = _resolve_fn(fm, v)
        ref = AMO_REF[name]
        wrong = None
        for mu, au in itertools.product(range(1 << W), repeat=2):
            mm, aa = BV(W, mu), BV(W, au)
            r.evaluations += 1
            try:
                got = Interp({}, funcs=BASE_FUNCS).apply(fn, [mm, aa])
            except Raised as ex:
                got = f'raises {ex.what}'
            exp = ref(mm, aa)
            gv = got.u if isinstance(got, BV) else got
            if isinstance(gv, bool) or gv != exp:
                wrong = (mm, aa, got, exp)
                break
        cons = f'AMO_FUNS[{name}] = {norm(v)}'
        if wrong:
            mm, aa, got, exp = wrong
            r.bad(fm, '<module>', cons, f"{name} with memory value {mm.u:#05b} (signed {mm.int()}) and operand {aa.u:#05b} "
                  f"(signed {aa.int()}) stores {got!r}, the operation requires {exp:#05b}", v.lineno)
        else:
            r.ok(fm, '<module>', cons)
    for code, (k, v) in table.items():
        names = [n for n in amos if types[n] == code]
        if not names:
            r.bad(fm, '<module>', f'AMO_FUNS[{norm(k)}]', f"key {norm(k)} (code {code}) is not an AMO_* message type", k.lineno)
    # MagicMemoryFL.amo: the method is evaluated with recording stand-ins for read / write / the AMO functions
    f = fm.get_func('MagicMemoryFL.amo')
    params = [a.arg for a in f.args.args]
    if len(params) != 5 or f.args.vararg or f.args.kwarg:
        raise AnalysisError("MagicMemoryFL.amo: expected (s, amo, addr, nbytes, data)")
    me = params[0]
    q = 'MagicMemoryFL.amo'
    problems = {}
    for name in amos:
        code = types[name]
        for nb, A in ((1, 1000), (2, 1000), (4, 1000), (8, 1000), (4, 1005), (2, 1003), (8, 1001)):
            ev_log = []
            DATA = ('request data',)

            def h_read(*a, ev_log=ev_log):
                if len(a) == 3:
                    a = a[1:]                       # helper called directly on the bytearray
                tok = ('old', sum(1 for e in ev_log if e[0] == 'read'))
                ev_log.append(('read', int(a[0]), int(a[1]), tok))
                return tok

            def h_write(*a, ev_log=ev_log):
                if len(a) == 4:
                    a = a[1:]
                ev_log.append(('write', int(a[0]), int(a[1]), a[2]))

            def mk(c):
                def fn(m_, a_, ev_log=ev_log, c=c):
                    ev_log.append(('f', c, m_, a_))
                    return ('new', c, m_, a_)
                return fn
            env = {'AMO_FUNS': {c: mk(c) for c in table}, f'{me}.mem': ImgMem()}
            funcs = dict(BASE_FUNCS, **{f'{me}.read': h_read, f'{me}.write': h_write, 'read_bytearray_bits': h_read,
                                        'write_bytearray_bits': h_write})
            it = FnInterp(env, funcs=funcs)
            r.evaluations += 1
            try:
                ret = it.apply(Closure(f, env), [None, BV(4, code), BV(16, A), nb, DATA])
                err = None
            except Raised as ex:
                ret, err = None, ex.what
            ctx = f"{name}, {nb} byte(s) at address {A}"
            reads = [e for e in ev_log if e[0] == 'read']
            writes = [e for e in ev_log if e[0] == 'write']
            fs = [e for e in ev_log if e[0] == 'f']
            if err is not None:
                problems.setdefault('runs', f"{ctx}: raises {err}")
                continue
            if len(reads) != 1 or len(writes) != 1:
                problems.setdefault('once', f"{ctx}: {len(reads)} read(s) and {len(writes)} write(s) of the memory; an atomic "
                                            f"operation is one read of the old value and one write of the result")
                if not reads or not writes:
                    continue
            if reads[0][1:3] != (A, nb) or ev_log.index(reads[0]) > ev_log.index(writes[0]):
                problems.setdefault('read', f"{ctx}: the old value must be read from exactly (addr, nbytes) = ({A}, {nb}) before the store "
                                            f"(no arithmetic on the address other than int()); seen "
                                            f"{[e[:3] for e in ev_log if e[0] != 'f']}")
            if writes[0][1:3] != (A, nb):
                problems.setdefault('write', f"{ctx}: the result is written to {writes[0][1:3]}, must go back to the bytes read "
                                             f"({A}, {nb})")
            if len(fs) != 1 or fs[0][1] != code:
                problems.setdefault('select', f"{ctx}: the function applied is {'none' if not fs else 'the one of code ' + str(fs[0][1])}, "
                                              f"must be AMO_FUNS[{code}]")
            elif fs[0][2:] != (reads[0][3], DATA):
                problems.setdefault('operands', f"{ctx}: the function is applied to {fs[0][2:]}; it must be applied to (old memory "
                                                f"value, request data) -- with swapped/other operands SWAP stores the old value")
            elif writes[0][3] != ('new', code, reads[0][3], DATA):
                problems.setdefault('stored', f"{ctx}: the value stored is {writes[0][3]!r}, must be f(old, data)")
            if ret != reads[0][3]:
                problems.setdefault('returns', f"{ctx}: returns {ret!r}; an atomic operation returns the OLD memory value (the "
                                               f"first value read)")
    for key, cons in (('runs', 'amo() evaluates'), ('once', 'one read, one write'), ('read', 'reads old value at (addr, nbytes) first'),
                      ('write', 'writes back to (addr, nbytes)'), ('select', 'function selected by the amo code'),
                      ('operands', 'f(old, data)'), ('stored', 'stores f(old, data)'), ('returns', 'returns the old value')):
        if 'runs' in problems and key != 'runs':
            continue
        if key in problems:
            r.bad(fm, q, cons, problems[key], f.lineno)
        else:
            r.ok(fm, q, cons)
    r.require_floor(17)
    return r



# ---------------------------------------------------------------------------
# the two up_mem implementations
VARIANTS = [('cl', CL, 'MagicMemoryCL'), ('stream', STREAM, 'MagicMemoryRTL')]
MEM_METHODS = ('read', 'write', 'amo')


class Ctx:
    pass


def _is_fl_ctor(repo, m, call):
    rc = repo.resolve_class(m, call.func)
    return rc is not None and rc[1].name == 'MagicMemoryFL'


def _ctx(repo, rel, cls):
    """facts about one memory's construct()/up_mem, extracted structurally"""
    m = repo.mod(rel)
    con = m.get_func(f'{cls}.construct')
    c = Ctx()
    c.repo = repo
    c.m, c.con, c.cls, c.me = m, con, cls, con.args.args[0].arg
    c.params = [a.arg for a in con.args.args[1:]]
    ctors = [n for n in ast.walk(con) if isinstance(n, ast.Call) and _is_fl_ctor(repo, m, n)]
    c.fl_ctors = ctors
    c.mem = None
    if len(ctors) == 1:
        st = parent(ctors[0])
        if isinstance(st, ast.Assign) and st.value is ctors[0] and parent(st) is con and len(st.targets) == 1 \
                and isinstance(st.targets[0], ast.Attribute) and norm(st.targets[0].value) == c.me:
            c.mem = norm(st.targets[0])
    blocks = [st for st in m._defs_in(con.body) if isinstance(st, ast.FunctionDef)]

    def memcalls(node):
        return [n for n in ast.walk(node) if isinstance(n, ast.Call) and isinstance(n.func, ast.Attribute)
                and n.func.attr in MEM_METHODS and isinstance(n.func.value, ast.Attribute)
                and norm(n.func.value.value) == c.me and not isinstance(parent(n.func.value), ast.Subscript)
                and (c.mem is None or norm(n.func.value) == c.mem or n.func.value.attr.startswith('mem'))]
    c.memcalls = memcalls
    c.blocks = [b for b in blocks if memcalls(b)]
    if not c.blocks:
        raise AnalysisError(f"anchor vanished: no update block of {cls}.construct calls the memory")
    # the request-processing block: the one that decodes request type codes (other blocks touching the memory are judged by
    # R-C18-pairing)
    serving = [b for b in c.blocks if any(isinstance(n, ast.Attribute) and n.attr == 'type_' for n in ast.walk(b))]
    c.up = serving[0] if serving else c.blocks[0]
    c.q = f'{cls}.construct.{c.up.name}'
    body = strip_doc(c.up.body)
    if len(body) != 1 or not isinstance(body[0], ast.For) or not isinstance(body[0].target, ast.Name) or body[0].orelse:
        raise AnalysisError(f"{c.q}: expected a single `for <i> in range(nports)` loop")
    c.loop = body[0]
    c.i = c.loop.target.id
    reqs = sorted({n.value.id for n in ast.walk(c.up) if isinstance(n, ast.Attribute) and n.attr == 'type_'
                   and isinstance(n.value, ast.Name)})
    if len(reqs) != 1:
        raise AnalysisError(f"{c.q}: cannot identify the request variable (candidates {reqs})")
    c.req = reqs[0]
    acq = [n for n in ast.walk(c.loop) if isinstance(n, ast.Assign) and any(isinstance(t, ast.Name) and t.id == c.req for t in n.targets)]
    if len(acq) != 1:
        raise AnalysisError(f"{c.q}: expected exactly one assignment of the request variable `{c.req}`")
    c.acq = acq[0]
    v = c.acq.value
    if isinstance(v, ast.Call) and isinstance(v.func, ast.Attribute) and v.func.attr == 'deq' and not v.args:
        c.kind = 'cl'
        c.req_base = v.func.value                      # s.req_qs[i]
        c.vkeys = [{norm(v.func) + '.rdy()'}]
    elif isinstance(v, ast.Attribute) and v.attr == 'msg':
        c.kind = 'stream'
        c.req_base = v.value                           # s.req_stalls[i].send
        c.vkeys = [{norm(v.value) + '.val'}]
    else:
        raise AnalysisError(f"{c.q}: request acquisition outside the understood shapes: {norm(c.acq)}")
    sinks = []
    for n in walk_no_nested(c.loop):
        if c.kind == 'cl' and isinstance(n, ast.Expr) and isinstance(n.value, ast.Call) \
                and isinstance(n.value.func, ast.Attribute) and n.value.func.attr == 'enq' and len(n.value.args) == 1:
            sinks.append((n, n.value.func.value, n.value.args[0], {norm(n.value.func) + '.rdy()'}))
        if c.kind == 'stream' and isinstance(n, ast.AugAssign) and isinstance(n.op, ast.MatMult) \
                and isinstance(n.target, ast.Attribute) and n.target.attr == 'msg':
            sinks.append((n, n.target.value, n.value, {norm(n.target.value) + '.rdy', norm(c.req_base) + '.rdy'}))
    c.sinks = sinks
    return c


def _chain(c, block):
    """The decision tree on req.type_ in the statement list `block`, flattened: [(test, body)] where `test` is the conjunction
    of the conditions on the path to that arm (so guards enclosing / preceding the type tests, e.g. an address-range check,
    are part of it), the bodies of rejecting else-arms, and the top If node."""
    defs = _up_defs(c)

    def about_type(e):
        return any(isinstance(n, ast.Attribute) and n.attr == 'type_' and norm(n.value) == c.req for n in ast.walk(_expand(e, defs)))

    def has_type_test(st):
        return isinstance(st, ast.If) and any(isinstance(n, ast.If) and about_type(n.test) for n in ast.walk(st))
    tops = [st for st in block if has_type_test(st)]
    if len(tops) != 1:
        raise AnalysisError(f"{c.q}: expected one if/elif decision on {c.req}.type_, found {len(tops)}")
    node = tops[0]
    arms, els = [], []

    def mk(conds, at):
        parts = [t if pol else ast.UnaryOp(op=ast.Not(), operand=t) for t, pol in conds]
        e = parts[0] if len(parts) == 1 else ast.BoolOp(op=ast.And(), values=parts)
        ast.copy_location(e, at)
        ast.fix_missing_locations(e)
        return e

    def leaf(body, conds, at, is_else):
        inner = [st for st in body if has_type_test(st)]
        if len(inner) == 1:
            flat(inner[0], conds)
        elif is_else and always_exits(body):
            els.extend(body)
        else:
            arms.append((mk(conds, at), body))

    def flat(ifnode, conds):
        neg = list(conds)
        cur = ifnode
        while True:
            t = _expand(cur.test, defs)
            ast.copy_location(t, cur.test)
            leaf(cur.body, neg + [(t, True)], cur.test, False)
            neg.append((t, False))
            if len(cur.orelse) == 1 and isinstance(cur.orelse[0], ast.If):
                cur = cur.orelse[0]
            else:
                if cur.orelse:
                    leaf(cur.orelse, neg, cur.test, True)
                return
    flat(node, [])
    if any(x is c.acq for x in block):
        c.pre = block[block.index(c.acq) + 1:block.index(node)] if block.index(c.acq) < block.index(node) else []
    else:
        c.pre = []
    return arms, els, node


def _block_of(c):
    """statement list that contains the acquisition"""
    p = parent(c.acq)
    for fld in ('body', 'orelse'):
        blk = getattr(p, fld, None)
        if isinstance(blk, list) and any(x is c.acq for x in blk):
            return blk
    raise AnalysisError(f"{c.q}: acquisition is not in a plain statement list")


def _type_leaf(c, types, tval):
    def leaf(e):
        if isinstance(e, ast.Attribute):
            if isinstance(e.value, ast.Name) and e.value.id == 'MemMsgType':
                if e.attr not in types:
                    raise AnalysisError(f"unknown MemMsgType.{e.attr}")
                return types[e.attr]
            if e.attr == 'type_' and norm(e.value) == c.req:
                return BV(4, tval)
        return NotImplemented
    return leaf


DEFAULT_SCEN = dict(D=32, lv=0, addr=0)


def _trace(c, types, stmts, tval, scen=None, r=None):
    """The simple statements executed for a request with type code tval (access `scen`), obtained by partially evaluating the
    if-statements of `stmts` whose tests are about the request (type code, address, length): (trace, rejected)."""
    sc = scen or DEFAULT_SCEN
    defs = _up_defs(c)
    out = []

    def run(body):
        for st in body:
            if isinstance(st, ast.If):
                if r is not None:
                    r.evaluations += 1
                v = _len_eval(c, getattr(c, 'pre', []), _expand(st.test, defs), sc['D'], sc['lv'], tval=tval, types=types,
                              addr=sc['addr'])
                if isinstance(v, str):
                    raise AnalysisError(f"{c.q}: dispatch condition does not evaluate ({v}): {norm(st.test)[:80]}")
                if run(st.body if v else st.orelse):
                    return True
            else:
                out.append(st)
                if always_exits([st]):
                    return True
        return False
    rejected = run(stmts)
    return out, rejected


def _calls_in(c, trace):
    return c.memcalls(ast.Module(body=list(trace), type_ignores=[]))


def _route(c, types, arms, tval, r=None, scen=None):
    """index of the arm taken for type code tval (and, for arms guarded by address / length conditions, the access described
    by `scen`: data width D, len field lv, address addr), or None for the rejecting else arm"""
    sc = scen or DEFAULT_SCEN
    for k, (test, body) in enumerate(arms):
        if r is not None:
            r.evaluations += 1
        v = _len_eval(c, getattr(c, 'pre', []), test, sc['D'], sc['lv'], tval=tval, types=types, addr=sc['addr'])
        if isinstance(v, str):
            raise AnalysisError(f"{c.q}: dispatch condition does not evaluate ({v}): {norm(test)[:80]}")
        if v:
            return k
    return None


def _mem_size(c):
    """the number of bytes the memory is built with (value of the MagicMemoryFL constructor argument under the defaults of
    construct's parameters), or None"""
    if len(c.fl_ctors) != 1 or len(c.fl_ctors[0].args) != 1:
        return None
    try:
        v = Interp(_param_defaults(c), funcs=BASE_FUNCS).ev(c.fl_ctors[0].args[0])
    except (AnalysisError, Raised):
        return None
    return v if isinstance(v, int) and not isinstance(v, bool) else None


def _param_defaults(c):
    out = {}
    a = c.con.args
    for p, d in zip(a.args[len(a.args) - len(a.defaults):], a.defaults):
        try:
            out[p.arg] = Interp({}, funcs=BASE_FUNCS).ev(d)
        except (AnalysisError, Raised):
            pass
    return out


DATA_WIDTHS = (16, 24, 32, 40, 64, 96, 128)      # data widths for which the length decoding is evaluated


def _len_width(c, D):
    """width of the request's len field for data width D, from the annotation in mk_mem_req_msg"""
    cache = c.repo.__dict__.setdefault('_c18_cache', {})
    if ('lenw', D) not in cache:
        w = None
        try:
            mm, f, cls_, fields, assigns = _msg_fields(c.repo, 'mk_mem_req_msg')
            la = dict(fields).get('len')
            if isinstance(la, ast.Call) and norm(la.func) == 'mk_bits' and len(la.args) == 1:
                w = Interp({f.args.args[-1].arg: D}, funcs={'clog2': lambda n: (int(n) - 1).bit_length()}).ev(la.args[0])
        except (AnalysisError, Raised):
            w = None
        cache[('lenw', D)] = w if isinstance(w, int) and w >= 1 else max(1, ((D >> 3) - 1).bit_length())
    return cache[('lenw', D)]


def _port_classes(c, D, port):
    """abstract (request classes, response classes) of a two-port memory whose port `port` carries D-bit data and whose other
    port carries 2*D-bit data; the class names are those mk_mem_req_msg / mk_mem_resp_msg give their classes (the same name
    for every width -- taken from MemMsg.py)"""
    names = []
    for maker in ('mk_mem_req_msg', 'mk_mem_resp_msg'):
        names.append(_msg_fields(c.repo, maker)[2].name)
    widths = [D, 2 * D] if port == 0 else [2 * D, D]
    return ([Obj('reqcls', __name__=names[0], data_nbits=w) for w in widths],
            [Obj('respcls', __name__=names[1], data_nbits=w) for w in widths])


def _len_eval(c, pre, expr, D, lv, tval=None, types=None, addr=0, port=0):
    """value of `expr` after the length-decoding statements `pre`, for req.len == lv and data width D (and, when given,
    req.type_ == tval, req.addr == addr), evaluated for port `port` of a two-port memory whose other port is 2*D bits wide"""
    lenw = _len_width(c, D)
    reqcls, respcls = _port_classes(c, D, port)

    def leaf(e):
        if isinstance(e, ast.Call) and norm(e.func) == 'type' and len(e.args) == 1 and norm(e.args[0]) == c.req:
            return reqcls[port]
        if isinstance(e, ast.Attribute):
            if e.attr == '__class__' and norm(e.value) == c.req:
                return reqcls[port]
            if types is not None and isinstance(e.value, ast.Name) and e.value.id == 'MemMsgType':
                if e.attr not in types:
                    raise AnalysisError(f"unknown MemMsgType.{e.attr}")
                return types[e.attr]
            if tval is not None and e.attr == 'type_' and norm(e.value) == c.req:
                return BV(4, tval)
            if e.attr == 'addr' and norm(e.value) == c.req:
                return BV(32, addr)
            if e.attr == 'len' and norm(e.value) == c.req:
                return BV(lenw, lv)
            if e.attr == 'data_nbits' and (c.i in names_in(e.value) or c.req in names_in(e.value)):
                return D
            if e.attr == 'data_nbits' and isinstance(e.value, ast.Subscript) and isinstance(e.value.slice, ast.Constant):
                return D * 2      # the width of some OTHER, fixed port: in general different from this port's width
        return NotImplemented
    # backward slice: only the statements that influence `expr` are executed (unrelated helper locals are skipped)
    need = {n.id for n in ast.walk(expr) if isinstance(n, ast.Name)}
    keep = []
    for st in reversed(list(pre)):
        stored = {n.id for n in ast.walk(st) if isinstance(n, ast.Name) and isinstance(n.ctx, ast.Store)}
        if stored & need:
            keep.append(st)
            need |= {n.id for n in ast.walk(st) if isinstance(n, ast.Name) and isinstance(n.ctx, ast.Load)}
    pre = list(reversed(keep))
    it = Interp(_param_defaults(c), funcs=BASE_FUNCS, leaf=leaf)
    it.env[c.i] = port
    for st in c.con.body:       # the per-port class lists built from the (request class, response class) pairs
        if isinstance(st, ast.Assign) and len(st.targets) == 1 and isinstance(st.targets[0], ast.Name):
            pos = _pair_pos(c, st.targets[0])
            if pos is not None:
                it.env[st.targets[0].id] = (reqcls, respcls)[pos]
    # closure variables of the update block: resolve them from the enclosing construct()
    try:
        cons_f = c.m.get_func(c.q.split('.')[0] + '.construct')
    except Exception:
        cons_f = None
    if cons_f is not None:
        assigned = {n.id for st in pre for n in ast.walk(st) if isinstance(n, ast.Name) and isinstance(n.ctx, ast.Store)}
        used = {n.id for st in list(pre) + [expr] for n in ast.walk(st) if isinstance(n, ast.Name) and isinstance(n.ctx, ast.Load)}
        for nm in sorted(used - assigned - set(it.env)):
            defs = [st for st in cons_f.body if isinstance(st, ast.Assign) and len(st.targets) == 1 and norm(st.targets[0]) == nm]
            if len(defs) == 1:
                try:
                    it.env[nm] = it.ev(defs[0].value)
                except Exception:
                    pass
    kind, v = it.run(pre)
    if kind != 'fall':
        return f'{kind} {v}'
    try:
        return it.ev(expr)
    except Raised as ex:
        return f'raises {ex.what}'


def _expected_kind(name):
    return 'read' if name == 'READ' else 'write' if name == 'WRITE' else 'amo' if name.startswith('AMO_') else None


def _strip_int(e):
    while isinstance(e, ast.Call) and norm(e.func) == 'int' and len(e.args) == 1:
        e = e.args[0]
    return e


def _local_defs(scope, exclude=()):
    """helper locals: names assigned exactly once inside `scope`, by a plain `name = expr`"""
    cnt, val = {}, {}
    for n in ast.walk(scope):
        if isinstance(n, ast.Name) and isinstance(n.ctx, ast.Store):
            cnt[n.id] = cnt.get(n.id, 0) + 1
        if isinstance(n, ast.Assign) and len(n.targets) == 1 and isinstance(n.targets[0], ast.Name):
            val[n.targets[0].id] = n.value
    return {k: v for k, v in val.items() if cnt.get(k) == 1 and k not in exclude}


def _deref(e, defs):
    """the defining expression (original node) of a helper local, else e"""
    seen = set()
    while isinstance(e, ast.Name) and e.id in defs and e.id not in seen:
        seen.add(e.id)
        e = defs[e.id]
    return e


def _expand(e, defs):
    """copy of e with helper locals replaced by their defining expressions"""
    for _ in range(4):
        if not (names_in(e) & set(defs)):
            break
        e = copy_expr(e, defs)
    return e


def _up_defs(c):
    if getattr(c, '_defs', None) is None:
        rv = c.sinks[0][2].id if len(c.sinks) == 1 and isinstance(c.sinks[0][2], ast.Name) else None
        c._defs = _local_defs(c.loop, {c.req, c.i, rv})
    return c._defs


def rule_dispatch(repo):
    r = RuleResult('R-C18-dispatch', "every READ/WRITE/AMO_* code reaches a branch doing exactly the matching memory call on "
                                     "(addr, decoded byte count, low bytes of data); len==0 decodes to data_nbits/8")
    _, types = _memtypes(repo)
    fm = repo.mod(FL)
    sig = {}
    for meth, n in (('read', 2), ('write', 3), ('amo', 4)):
        f = fm.get_func(f'MagicMemoryFL.{meth}')
        if len(f.args.args) != n + 1 or f.args.vararg or f.args.kwarg:
            raise AnalysisError(f"MagicMemoryFL.{meth}: unexpected signature")
        sig[meth] = [a.arg for a in f.args.args[1:]]
    for vname, rel, cls in VARIANTS:
        c = _ctx(repo, rel, cls)
        blk = _block_of(c)
        arms, els, chain = _chain(c, blk)
        ai, ci = blk.index(c.acq), blk.index(chain)
        if ai > ci:
            raise AnalysisError(f"{c.q}: request acquired after it is decoded")
        pre = blk[ai + 1:ci]
        # 1. routing: the dispatch is partially evaluated for EVERY message code of MemMsgType
        N = _mem_size(c)
        for name, code in sorted(types.items(), key=lambda kv: kv[1]):
            want = _expected_kind(name)
            trace, rejected = _trace(c, types, [chain], code, None, r)
            calls = _calls_in(c, trace)
            kinds = sorted({x.func.attr for x in calls})
            cons = f'{name} -> ' + ('rejected' if rejected else ', '.join(norm(x)[:60] for x in calls) or 'no memory access')
            if want is None:
                # codes without a memory semantics here: must not modify the memory unless they are a kind of store
                if not rejected and name not in ('WRITE_INIT', 'SC') and set(kinds) & {'write', 'amo'}:
                    r.bad(c.m, c.q, cons, f"a {name} request (code {code}) modifies the memory ({', '.join(kinds)}) with its "
                          f"don't-care address/data fields: only WRITE / WRITE_INIT / AMO requests may change memory contents",
                          calls[0].lineno)
                else:
                    r.ok(c.m, c.q, cons, nontrivial=not rejected)
                continue
            if rejected:
                r.bad(c.m, c.q, f'{name} not handled', f"a {name} request (code {code}) falls into the else/assert arm: it is "
                      f"never executed against the memory", chain.lineno)
                continue
            if kinds != [want]:
                aside = [norm(x)[:70] for x in trace if isinstance(x, ast.Expr) and isinstance(x.value, ast.Call)
                         and c.req in names_in(x) and not c.memcalls(x) and not any(x is s_[0] for s_ in c.sinks)]
                r.bad(c.m, c.q, cons, f"a {name} request must perform exactly one s.mem.{want}(...) before the next request is "
                      f"processed; it performs {kinds or 'no memory access'}"
                      + (f" and hands the request's fields to `{aside[0]}` instead (a deferred store is invisible to requests "
                         f"processed later in the same cycle)" if aside else ''), chain.lineno)
                continue
            if len(calls) != 1:
                r.bad(c.m, c.q, cons, f"{len(calls)} memory accesses are performed for one request", calls[0].lineno)
                continue
            # every in-range access is served the same way, whatever its address / length (both memories therefore agree on
            # which accesses they serve): first bytes, and accesses ending one byte before / exactly at the end
            dropped = None
            if N is not None:
                for lv, nb in ((0, 4), (1, 1), (3, 3)):
                    for addr in (0, N - nb - 1, N - nb):
                        t2, rej2 = _trace(c, types, [chain], code, dict(D=32, lv=lv, addr=addr), r)
                        if ([id(x) for x in t2], rej2) != ([id(x) for x in trace], rejected) and dropped is None:
                            dropped = (addr, nb, t2, rej2)
            if dropped:
                addr, nb, t2, rej2 = dropped
                where = 'rejected' if rej2 else ('answered by `' + norm(t2[-1])[:70] + '`' if t2 else 'ignored')
                r.bad(c.m, c.q, cons, f"a {name} request of {nb} byte(s) at address {addr:#x} lies inside the memory of {N:#x} bytes "
                      f"(last byte {addr + nb - 1:#x}) but is {where} instead of being executed: an in-range access "
                      f"must always be served (the sibling memory serves it, so the two memories disagree)", chain.lineno)
                continue
            r.ok(c.m, c.q, cons)
        # 2. arguments of each memory call (once per call site)
        for call in c.memcalls(chain):
            meth = call.func.attr
            names = sig[meth]
            if call.keywords:
                byname = {kw.arg: kw.value for kw in call.keywords}
                args = list(call.args) + [byname.get(n) for n in names[len(call.args):]]
            else:
                args = list(call.args)
            cons = norm(call)
            if len(args) != len(names) or any(a is None for a in args):
                r.bad(c.m, c.q, cons, f"s.mem.{meth} takes ({', '.join(names)})", call.lineno)
                continue
            roles = {'read': ['addr', 'n'], 'write': ['addr', 'n', 'data'], 'amo': ['type', 'addr', 'n', 'data']}[meth]
            problems = []
            defs = _up_defs(c)
            for role, a in zip(roles, args):
                if role != 'n':
                    a = _deref(_strip_int(_deref(a, defs)), defs)
                if role == 'addr':
                    if norm(_strip_int(a)) != f'{c.req}.addr':
                        problems.append(f"address argument is {norm(a)}, must be {c.req}.addr")
                elif role == 'type':
                    if norm(_strip_int(a)) != f'{c.req}.type_':
                        problems.append(f"operation argument is {norm(a)}, must be {c.req}.type_")
                elif role == 'n':
                    # evaluated for both ports of a two-port memory whose ports carry DIFFERENT data widths (D and 2*D) but
                    # whose message classes have the same name: a per-port quantity must be found through the port
                    for D, port in itertools.product(DATA_WIDTHS, (0, 1)):
                        for lv in range(D >> 3):
                            r.evaluations += 1
                            got = _len_eval(c, pre, a, D, lv, port=port)
                            exp = lv if lv else D >> 3
                            if isinstance(got, BV):
                                got = got.u
                            if got != exp:
                                other = ''
                                if got == (2 * D) >> 3 and not lv:
                                    other = (f" -- this is the full width of the OTHER port ({2 * D} bits): a per-port quantity is "
                                             f"looked up through something that is not unique per port (all request classes are "
                                             f"named {_port_classes(c, D, port)[0][0].fields['__name__']}; use the port index)")
                                problems.append(f"byte count is {got} for len={lv} on port {port} with {D}-bit data, must be {exp}"
                                                + other)
                                break
                        else:
                            continue
                        break
                elif role == 'data':
                    b = a
                    if meth == 'write' and isinstance(b, ast.Subscript) and isinstance(b.slice, ast.Slice):
                        sl = b.slice
                        if norm(b.value) != f'{c.req}.data' or sl.step is not None:
                            problems.append(f"data argument is {norm(a)}, must be the low bytes of {c.req}.data")
                        else:
                            done = False
                            for D in DATA_WIDTHS:
                                for lv in range(D >> 3):
                                    r.evaluations += 2
                                    lo = 0 if sl.lower is None else _len_eval(c, pre, sl.lower, D, lv)
                                    hi = D if sl.upper is None else _len_eval(c, pre, sl.upper, D, lv)
                                    nb = lv if lv else D >> 3
                                    if (lo, hi) != (0, 8 * nb):
                                        problems.append(f"data slice is [{lo}:{hi}] for a {nb}-byte write, must be [0:{8 * nb}]")
                                        done = True
                                        break
                                if done:
                                    break
                    elif norm(b) != f'{c.req}.data':
                        problems.append(f"data argument is {norm(a)}, must be {c.req}.data")
                    elif meth == 'write' and not _write_helper_on_wide_data(repo):
                        problems.append(f"the whole data field is handed to the memory although only the decoded byte count is "
                                        f"written, and write_bytearray_bits does not cut a wider value down to its low bytes: "
                                        f"the data must be confined to {c.req}.data[0:8*len] (a sub-word write with non-zero "
                                        f"upper data bytes raises / corrupts memory)")
            if problems:
                r.bad(c.m, c.q, cons, '; '.join(problems) + " -- the request touches other bytes / other data than it names",
                      call.lineno)
            else:
                r.ok(c.m, c.q, cons)
    # 3. MagicMemoryFL forwards (the one bytearray, addr, nbytes[, data]) to the byte helpers: the methods of a fresh abstract
    #    instance are evaluated with recording stand-ins for the helpers, for every byte count 1..8 at two alignments
    for meth, helper in (('read', 'read_bytearray_bits'), ('write', 'write_bytearray_bits')):
        f = fm.get_func(f'MagicMemoryFL.{meth}')
        ps = [a.arg for a in f.args.args]
        q = f'MagicMemoryFL.{meth}'
        rr = repo.resolve(fm, helper)
        if rr is None or rr[0].rel != BYTES:
            r.bad(fm, q, helper, f"{helper} does not resolve to {BYTES}", f.lineno)
            continue
        bad = None
        for base, nb in itertools.product((1000, 1003), range(1, 9)):
            inst = FLInstance(repo)
            DATA = SB([f'D{k}' for k in range(nb)])
            r.evaluations += 1
            try:
                got = inst.call(meth, [BV(16, base), nb] + ([DATA] if meth == 'write' else []))
                err = None
            except Raised as ex:
                got, err = None, ex.what
            rec = [e for e in inst.log if e[0] == meth]
            other = [e for e in inst.log if e[0] != meth]
            if err is not None:
                bad = f"addr={base}, nbytes={nb}: raises {err}"
            elif len(rec) != 1 or other:
                bad = f"addr={base}, nbytes={nb}: {helper} is called {len(rec)} times" + \
                      (f" and the memory is also {other[0][0]}-accessed" if other else '')
            else:
                e = rec[0]
                if e[1] is not inst.img:
                    bad = f"addr={base}, nbytes={nb}: {helper} is not applied to the backing bytearray"
                elif (e[2], e[3]) != (base, nb):
                    bad = f"addr={base}, nbytes={nb}: {helper} receives (addr, nbytes) = ({e[2]}, {e[3]})"
                elif meth == 'write' and not (isinstance(e[4], SB) and e[4] == DATA):
                    bad = f"addr={base}, nbytes={nb}: {helper} receives other data than the caller's"
                elif meth == 'read' and got != ReadVal(base, nb, 0):
                    bad = f"addr={base}, nbytes={nb}: read returns {got!r}, not the helper's value unchanged"
            if bad:
                break
        cons = f'{helper}({ps[0]}.{FLInstance(repo).store_attr}, {", ".join(ps[1:])})'
        if bad:
            r.bad(fm, q, cons, bad + f" -- address / byte count / data must reach {helper} unchanged", f.lineno)
        else:
            r.ok(fm, q, cons)
    r.require_floor(40)
    return r



# ---------------------------------------------------------------------------
def _resp_var(c):
    """name carried to the response sink and the constructor calls assigned to it"""
    if len(c.sinks) != 1:
        return None, []
    val = c.sinks[0][2]
    if not isinstance(val, ast.Name):
        raise AnalysisError(f"{c.q}: response sink does not send a local variable: {norm(c.sinks[0][0])}")
    ctors = [n for n in walk_no_nested(c.loop) if isinstance(n, ast.Assign) and
             any(isinstance(t, ast.Name) and t.id == val.id for t in n.targets)]
    return val.id, ctors


def _pair_pos(c, e):
    """0 / 1 when the local list `e` is built as [x for (x, y) in <pairs>] / [y for (x, y) in <pairs>] (request / response
    classes of the (req, resp) pairs returned by mk_mem_msg), else None"""
    if not isinstance(e, ast.Name):
        return None
    defs = [st for st in c.con.body if isinstance(st, ast.Assign) and any(isinstance(t, ast.Name) and t.id == e.id for t in st.targets)]
    if len(defs) != 1 or not isinstance(defs[0].value, ast.ListComp) or len(defs[0].value.generators) != 1:
        return None
    lc = defs[0].value
    g = lc.generators[0]
    if g.ifs or not isinstance(g.target, ast.Tuple) or len(g.target.elts) != 2 or not isinstance(lc.elt, ast.Name):
        return None
    names = [norm(x) for x in g.target.elts]
    return names.index(lc.elt.id) if lc.elt.id in names else None


def _field_args(call, order):
    """constructor arguments by field name"""
    out = {}
    if len(call.args) > len(order):
        return None
    for n, a in zip(order, call.args):
        out[n] = a
    for kw in call.keywords:
        if kw.arg is None or kw.arg in out or kw.arg not in order:
            return None
        out[kw.arg] = kw.value
    return out


def rule_echo(repo):
    r = RuleResult('R-C18-echo', "every response carries the request's type_ and opaque, test=0, len=req.len for reads/AMOs, "
                                 "and the zero-extended read data / old AMO value")
    _, types = _memtypes(repo)
    _, _, _, rf, _ = _msg_fields(repo, 'mk_mem_resp_msg')
    order = [n for n, _ in rf]
    for need in ('type_', 'opaque', 'len', 'data'):
        if need not in order:
            raise AnalysisError(f"anchor vanished: MemRespMsg.{need}")
    for vname, rel, cls in VARIANTS:
        c = _ctx(repo, rel, cls)
        blk = _block_of(c)
        arms, els, chain = _chain(c, blk)
        rv, ctors = _resp_var(c)
        if rv is None:
            raise AnalysisError(f"{c.q}: no unique response sink (R-C18-pairing reports it)")
        # request / response objects are not modified; nothing but length decode, dispatch and the send touches them
        touched = []
        for n in ast.walk(c.loop):
            tg = n.targets if isinstance(n, ast.Assign) else [n.target] if isinstance(n, (ast.AugAssign, ast.AnnAssign)) else []
            for t in tg:
                cur = t
                while isinstance(cur, (ast.Attribute, ast.Subscript)):
                    cur = cur.value
                if isinstance(t, (ast.Attribute, ast.Subscript)) and isinstance(cur, ast.Name) and cur.id in (c.req, rv):
                    touched.append(n)
        sink = c.sinks[0][0]
        if any(x is sink for x in blk):
            ai, ci, si = blk.index(c.acq), blk.index(chain), blk.index(sink)
            for st in blk[ci + 1:si] + blk[si + 1:]:
                if names_in(st) & {c.req, rv} or c.memcalls(st):
                    touched.append(st)
        for n in touched:
            r.bad(c.m, c.q, norm(n)[:90], "the request / response is modified outside its constructor (or the memory is accessed "
                  "again) after the dispatch: the response no longer echoes the request", n.lineno)
        if not touched:
            r.ok(c.m, c.q, f'{c.req} / {rv} are never modified in place')
        # which response constructor answers which message code (the dispatch is partially evaluated per code)
        routed, traces = {}, {}
        for name, code in types.items():
            trace, rejected = _trace(c, types, [chain], code, None, r)
            finals = [x for x in trace if isinstance(x, ast.Assign) and any(isinstance(t, ast.Name) and t.id == rv for t in x.targets)]
            if not rejected and finals:
                routed.setdefault(id(finals[-1]), []).append((name, code))
                traces.setdefault(id(finals[-1]), []).extend(trace)
        for st in ctors:
            call = st.value
            cons = norm(st)
            if not isinstance(call, ast.Call):
                r.bad(c.m, c.q, cons, "response is not built by a response-class constructor call", st.lineno)
                continue
            if not any(st is n for n in ast.walk(chain)):
                raise AnalysisError(f"{c.q}: response built outside the type dispatch: {cons}")
            k = id(st)
            fa = _field_args(call, order)
            callee = call.func
            if not (isinstance(callee, ast.Subscript) and _pair_pos(c, callee.value) == 1):
                r.bad(c.m, c.q, cons, f"response is built with {norm(callee)}, not with the port's response class", st.lineno)
                continue
            if fa is None or set(fa) != set(order):
                r.bad(c.m, c.q, cons, f"constructor arguments do not cover the fields ({', '.join(order)})", st.lineno)
                continue
            defs = _up_defs(c)
            fa = {k2: _deref(v2, defs) for k2, v2 in fa.items()}
            here = routed.get(k, [])
            if not here:
                continue              # answers no message code (e.g. an out-of-range acknowledge): nothing to echo-check
            problems = []
            for name, code in here:
                r.evaluations += 1
                try:
                    tv = Interp({}, funcs=BASE_FUNCS, leaf=_type_leaf(c, types, code)).ev(fa['type_'])
                except AnalysisError:
                    tv = None
                if tv is None or isinstance(tv, bool) or int(tv) != code:
                    problems.append(f"type_ of the response to a {name} request is {norm(fa['type_'])}"
                                    f"{'' if tv is None else ' = ' + str(int(tv))}, must echo {c.req}.type_ ({code})")
                    break
            if norm(fa['opaque']) != f'{c.req}.opaque':
                problems.append(f"opaque is {norm(fa['opaque'])}, must echo {c.req}.opaque (the requester matches responses by it)")
            if 'test' in fa and not (isinstance(fa['test'], ast.Constant) and fa['test'].value == 0 and not isinstance(fa['test'].value, bool)):
                problems.append(f"test field is {norm(fa['test'])}, must be 0")
            kinds = {_expected_kind(n) for n, _ in here}
            calls = _calls_in(c, traces.get(k, []))
            if kinds & {'read', 'amo'}:
                if norm(fa['len']) != f'{c.req}.len':
                    problems.append(f"len is {norm(fa['len'])}, a read/AMO response must return {c.req}.len")
                d = fa['data']
                if 'read' in kinds:
                    inner = d
                    if isinstance(d, ast.Call) and norm(d.func) == 'zext' and len(d.args) == 2 and not d.keywords:
                        inner = _deref(d.args[0], defs)
                        if not (isinstance(_deref(d.args[1], defs), ast.Attribute) and _deref(d.args[1], defs).attr == 'data_nbits'):
                            problems.append(f"read data is extended to {norm(d.args[1])}, must be the data width")
                    if not (isinstance(inner, ast.Call) and any(inner is x for x in calls) and inner.func.attr == 'read'):
                        problems.append(f"read data is {norm(d)[:60]}, must be the zero-extended value read from memory "
                                        f"(a sub-word read returns the bytes in the low positions, zeros above)")
                else:
                    if not (isinstance(d, ast.Call) and any(d is x for x in calls) and d.func.attr == 'amo'):
                        problems.append(f"AMO data is {norm(d)[:60]}, must be the value returned by s.mem.amo (the old value)")
            elif 'write' in kinds:
                for fld in ('len', 'data'):
                    if not (isinstance(fa[fld], ast.Constant) and fa[fld].value == 0 and not isinstance(fa[fld].value, bool)):
                        problems.append(f"{fld} of a write response is {norm(fa[fld])}, must be 0")
            if problems:
                r.bad(c.m, c.q, cons, '; '.join(problems), st.lineno)
            else:
                for name, code in sorted(here, key=lambda x: x[1]):      # one obligation per answered message code
                    r.ok(c.m, c.q, f'{name}: {cons}')
    r.require_floor(26)
    return r



# ---------------------------------------------------------------------------
def _bool_atoms(e, out):
    if isinstance(e, ast.BoolOp):
        for v in e.values:
            _bool_atoms(v, out)
    elif isinstance(e, ast.UnaryOp) and isinstance(e.op, (ast.Not, ast.Invert)):
        _bool_atoms(e.operand, out)
    elif isinstance(e, ast.BinOp) and isinstance(e.op, (ast.BitAnd, ast.BitOr, ast.BitXor)):
        _bool_atoms(e.left, out)
        _bool_atoms(e.right, out)
    elif isinstance(e, ast.Constant):
        pass
    else:
        out.add(norm(e))


def _implication(guards, required, r):
    """None if, for every valuation of the Boolean atoms of the guards, `all guards hold` implies that for every set in
    `required` at least one of its atoms is true; otherwise a counterexample valuation (dict)"""
    req_all = set().union(*required) if required else set()
    gs = []
    for g in guards:
        at = set()
        _bool_atoms(g.test, at)
        if at & req_all:
            gs.append((g, at))
    atoms = sorted(set().union(*[a for _, a in gs])) if gs else []
    if len(atoms) > 14:
        raise AnalysisError("guard with too many atoms for the Boolean enumeration")
    for vals in itertools.product((0, 1), repeat=len(atoms)):
        val = dict(zip(atoms, vals))

        def leaf(e):
            k = norm(e)
            if k in val and not isinstance(e, ast.Constant):
                return BV(1, val[k])
            return NotImplemented
        ok = True
        for g, _ in gs:
            r.evaluations += 1
            if bool(Interp({}, leaf=leaf).ev(g.test)) != g.polarity:
                ok = False
                break
        if ok and not all(any(val.get(k) for k in alt) for alt in required):
            return {k: bool(v) for k, v in val.items()}
    return None


def _containers(c):
    """per-port lists built in construct by a list comprehension: name -> (ListComp, element class name or None)"""
    out = {}
    for st in c.con.body:
        if isinstance(st, ast.Assign) and isinstance(st.value, ast.ListComp):
            elt = st.value.elt
            cname = norm(elt.func) if isinstance(elt, ast.Call) else None
            for t in st.targets:
                out[norm(t)] = (st.value, cname)
    return out


def _endpoint(e, conts):
    """(container, index text, tail) of a connect operand like s.req_stalls[i].send.rdy"""
    tail = []
    cur = e
    while isinstance(cur, ast.Attribute):
        tail.append(cur.attr)
        cur = cur.value
    if isinstance(cur, ast.Subscript) and norm(cur.value) in conts and not isinstance(cur.slice, ast.Slice):
        return norm(cur.value), norm(cur.slice), '.'.join(reversed(tail))
    return None


def _connects(c):
    """[(loop var or None, lhs expr, rhs expr, stmt)] for connect()/`//=` statements of construct (top level and for-loops)"""
    out = []

    def scan(stmts, var, defs):
        for st in stmts:
            if isinstance(st, ast.AugAssign) and isinstance(st.op, ast.FloorDiv):
                out.append((var, _expand(st.target, defs), _expand(st.value, defs), st))
            elif isinstance(st, ast.Expr) and isinstance(st.value, ast.Call) and norm(st.value.func) == 'connect' \
                    and len(st.value.args) == 2:
                out.append((var, _expand(st.value.args[0], defs), _expand(st.value.args[1], defs), st))
            elif isinstance(st, ast.For) and isinstance(st.target, ast.Name):
                # helper locals of the loop body (`q = s.resp_qs[i]`) stand for their defining expressions
                scan(st.body, (st.target.id, st), _local_defs(st, {st.target.id}))
    scan(c.con.body, None, {})
    return out


def _visits(c, it_expr, n, r, L=None):
    """ports visited by the loop for nports == n (and a per-port type list with L entries, default n)"""
    env = {p: n for p in c.params}
    # the parameter(s) holding the (request class, response class) pairs: a list of L pairs
    for st in c.con.body:
        if isinstance(st, ast.Assign) and isinstance(st.value, ast.ListComp) and len(st.value.generators) == 1:
            it0 = st.value.generators[0].iter
            if isinstance(it0, ast.Name) and it0.id in c.params and isinstance(st.value.generators[0].target, ast.Tuple):
                env[it0.id] = [(('req', k), ('resp', k)) for k in range(n if L is None else L)]
    funcs = dict(BASE_FUNCS, len=len)

    def resolve(target_text):
        defs = [st for st in c.con.body if isinstance(st, ast.Assign) and any(norm(t) == target_text for t in st.targets)]
        if len(defs) == 1:
            v = defs[0].value
            try:
                return Interp(dict(env), funcs=funcs, leaf=leaf).ev(v)
            except AnalysisError:
                if not isinstance(v, ast.ListComp):
                    raise
                # a per-port list of components: only its length matters here
                shell = ast.ListComp(elt=ast.Constant(value=None), generators=v.generators)
                return Interp(dict(env), funcs=funcs, leaf=leaf).ev(ast.copy_location(shell, v))
        raise AnalysisError(f"cannot resolve {target_text} in {c.cls}.construct")

    def leaf(e):
        if isinstance(e, ast.Attribute) and norm(e.value) == c.me:
            return resolve(norm(e))
        if isinstance(e, ast.Name) and isinstance(e.ctx, ast.Load) and e.id not in env and e.id not in funcs \
                and e.id not in ('range', 'reversed', 'True', 'False', 'None'):
            if any(isinstance(st, ast.Assign) and any(norm(t) == e.id for t in st.targets) for st in c.con.body):
                return resolve(e.id)
        return NotImplemented
    r.evaluations += 1
    return Interp(dict(env), funcs=funcs, leaf=leaf).iter_values(it_expr)


def rule_pairing(repo):
    r = RuleResult('R-C18-pairing', "one update_once block and one memory; each port visited once; request taken / memory touched / "
                                    "response sent only when request-valid and response-ready of the same port; one response per "
                                    "request on every path; ports wired index to index")
    for vname, rel, cls in VARIANTS:
        c = _ctx(repo, rel, cls)
        conts = _containers(c)
        # P1 one memory
        cq = f'{cls}.construct'
        if c.mem is not None:
            r.ok(c.m, cq, f'{c.mem} = MagicMemoryFL(...) (single instance)')
        else:
            r.bad(c.m, cq, f'{len(c.fl_ctors)} MagicMemoryFL constructions', "all ports must share exactly one MagicMemoryFL "
                  "instance created once in construct (a per-port or re-created memory loses writes of other ports)", c.con.lineno)
        # P1b the wrapper hands its own same-named construct parameters (mem_nbytes) to the FL memory it builds
        flc = repo.mod(FL).get_func('MagicMemoryFL.construct')
        fl_params = [a.arg for a in flc.args.args[1:]]
        for ct in c.fl_ctors:
            bound = {}
            for pn, a in zip(fl_params, ct.args):
                bound[pn] = a
            for kw in ct.keywords:
                if kw.arg is not None:
                    bound[kw.arg] = kw.value
            for pn in fl_params:
                if pn not in c.params:
                    continue
                got = bound.get(pn)
                if got is not None:
                    cdefs = {st.targets[0].id: st.value for st in c.con.body if isinstance(st, ast.Assign) and len(st.targets) == 1
                             and isinstance(st.targets[0], ast.Name)}
                    got = _deref(got, {k: v for k, v in cdefs.items() if k != pn})
                cons = f'{norm(ct)} forwards {pn}'
                if got is not None and isinstance(got, ast.Name) and got.id == pn:
                    r.ok(c.m, cq, cons)
                else:
                    r.bad(c.m, cq, cons, f"{cls}( ..., {pn}=N ) builds its memory with "
                          f"{'the default ' + pn if got is None else norm(got)} instead of the {pn} it was given: the size requested "
                          f"by the user is ignored (the sibling memory forwards it; accesses above the default size fail / a "
                          f"smaller memory is silently larger)", ct.lineno)
        for call in c.memcalls(c.con):
            if c.mem is not None and norm(call.func.value) != c.mem:
                r.bad(c.m, qualname(enclosing(call, (ast.FunctionDef,))), norm(call)[:70],
                      f"memory access does not go to the shared memory {c.mem}", call.lineno)
        # P2 one block, update_once
        # a store must reach the byte array inside the request-processing block, before the next request (a later port in the
        # same cycle) is processed: no other block may modify the memory (a deferred / registered commit makes every request of
        # a cycle read the pre-cycle image)
        writers = [b for b in c.blocks if b is not c.up and any(x.func.attr in ('write', 'amo') for x in c.memcalls(b))]
        if writers:
            b = writers[0]
            wc = [x for x in c.memcalls(b) if x.func.attr in ('write', 'amo')][0]
            r.bad(c.m, f'{cq}.{b.name}', f"@{', @'.join(decorators(b))} {b.name}: {norm(wc)[:60]}",
                  f"the memory is modified by block {b.name} (@{', '.join(decorators(b))}), not by the request-processing block "
                  f"{c.up.name}: a store that is queued / committed elsewhere is not in the byte array when the next request of the "
                  f"same cycle (a later port) reads it -- two AMOs on one word in one cycle both read the old value and one "
                  f"update is lost, which no sequential order of the processed requests explains", wc.lineno)
        elif decorators(c.up) == ['update_once']:
            r.ok(c.m, c.q, '@update_once, the only block modifying the memory')
        else:
            r.bad(c.m, c.q, 'decorators: ' + ', '.join(decorators(c.up)), "up_mem must be an @update_once block: executed exactly "
                  "once per cycle (a combinational block may be re-executed and would repeat memory side effects)", c.up.lineno)
        # P3 each port once
        bad = None
        for n, L in ((1, 1), (2, 2), (3, 3), (4, 4), (1, 2), (2, 3), (3, 5)):
            try:
                vis = _visits(c, c.loop.iter, n, r, L)
            except Raised as ex:
                vis = [f'raises {ex.what}']
            if sorted(vis, key=str) != list(range(n)):
                bad = (n, L, vis)
                break
        cons = f'for {c.i} in {norm(c.loop.iter)}'
        if bad:
            r.bad(c.m, c.q, cons, f"with nports={bad[0]} (and {bad[1]} entries in the message-type list) the loop visits {bad[2]}: "
                  f"the port loop must range over exactly the ports that exist, 0..nports-1, each served once per cycle "
                  f"(a port index beyond nports raises IndexError, a missing one is never served)", c.loop.lineno)
        else:
            r.ok(c.m, c.q, cons)
        # P3b ports are served independently: no way to leave the port loop early, no variable carried from one port to the next
        early = [n for n in walk_no_nested(c.loop) if isinstance(n, (ast.Break, ast.Return))]
        inner_loops = [n for n in walk_no_nested(c.loop) if isinstance(n, (ast.For, ast.While)) and n is not c.loop]
        early = [n for n in early if not any(any(n is x for x in ast.walk(l)) for l in inner_loops) or isinstance(n, ast.Return)]
        if early:
            e = early[0]
            gs = [g for g in guards_of(e, stop=c.loop) if g.kind in ('if', 'exit')]
            when = ' and '.join(('' if g.polarity else 'not ') + '(' + norm(g.test)[:50] + ')' for g in gs) or 'unconditionally'
            r.bad(c.m, c.q, f'{norm(e)} inside the port loop', f"the port loop is left ({norm(e)}) when {when}: the state of port "
                  f"{c.i} decides whether the higher-numbered ports are served this cycle (their requests wait although their own "
                  f"queues are ready; ports whose sinks depend on each other deadlock). Use `continue`: ports are independent",
                  e.lineno)
        else:
            r.ok(c.m, c.q, 'no break / return inside the port loop')
        carried = _loop_carried(c)
        if carried:
            nm, node = carried[0]
            r.bad(c.m, c.q, f'loop-carried variable {nm}', f"`{nm}` is read in {norm(stmt_of(node))[:60]} before it is assigned in the "
                  f"same iteration: what port {c.i} does depends on what an earlier port left behind", node.lineno)
        else:
            r.ok(c.m, c.q, 'no variable is carried from one port to the next')
        # P6 index discipline
        nidx = 0
        for n in ast.walk(c.loop):
            if isinstance(n, ast.Subscript) and (norm(n.value) in conts or _pair_pos(c, n.value) is not None) \
                    and not isinstance(n.slice, ast.Slice):
                nidx += 1
                if norm(n.slice) != c.i:
                    r.bad(c.m, c.q, norm(n), f"port {c.i} is served with element [{norm(n.slice)}] of {norm(n.value)}: request, "
                          f"response and message classes must all belong to the same port", n.lineno)
        if nidx:
            r.ok(c.m, c.q, f'{nidx} per-port subscripts all indexed by {c.i}')
        # P4 guards
        targets = [('request taken', c.acq)] + [('memory access', stmt_of(x)) for x in c.memcalls(c.loop)] + \
                  [('response sent', s[0]) for s in c.sinks]
        rkeys = None
        if len(c.sinks) == 1:
            rkeys = c.sinks[0][3]
        if rkeys is not None:
            seen = set()
            for what, st in targets:
                if id(st) in seen:
                    continue
                seen.add(id(st))
                defs = _up_defs(c)
                gs = [Guard(_expand(g.test, defs), g.polarity, g.kind, g.node)
                      for g in guards_of(st, stop=c.loop) if g.kind in ('if', 'exit', 'assert')]
                cex = _implication(gs, c.vkeys + [rkeys], r)
                cons = f'{what}: {norm(st)[:60]}'
                if cex is None:
                    r.ok(c.m, c.q, cons)
                else:
                    need = ' and '.join('/'.join(sorted(a)) for a in c.vkeys + [rkeys])
                    hold = ', '.join(f'{k}={v}' for k, v in sorted(cex.items())) or 'no guard at all'
                    r.bad(c.m, c.q, cons, f"not dominated by a guard implying {need} (reached with {hold}): "
                          f"{'the request is executed although the handshake does not complete this cycle (val/rdy: the same request is executed again next cycle, an AMO is applied twice; CL: the response is pushed into a full pipe)' if what != 'response sent' else 'the response is written although the pipe cannot take it'}",
                          st.lineno)
        # P5 one response per request
        if len(c.sinks) != 1:
            r.bad(c.m, c.q, f'{len(c.sinks)} response statements', "each request must produce exactly one response", c.loop.lineno)
        else:
            sink = c.sinks[0][0]
            blk = _block_of(c)
            if not any(x is sink for x in blk):
                r.bad(c.m, c.q, norm(sink), "the response is not sent in the block that takes the request: some path takes a "
                      "request without answering it (or answers without a request)", sink.lineno)
            else:
                ai, si = blk.index(c.acq), blk.index(sink)
                between = blk[ai + 1:si]
                exits = [n for s in between for n in walk_no_nested(s) if isinstance(n, (ast.Return, ast.Break, ast.Continue))]
                rv, ctors = _resp_var(c)
                if ai > si:
                    r.bad(c.m, c.q, norm(sink), "response sent before the request is taken (stale response of another port)", sink.lineno)
                elif exits:
                    r.bad(c.m, c.q, norm(exits[0]), "a path leaves between taking the request and sending its response", exits[0].lineno)
                elif not _assigned_all_paths(between, rv):
                    r.bad(c.m, c.q, norm(sink), f"`{rv}` is not assigned on every path from the request to the response: the "
                          f"previous port's response would be sent", sink.lineno)
                else:
                    r.ok(c.m, c.q, f'{norm(c.acq)} ... {norm(sink)}')
            sbase = c.sinks[0][1]
        # P7 wiring
        edges, loopvars = [], set()
        for var, a, b, st in _connects(c):
            ea, eb = _endpoint(a, conts), _endpoint(b, conts)
            for ep in (ea, eb):
                if ep is not None and (var is None or ep[1] != var[0]):
                    r.bad(c.m, cq, norm(st), f"{ep[0]}[{ep[1]}] is connected outside the per-port index `{var[0] if var else '?'}`: "
                          f"port i's request/response would travel through another port's queue", st.lineno)
            if ea and eb:
                edges.append((ea, eb, st))
                if var is not None:
                    try:
                        vis = sorted(_visits(c, var[1].iter, 3, r))
                    except Raised:
                        vis = None
                    if vis != [0, 1, 2]:
                        r.bad(c.m, cq, f'for {var[0]} in {norm(var[1].iter)}', "the wiring loop does not cover every port", var[1].lineno)
        if len(c.sinks) == 1:
            _check_wiring(c, conts, edges, r, cq)
    r.require_floor(32)
    return r


def _loop_carried(c):
    """[(name, load node)] of local names that are assigned inside the port loop and read at a point that no assignment of
    the same iteration dominates"""
    stored = {n.id for n in ast.walk(c.loop.body[0] if False else c.loop) if isinstance(n, ast.Name) and isinstance(n.ctx, ast.Store)} - {c.i}
    # augmented assignments read their target first
    out = []
    for n in ast.walk(c.loop):
        if isinstance(n, ast.AugAssign) and isinstance(n.target, ast.Name) and n.target.id in stored:
            if not _dominated(c, n, n.target.id):
                out.append((n.target.id, n))
    for n in ast.walk(c.loop):
        if isinstance(n, ast.Name) and isinstance(n.ctx, ast.Load) and n.id in stored:
            if any(n is x for x in ast.walk(c.loop.iter)):
                continue
            if not _dominated(c, n, n.id):
                out.append((n.id, n))
    return out


def _dominated(c, node, name):
    """some assignment of `name` inside the loop body executes before `node` on every path of the same iteration"""
    cur = stmt_of(node)
    while cur is not None and cur is not c.loop:
        p = parent(cur)
        for fld in ('body', 'orelse', 'finalbody'):
            blk = getattr(p, fld, None)
            if isinstance(blk, list) and any(x is cur for x in blk):
                before = blk[:[i for i, x in enumerate(blk) if x is cur][0]]
                if _assigned_all_paths(before, name):
                    return True
                break
        cur = p
    return False


def _assigned_all_paths(stmts, name):
    for st in stmts:
        if isinstance(st, ast.Assign) and any(isinstance(t, ast.Name) and t.id == name for t in st.targets):
            return True
        if isinstance(st, ast.If) and st.orelse:
            if all(_assigned_all_paths(b, name) or always_exits(b) for b in (st.body, st.orelse)):
                return True
    return False


def _check_wiring(c, conts, edges, r, cq):
    req_ep = _endpoint(c.req_base, conts) if c.kind == 'stream' else _endpoint(ast.Attribute(value=c.req_base, attr='enq', ctx=ast.Load()), conts)
    sink_base = c.sinks[0][1]
    snk_ep = _endpoint(sink_base, conts) if c.kind == 'stream' else _endpoint(ast.Attribute(value=sink_base, attr='send', ctx=ast.Load()), conts)
    if req_ep is None or snk_ep is None:
        raise AnalysisError(f"{c.q}: request source / response sink are not elements of per-port lists")
    adj = {}

    def link(x, y):
        adj.setdefault(x, set()).add(y)
        adj.setdefault(y, set()).add(x)
    first = lambda t: t.split('.')[0]
    for ea, eb, st in edges:
        link((ea[0], first(ea[2])), (eb[0], first(eb[2])))
    for name, (lc, cname) in conts.items():
        if cname and 'stall' in cname.lower():
            link((name, 'recv'), (name, 'send'))
    ifcs = [n for n in conts if (n, 'req') in adj and (n, 'resp') in adj]
    if len(ifcs) != 1:
        r.bad(c.m, cq, 'interface wiring', "no per-port interface list has both its req and its resp side connected", c.con.lineno)
        return
    ifc = ifcs[0]

    def reach(a, b):
        seen, todo = {a}, [a]
        while todo:
            x = todo.pop()
            for y in adj.get(x, ()):
                if y not in seen:
                    seen.add(y)
                    todo.append(y)
        return b in seen
    src = (req_ep[0], first(req_ep[2]))
    if reach((ifc, 'req'), src):
        r.ok(c.m, cq, f'{ifc}[i].req ~> {src[0]}[i].{src[1]}')
    else:
        r.bad(c.m, cq, f'{ifc}[i].req ~> {src[0]}[i].{src[1]}', "the request side of the interface is not wired to the queue up_mem "
              "takes requests from", c.con.lineno)
    if c.kind == 'cl':
        dst = (snk_ep[0], 'send')
    else:
        dst = (snk_ep[0], 'send')
    if reach(dst, (ifc, 'resp')) and dst in adj and (ifc, 'resp') in adj[dst]:
        r.ok(c.m, cq, f'{dst[0]}[i].send ~> {ifc}[i].resp')
    else:
        r.bad(c.m, cq, f'{dst[0]}[i].send ~> {ifc}[i].resp', "the response pipe up_mem writes to is not wired to the response side "
              "of the interface", c.con.lineno)
    if c.kind == 'stream':
        for sig in ('val', 'rdy'):
            a = (req_ep[0], req_ep[2] + '.' + sig)
            b = (snk_ep[0], snk_ep[2] + '.' + sig)
            hit = [st for ea, eb, st in edges if {(ea[0], ea[2]), (eb[0], eb[2])} == {a, b}]
            cons = f'{a[0]}[i].{a[1]} // {b[0]}[i].{b[1]}'
            if hit:
                r.ok(c.m, cq, cons)
            else:
                r.bad(c.m, cq, cons, f"the {sig} handshake between the request stall stage and the response pipe is not connected: "
                      f"up_mem's guard and the pipe's accept condition would disagree", c.con.lineno)



# ---------------------------------------------------------------------------
class FnInterp(Interp):
    """Interp that also executes stores to attributes of `self`.  They are kept under their dotted name, in the shared
    instance-state dictionary funcs['__state__'] when there is one (so that the state survives from one method call to the
    next and across nested s.method(...) calls), else in the local environment."""
    def _state(self):
        return self.funcs.get('__state__')

    def ev_Attribute(self, e):
        st = self._state()
        if st is not None:
            k = norm(e)
            if k in st:
                return st[k]
        return super().ev_Attribute(e)

    def store_other(self, target, value, stmt):
        if isinstance(target, ast.Attribute):
            st = self._state()
            (st if st is not None else self.env)[norm(target)] = value
        else:
            super().store_other(target, value, stmt)


class ReadVal:
    """the value the byte helper returns for (addr, nbytes) at memory version `ver`"""
    ABSTRACT_METHODS = ('clone',)

    def __init__(self, addr, n, ver):
        self.key = (addr, n, ver)

    def clone(self):
        return ReadVal(*self.key)

    def __eq__(self, o):
        return isinstance(o, ReadVal) and self.key == o.key

    def __hash__(self):
        return hash(self.key)

    def __repr__(self):
        return f"<bytes [{self.key[0]}:{self.key[0] + self.key[1]}) of memory version {self.key[2]}>"


class FLInstance:
    """abstract MagicMemoryFL object: instance attributes written by construct()/the methods are abstract state; the backing
    bytearray is an opaque image with a version number that every modification bumps; the byte helpers are recording
    stand-ins (they are judged on their own by R-C18-endian)"""
    def __init__(self, repo, amo_codes=(), mod=None):
        fm = mod if mod is not None else repo.mod(FL)
        self.fm = fm
        cd = fm.get_class('MagicMemoryFL')
        self.methods = fm.methods('MagicMemoryFL')
        con = self.methods.get('construct')
        if con is None:
            raise AnalysisError("anchor vanished: MagicMemoryFL.construct")
        self.me = con.args.args[0].arg
        stores = [n for n in ast.walk(cd) if isinstance(n, ast.Assign) and isinstance(n.value, ast.Call)
                  and norm(n.value.func) == 'bytearray' and len(n.targets) == 1 and isinstance(n.targets[0], ast.Attribute)]
        if len(stores) != 1:
            raise AnalysisError("MagicMemoryFL: expected exactly one bytearray backing store")
        self.store_attr = stores[0].targets[0].attr
        self.img = ImgMem()
        self.helper_writes = 0
        self.log = []
        self.state = {}
        for st in con.body:          # plain attribute initialisations of construct()
            if isinstance(st, ast.Assign) and all(isinstance(t, ast.Attribute) and norm(t.value) == self.me for t in st.targets):
                if st is stores[0]:
                    val = self.img
                else:
                    try:
                        val = Interp({}, funcs=BASE_FUNCS).ev(st.value)
                    except (AnalysisError, Raised):
                        continue
                for t in st.targets:
                    self.state[f'{self.me}.{t.attr}'] = val
        self.state[f'{self.me}.{self.store_attr}'] = self.img
        self.funcs = dict(BASE_FUNCS, len=len, read_bytearray_bits=self._h_read, write_bytearray_bits=self._h_write)
        self.funcs['__state__'] = self.state
        for name in self.methods:
            if name not in ('construct', 'line_trace'):
                self.funcs[f'{self.me}.{name}'] = (lambda *a, name=name: self.call(name, list(a)))
        self.env = {'AMO_FUNS': {c: (lambda m_, a_, c=c: ('amo-result', c, m_, a_)) for c in amo_codes}}

    def version(self):
        return self.helper_writes + len(self.img.writes)

    def _h_read(self, mem, addr, n):
        self.log.append(('read', mem, int(addr), int(n)))
        return ReadVal(int(addr), int(n), self.version())

    def _h_write(self, mem, addr, n, data):
        self.log.append(('write', mem, int(addr), int(n), data))
        self.helper_writes += 1

    def call(self, name, args):
        f = self.methods.get(name)
        if f is None:
            raise AnalysisError(f"anchor vanished: MagicMemoryFL.{name}")
        it = FnInterp(dict(self.env), funcs=self.funcs)
        return it.apply(Closure(f, dict(self.env)), [None] + list(args))


class ImgMem(SymMem):
    """the backing bytearray as an opaque image: slice loads return ('image', lo, hi), slice stores are recorded"""
    def __init__(self, size=1 << 20):
        super().__init__()
        self.size = size
        self.writes = []

    def __len__(self):
        return self.size

    @staticmethod
    def _bounds(idx):
        if not isinstance(idx, slice) or idx.step is not None:
            raise AnalysisError("image access other than a plain slice")
        lo = 0 if idx.start is None else int(idx.start)
        hi = None if idx.stop is None else int(idx.stop)
        return lo, hi

    def load(self, idx):
        if not isinstance(idx, slice):
            return ('image byte', int(idx))
        lo, hi = self._bounds(idx)
        return ('image', lo, hi)

    def store(self, idx, value):
        if not isinstance(idx, slice):
            a = int(idx)
            if not 0 <= a < self.size:
                raise Raised(f"IndexError: byte {a} of the backing bytearray")
            self.writes.append((a, a + 1, [value]))
            return
        lo, hi = self._bounds(idx)
        self.writes.append((lo, hi, value))

    def image(self):
        """address -> value of every byte written (later writes win); None if some slice store has no per-byte value"""
        out = {}
        for lo, hi, val in self.writes:
            if hi is None or not isinstance(val, (list, tuple)) or len(val) != hi - lo:
                return None
            for k in range(hi - lo):
                out[lo + k] = val[k]
        return out


_READ_PROBE = """
class MagicMemoryFL:
  def construct( s, n ):
    s.mem = bytearray( n )
    s.last = None
    s.val = None
  def read( s, addr, nbytes ):
    if int(addr) != s.last:
      s.last = int(addr)
      s.val = read_bytearray_bits( s.mem, addr, nbytes )
    return s.val
  def write( s, addr, nbytes, data ):
    write_bytearray_bits( s.mem, addr, nbytes, data )
  def amo( s, amo, addr, nbytes, data ):
    ret = s.read( addr, nbytes )
    s.write( addr, nbytes, AMO_FUNS[ int(amo) ]( ret, data ) )
    return ret
  def write_mem( s, addr, data ):
    s.mem[ addr : addr + len(data) ] = data
"""


def _read_histories(make_inst, code, r):
    """evaluate read after every history of length <= 2; returns (failures, number of histories)"""
    W4 = SB(['W0', 'W1', 'W2', 'W3'])
    pool = [('read', 1000, 1), ('read', 1000, 4), ('read', 1004, 4), ('read', 1001, 2),
            ('write', 1000, 1), ('write', 1000, 4), ('amo', 1000, 4), ('write_mem', 1000, 4)]
    finals = [(1000, 1), (1000, 2), (1000, 4), (1004, 4)]

    def do(inst, op):
        kind, a, n = op
        if kind == 'read':
            return inst.call('read', [BV(16, a), n])
        if kind == 'write':
            return inst.call('write', [BV(16, a), n, SB(W4.b[:n])])
        if kind == 'amo':
            return inst.call('amo', [BV(4, code), BV(16, a), n, BV(8 * n, 1)])
        return inst.call('write_mem', [a, [('byte', k) for k in range(n)]])

    def show(op):
        return f"{op[0]}({op[1]}, {op[2]}{', ...' if op[0] != 'read' else ''})"
    failures = {}
    total = 0
    for hl in (0, 1, 2):
        for hist in itertools.product(pool, repeat=hl):
            for fa, fn in finals:
                total += 1
                if r is not None:
                    r.evaluations += 1
                inst = make_inst()
                hs = ', '.join(show(o) for o in hist) or 'a fresh memory'
                try:
                    for op in hist:
                        do(inst, op)
                    v0 = inst.version()
                    got = inst.call('read', [BV(16, fa), fn])
                    v1 = inst.version()
                except Raised as ex:
                    failures.setdefault('raises', f"after {hs}: read({fa}, {fn}) raises {ex.what}")
                    continue
                want = ReadVal(fa, fn, v0)
                if v1 != v0:
                    failures.setdefault('modifies', f"after {hs}: read({fa}, {fn}) modifies the memory image")
                elif got != want:
                    failures.setdefault('stale', f"after {hs}: read({fa}, {fn}) returns {got!r}; it must return {want!r} -- "
                                                 f"read(addr, nbytes) must be a function of the current memory contents only (the "
                                                 f"result depends on instance state left behind by earlier calls)")
    return failures, total


def rule_read_pure(repo):
    r = RuleResult('R-C18-read-pure', "MagicMemoryFL.read(addr, nbytes) is a function of the current memory contents only: after "
                                      "every short history of reads / writes / AMOs / write_mem it returns the bytes "
                                      "[addr, addr+nbytes) of the current image and leaves the image unchanged")
    _, types = _memtypes(repo)
    code = types.get('AMO_ADD', min(v for k, v in types.items() if k.startswith('AMO_')))
    fm = repo.mod(FL)
    f = fm.get_func('MagicMemoryFL.read')
    # embedded positive example (the expected finding count on the real tree is zero): a read memo keyed by the address only
    from sa.loader import Module
    probe = Module(None, 'embedded/read_probe.py', _READ_PROBE)
    pf, _ = _read_histories(lambda: FLInstance(repo, amo_codes=types.values(), mod=probe), code, None)
    if 'stale' not in pf or 'raises' in pf:
        raise AnalysisError("R-C18-read-pure: embedded history-dependent read not flagged (checker broken)")
    r.ok('embedded', 'probe', 'a read memo keyed by the address only is flagged on the embedded example', nontrivial=False)
    failures, total = _read_histories(lambda: FLInstance(repo, amo_codes=types.values()), code, r)
    for key, cons in (('raises', f'read evaluates after every history ({total} histories of length <= 2)'),
                      ('modifies', 'read leaves the image unchanged'),
                      ('stale', 'read returns the current bytes [addr, addr+nbytes)')):
        if key in failures:
            r.bad(fm, 'MagicMemoryFL.read', cons, failures[key], f.lineno)
        else:
            r.ok(fm, 'MagicMemoryFL.read', cons)
    r.require_floor(4)
    return r


class ImgView(SymMem):
    """memoryview(<backing bytearray>): slices of it are live aliases of the image, not copies"""
    def __init__(self, img):
        if not isinstance(img, ImgMem):
            raise AnalysisError("memoryview of a value outside the abstract domain")
        super().__init__()
        self.img = img
        self.size = img.size

    def load(self, idx):
        lo, hi = ImgMem._bounds(idx)
        return ('alias', lo, hi)

    def store(self, idx, value):
        self.img.store(idx, value)

    def __repr__(self):
        return 'memoryview(image)'


def _img_copy(x):
    """bytes(...) / bytearray(...) of an image slice or view: an independent copy"""
    if isinstance(x, tuple) and len(x) == 3 and x[0] in ('alias', 'image'):
        return ('image', x[1], x[2])
    if isinstance(x, (ImgMem, ImgView)):
        return ('image', 0, x.size)
    raise AnalysisError("bytes()/bytearray() of a value outside the abstract domain")


def _bits_ctor(nb, v=0):
    return ('Bits', int(nb), SB.of(v))


# (array size N, address A): the bytes touched must be exactly [A, A+n) for EVERY array size -- sizes that are / are not a power
# of two, addresses with bits set that N-1 lacks, tiny arrays, aligned and misaligned addresses
# The address is a fixed-width modular value (a Bits of width W, as req.addr is): arithmetic on it before int() wraps at 2^W, so
# points just below 2^16 with a 16-bit address are included -- the bytes touched must be [A, A+n) in unbounded arithmetic.
ENDIAN_POINTS = [(1 << 20, 1000, 32), (1 << 20, 1003, 32), (0x18000, 0x8100, 16), (0x18000, 0x8103, 32), (0x10000, 0xff00, 16),
                 (8, 0, 8), (3, 1, 2), (0x18000, 0xfffc, 16), (0x18000, 0xfffe, 16), (0x18000, 0xfff9, 16)]


def _byte_funcs():
    return dict(BASE_FUNCS, Bits=_bits_ctor, memoryview=MemView, len=len, **{'int.from_bytes': int_from_bytes})


def _eval_write_helper(wr, funcs, BASE, n, extra, N=1 << 20, W=32):
    """(ok, what was seen, steps) for write_bytearray_bits(arr, BASE, n, data of n+extra symbolic bytes), len(arr) == N"""
    mem = SymMem({}, size=N)
    it = Interp({}, funcs=funcs)
    data = SB([f'D{k}' for k in range(n + extra)])
    try:
        it.apply(Closure(wr, {}), [mem, BV(W, BASE), n, data])
        err = None
    except Raised as ex:
        err = ex.what
    exp = {BASE + k: f'D{k}' for k in range(n)}
    show = {f'A{a - BASE:+d}': v for a, v in sorted(mem.cells.items())}
    return (err is None and mem.cells == exp), f"leaves {show}" + (f" and raises {err}" if err else ''), it.steps


def _write_helper_on_wide_data(repo):
    """True iff write_bytearray_bits stores exactly the low n bytes also when the data value is wider than n bytes"""
    cache = repo.__dict__.setdefault('_c18_cache', {})
    if 'wide' not in cache:
        wr = repo.mod(BYTES).functions.get('write_bytearray_bits')
        if wr is None:
            raise AnalysisError("anchor vanished: write_bytearray_bits")
        cache['wide'] = all(_eval_write_helper(wr, _byte_funcs(), B, n, 2)[0] for B in (1000, 1003) for n in range(1, 9))
    return cache['wide']


def _unconfined_write_sites(repo):
    """[(qualified block, call text)] of s.mem.write(...) calls in the up_mem blocks whose data argument is not a slice of the
    request data (the slice bounds themselves are judged by R-C18-dispatch)"""
    cache = repo.__dict__.setdefault('_c18_cache', {})
    if 'loose' not in cache:
        out = []
        for vname, rel, cls in VARIANTS:
            c = _ctx(repo, rel, cls)
            defs = _up_defs(c)
            for call in c.memcalls(c.loop):
                if call.func.attr == 'write' and len(call.args) == 3:
                    d = _deref(call.args[2], defs)
                    if not (isinstance(d, ast.Subscript) and isinstance(d.slice, ast.Slice)):
                        out.append((c.q, norm(call)))
        cache['loose'] = out
    return cache['loose']


def rule_endian(repo):
    r = RuleResult('R-C18-endian', "byte helpers are little-endian inverses for 1..8 bytes (evaluated over symbolic bytes); "
                                   "read_mem/write_mem address exactly [addr, addr+size) of the one bytearray")
    bm = repo.mod(BYTES)
    rd, wr = bm.functions.get('read_bytearray_bits'), bm.functions.get('write_bytearray_bits')
    if rd is None or wr is None:
        raise AnalysisError("anchor vanished: read_bytearray_bits / write_bytearray_bits")
    funcs = _byte_funcs()
    wide = _write_helper_on_wide_data(repo)
    loose = _unconfined_write_sites(repo)
    for (N, BASE, W), n in itertools.product(ENDIAN_POINTS, range(1, 9)):
        if BASE + n > N:
            continue
        # read
        mem = SymMem({BASE + k: f'M{k}' for k in range(-2, n + 3) if 0 <= BASE + k < N}, size=N)
        it = Interp({}, funcs=funcs)
        try:
            got = it.apply(Closure(rd, {}), [mem, BV(W, BASE), n])
        except Raised as ex:
            got = f'raises {ex.what}'
        r.evaluations += it.steps
        exp = ('Bits', 8 * n, SB([f'M{k}' for k in range(n)]))
        cons = f'read_bytearray_bits(arr[{N:#x}], A=Bits{W}({BASE:#x}), {n})'
        if got == exp and not mem.stores:
            r.ok(bm, 'read_bytearray_bits', cons)
        elif mem.stores:
            r.bad(bm, 'read_bytearray_bits', cons, f"a read modifies the byte array: {mem.stores[:2]}", rd.lineno)
        else:
            r.bad(bm, 'read_bytearray_bits', cons, f"reading {n} byte(s) at A returns {got!r}; little-endian requires a {8 * n}-bit "
                  f"value whose byte k is arr[A+k]: {exp!r}", rd.lineno)
        # write: data of exactly n bytes must always work; data wider than n bytes (only the low n bytes may be stored) must
        # work unless EVERY caller confines the data to the low n bytes -- helper and callers are judged together
        for extra in (0, 2):
            ok, seen, steps = _eval_write_helper(wr, funcs, BASE, n, extra, N, W)
            r.evaluations += steps
            cons = f'write_bytearray_bits(arr[{N:#x}], A=Bits{W}({BASE:#x}), {n}, <{n + extra} bytes>)'
            if ok:
                r.ok(bm, 'write_bytearray_bits', cons)
            elif extra and not loose:
                r.ok(bm, 'write_bytearray_bits', cons, note="helper needs data confined to nbytes bytes; every caller slices")
            elif extra:
                r.bad(bm, 'write_bytearray_bits', cons, f"writing {n} byte(s) of a wider data value {seen}; the helper must store "
                      f"the low {n} byte(s) of an arbitrary data value, because {loose[0][1]} in {loose[0][0]} passes the whole "
                      f"data field (a sub-word write whose upper data bytes are non-zero fails / corrupts memory)", wr.lineno)
            else:
                r.bad(bm, 'write_bytearray_bits', cons, f"writing {n} byte(s) at A {seen}; little-endian requires arr[A+k] = byte k "
                      f"of the data for k < {n} and nothing else", wr.lineno)
    # read_mem / write_mem of MagicMemoryFL: the whole method is evaluated (helper locals, asserts, any statement order)
    fm = repo.mod(FL)
    store = [n for n in ast.walk(fm.get_class('MagicMemoryFL')) if isinstance(n, ast.Assign) and isinstance(n.value, ast.Call)
             and norm(n.value.func) == 'bytearray' and len(n.targets) == 1 and isinstance(n.targets[0], ast.Attribute)]
    if len(store) != 1:
        raise AnalysisError("MagicMemoryFL: expected exactly one bytearray backing store")
    store_attr = store[0].targets[0].attr
    for meth in ('read_mem', 'write_mem'):
        f = fm.get_func(f'MagicMemoryFL.{meth}')
        ps = [a.arg for a in f.args.args]
        if len(ps) != 3 or f.args.vararg or f.args.kwarg:
            raise AnalysisError(f"MagicMemoryFL.{meth}: unexpected signature")
        me = ps[0]
        bad = alias = None
        for a, z in itertools.product((0, 1, 7), (0, 1, 5)):
            img = ImgMem()
            data = [7, 0, 9, 0, 5][:z]            # a program image with zero bytes in it (they must be stored like any other)
            it = FnInterp({f'{me}.{store_attr}': img}, funcs=dict(BASE_FUNCS, len=len, memoryview=ImgView, bytes=_img_copy,
                                                                  bytearray=_img_copy))
            try:
                got = it.apply(Closure(f, {f'{me}.{store_attr}': img}), [None, a, z if meth == 'read_mem' else data])
                err = None
            except Raised as ex:
                got, err = None, ex.what
            r.evaluations += 1
            if meth == 'read_mem':
                ok = err is None and got == ('image', a, a + z) and not img.writes
                seen = f"returns {got!r}" + (f", writes {img.writes}" if img.writes else '')
                if err is None and (isinstance(got, (ImgMem, ImgView)) or (isinstance(got, tuple) and got and got[0] == 'alias')):
                    alias = f"for addr={a}, size={z}: read_mem hands out {got!r}, a live view of the backing bytearray, not a copy: " \
                            f"a write processed later changes an image that was already returned"
                    break
            else:
                got_img = img.image()
                want_img = {a + k: data[k] for k in range(z)}
                ok = err is None and got_img == want_img
                if got_img is None:
                    seen = f"writes {[(lo, hi) for lo, hi, _ in img.writes]} with data of another length"
                else:
                    missing = sorted(set(want_img) - set(got_img))
                    wrong = sorted(k for k in got_img if k not in want_img or got_img[k] != want_img.get(k))
                    seen = (f"the store of byte(s) at addr+{[m - a for m in missing]} (value {[want_img[m] for m in missing]}) is "
                            f"skipped: a stale byte of a previously loaded image survives" if missing else
                            f"bytes at {wrong} get other values than the image's")
            if not ok:
                bad = (a, z, err or seen)
                break
        cons = f'{meth}: image[addr : addr+size]'
        if alias:
            r.bad(fm, f'MagicMemoryFL.{meth}', 'read_mem returns a copy', alias, f.lineno)
        elif meth == 'read_mem':
            r.ok(fm, f'MagicMemoryFL.{meth}', 'read_mem returns a copy')
        if alias:
            continue
        if bad:
            r.bad(fm, f'MagicMemoryFL.{meth}', cons, f"for addr={bad[0]}, size={bad[1]}: {bad[2]}; must "
                  f"{'return' if meth == 'read_mem' else 'assign'} exactly bytes [{bad[0]}:{bad[0] + bad[1]}] of the backing "
                  f"bytearray: the image read back / loaded is shifted or truncated", f.lineno)
        else:
            r.ok(fm, f'MagicMemoryFL.{meth}', cons)
    # delegation from the two memories
    for vname, rel, cls in VARIANTS:
        m = repo.mod(rel)
        c = _ctx(repo, rel, cls)
        for meth in ('read_mem', 'write_mem'):
            f = m.get_func(f'{cls}.{meth}')
            ps = [a.arg for a in f.args.args]
            body = strip_doc(f.body)
            want = f'{ps[0]}.{(c.mem or "s.mem").split(".", 1)[1]}.{meth}({", ".join(ps[1:])})'
            if len(body) == 1 and isinstance(body[0], (ast.Return, ast.Expr)) and body[0].value is not None \
                    and norm(body[0].value) == want and (meth == 'write_mem' or isinstance(body[0], ast.Return)):
                r.ok(m, f'{cls}.{meth}', want)
            else:
                r.bad(m, f'{cls}.{meth}', norm(body)[:100], f"must delegate to the shared memory: {want}", f.lineno)
    r.require_floor(229)
    return r



# ---------------------------------------------------------------------------
PURE = [(DELAY, 'DelayPipeDeqCL'), (DELAY, 'DelayPipeSendCL'), (STALL, 'StallCL'), (STREAM, 'RandomStall'),
        (STREAM, 'InelasticDelayPipe')]
DEQUE_MUTATORS = {'append', 'appendleft', 'pop', 'popleft', 'insert', 'clear', 'extend', 'extendleft', 'remove', 'reverse'}


def _const_int(e):
    try:
        v = ast.literal_eval(e)
    except Exception:
        return None
    return v if isinstance(v, int) and not isinstance(v, bool) else None


def _funcs_of(cls):
    """every function / lambda of the class (methods, nested update blocks, decorator lambdas) with a qualified name"""
    out = []
    for n in ast.walk(cls):
        if isinstance(n, (ast.FunctionDef, ast.Lambda)):
            out.append(n)
    return out


def _msg_attr_stores(cls, me, pipes):
    """stores to an attribute / element of a message object: base rooted at a non-self parameter, a pipe slot, or a local
    loaded from a pipe slot"""
    hits = []
    for f in [n for n in ast.walk(cls) if isinstance(n, ast.FunctionDef)]:
        roots = {a.arg for a in f.args.args[1:]} if f.args.args and f.args.args[0].arg == me else set()
        for n in walk_no_nested(f):
            if isinstance(n, ast.Assign) and isinstance(n.value, ast.Subscript) and norm(n.value.value) in pipes:
                roots |= {t.id for t in n.targets if isinstance(t, ast.Name)}
        for n in walk_no_nested(f):
            tgts = n.targets if isinstance(n, ast.Assign) else [n.target] if isinstance(n, (ast.AugAssign, ast.AnnAssign)) else []
            for t in tgts:
                if not isinstance(t, (ast.Attribute, ast.Subscript)):
                    continue
                base = t.value
                if isinstance(t, ast.Subscript) and norm(base) in pipes:
                    continue                      # slot store, judged separately
                cur = base
                while isinstance(cur, (ast.Attribute, ast.Subscript)):
                    if isinstance(cur, ast.Subscript) and norm(cur.value) in pipes:
                        break
                    cur = cur.value
                if (isinstance(cur, ast.Name) and cur.id in roots) or (isinstance(cur, ast.Subscript) and norm(cur.value) in pipes):
                    hits.append((f, n))
    return hits


def _rng_names(cls, me):
    """(generator attribute/local names, names holding a drawn random value)"""
    gens, vals = set(), set()
    for n in ast.walk(cls):
        if isinstance(n, ast.Assign) and isinstance(n.value, ast.Call) and norm(n.value.func) in ('Random', 'random.Random'):
            gens |= {norm(t) for t in n.targets}
    for n in ast.walk(cls):
        if isinstance(n, ast.Assign) and _draws(n.value, gens):
            vals |= {norm(t) for t in n.targets if isinstance(t, ast.Name) or
                     (isinstance(t, ast.Attribute) and norm(t.value) == me)}
    return gens, vals


def _draws(e, gens):
    return any(isinstance(x, ast.Call) and isinstance(x.func, ast.Attribute) and norm(x.func.value) in gens for x in ast.walk(e))


def _rng_uses(cls, me, gens, vals):
    """[(node, where)] for every expression statement / lambda that contains a random draw or a drawn value"""
    out = []
    for n in ast.walk(cls):
        hit = (isinstance(n, ast.Call) and isinstance(n.func, ast.Attribute) and norm(n.func.value) in gens) or \
              (isinstance(n, (ast.Attribute, ast.Name)) and isinstance(n.ctx, ast.Load) and norm(n) in vals)
        if hit:
            out.append(n)
    return out


def _rng_context_ok(n, vals):
    """a random value may only be: stored into the value holder; compared inside a rdy lambda of @non_blocking; compared inside
    the right-hand side of `<x>.rdy @= ...` / `<x>.val @= ...`; shown by line_trace"""
    f = enclosing(n, (ast.FunctionDef, ast.Lambda))
    if isinstance(f, ast.FunctionDef) and f.name == 'line_trace':
        return True
    cmp_ = enclosing(n, (ast.Compare,))
    st = stmt_of(n)
    if isinstance(st, ast.Assign) and all(norm(t) in vals for t in st.targets) and cmp_ is None:
        return True
    if cmp_ is None:
        return False
    if isinstance(f, ast.Lambda):
        p = parent(f)
        return isinstance(p, ast.Call) and norm(p.func) == 'non_blocking' and p.args and p.args[0] is f
    if isinstance(st, ast.AugAssign) and isinstance(st.op, ast.MatMult) and isinstance(st.target, ast.Attribute) \
            and st.target.attr in ('rdy', 'val'):
        return True
    return False


def _slot_test(e, pipe, k):
    """+1 for `pipe[k] is None`, -1 for `pipe[k] is not None`, 0 otherwise"""
    if isinstance(e, ast.Compare) and len(e.ops) == 1 and isinstance(e.left, ast.Subscript) and norm(e.left.value) == pipe \
            and _const_int(e.left.slice) == k and isinstance(e.comparators[0], ast.Constant) and e.comparators[0].value is None:
        return 1 if isinstance(e.ops[0], ast.Is) else -1 if isinstance(e.ops[0], ast.IsNot) else 0
    return 0


def _slot_flags(f, pipe, k):
    """registered flags that the block ties to the state of slot k at the END of the tick (after every mutation of the pipe):
    name -> True when flag <=> slot empty, False when flag <=> slot occupied"""
    def mutates(x):
        return (isinstance(x, ast.Call) and isinstance(x.func, ast.Attribute) and norm(x.func.value) == pipe) or \
               (isinstance(x, ast.Subscript) and isinstance(x.ctx, ast.Store) and norm(x.value) == pipe)
    muts = [x for x in walk_no_nested(f) if mutates(x)]
    flags = {}
    writers = {}
    for n in walk_no_nested(f):
        if isinstance(n, ast.AugAssign) and isinstance(n.op, ast.LShift):
            writers.setdefault(norm(n.target), []).append(n)
    def top_index(x):
        cur = x
        while cur is not None and parent(cur) is not f:
            cur = parent(cur)
        return [i for i, y in enumerate(f.body) if y is cur][0] if cur is not None else len(f.body)
    last_mut = max([top_index(x) for x in muts], default=-1)
    for n in f.body:
        if top_index(n) <= last_mut:
            continue
        if isinstance(n, ast.AugAssign) and isinstance(n.op, ast.LShift) and _slot_test(n.value, pipe, k) and parent(n) is f:
            if len(writers[norm(n.target)]) == 1:
                flags[norm(n.target)] = _slot_test(n.value, pipe, k) == 1
        if isinstance(n, ast.If) and n.orelse and _slot_test(n.test, pipe, k) and parent(n) is f \
                and not any(mutates(x) for x in ast.walk(n)):
            empty_b, full_b = (n.body, n.orelse) if _slot_test(n.test, pipe, k) == 1 else (n.orelse, n.body)

            def consts(branch, want):
                return {norm(s.target) for s in branch if isinstance(s, ast.AugAssign) and isinstance(s.op, ast.LShift)
                        and _const_int(s.value) == want}
            for name in consts(empty_b, 0) & consts(full_b, 1):
                if len(writers[name]) == 2:
                    flags[name] = False
            for name in consts(empty_b, 1) & consts(full_b, 0):
                if len(writers[name]) == 2:
                    flags[name] = True
    return flags


def _slot_empty_at(node, pipe, k, f, r):
    """True iff every way of reaching `node` implies that slot k of `pipe` is empty"""
    st = stmt_of(node)
    bp = parent(st)
    for fld in ('body', 'orelse'):
        blk = getattr(bp, fld, None)
        if isinstance(blk, list) and any(x is st for x in blk):
            last = None
            for s2 in blk[:[i for i, x in enumerate(blk) if x is st][0]]:
                for t in (s2.targets if isinstance(s2, ast.Assign) else []):
                    if isinstance(t, ast.Subscript) and norm(t.value) == pipe and _const_int(t.slice) == k:
                        last = s2
                if any(isinstance(x, ast.Call) and isinstance(x.func, ast.Attribute) and norm(x.func.value) == pipe
                       for x in ast.walk(s2)):
                    last = None
            if last is not None and isinstance(last.value, ast.Constant) and last.value.value is None:
                return True
    flags = _slot_flags(f, pipe, k)
    defs = _local_defs(f)
    gs = [Guard(_expand(g.test, defs), g.polarity, g.kind, g.node) for g in guards_of(st) if g.kind in ('if', 'exit', 'assert')]
    # a guard is usable only if the pipe is not mutated between the guard and the node (same tick, structured code)
    atoms = set()
    for g in gs:
        _bool_atoms(g.test, atoms)
    others = sorted(a for a in atoms if a not in flags)
    for E in (False, True):
        for vals in itertools.product((0, 1), repeat=len(others)):
            val = dict(zip(others, vals))

            def leaf(e, E=E, val=val):
                t = _slot_test(e, pipe, k)
                if t:
                    return BV(1, E if t == 1 else not E)
                kk = norm(e)
                if kk in flags:
                    return BV(1, E if flags[kk] else not E)
                if kk in val and not isinstance(e, ast.Constant):
                    return BV(1, val[kk])
                return NotImplemented
            r.evaluations += 1
            if all(bool(Interp({}, leaf=leaf).ev(g.test)) == g.polarity for g in gs) and not E:
                return False
    return True


def _rdy_covers(cd, f, pipe, r):
    """the method storing into slot 0 is a CL method whose declared rdy (a @non_blocking lambda, or the rdy= method given to
    CalleeIfcCL(method=<f>, rdy=<g>)) implies that slot 0 is empty"""
    tests = []
    for d in f.decorator_list:
        if isinstance(d, ast.Call) and norm(d.func) == 'non_blocking' and d.args and isinstance(d.args[0], ast.Lambda):
            tests.append(d.args[0].body)
    for n in ast.walk(cd):
        if isinstance(n, ast.Call) and norm(n.func) == 'CalleeIfcCL':
            kw = {k.arg: k.value for k in n.keywords}
            if 'method' in kw and isinstance(kw['method'], ast.Attribute) and kw['method'].attr == f.name and 'rdy' in kw \
                    and isinstance(kw['rdy'], ast.Attribute):
                g = [x for x in ast.walk(cd) if isinstance(x, ast.FunctionDef) and x.name == kw['rdy'].attr]
                rets = [x for x in walk_no_nested(g[0]) if isinstance(x, ast.Return)] if len(g) == 1 else []
                if len(rets) == 1 and rets[0].value is not None:
                    tests.append(rets[0].value)
    for t in tests:
        ok = True
        atoms = set()
        _bool_atoms(t, atoms)
        others = sorted(atoms)
        for E in (False, True):
            for vals in itertools.product((0, 1), repeat=len(others)):
                val = dict(zip(others, vals))

                def leaf(e, E=E, val=val):
                    tt = _slot_test(e, pipe, 0)
                    if tt:
                        return BV(1, E if tt == 1 else not E)
                    kk = norm(e)
                    if kk in val and not isinstance(e, ast.Constant):
                        return BV(1, val[kk])
                    return NotImplemented
                r.evaluations += 1
                if bool(Interp({}, leaf=leaf).ev(t)) and not E:
                    ok = False
        if ok:
            return True
    return False


def rule_purity(repo):
    r = RuleResult('R-C18-purity', "delay/stall components keep only None or a private copy of the incoming message, never modify "
                                   "a message, are FIFO shaped, hand on exactly the stored object; the RNG and the timing parameters "
                                   "reach only rdy/val decisions")
    for rel, cls in PURE:
        m = repo.mod(rel)
        cd = m.get_class(cls)
        con = m.get_func(f'{cls}.construct')
        me = con.args.args[0].arg
        # pipes
        pipes = {}
        for n in ast.walk(con):
            if isinstance(n, ast.Assign) and len(n.targets) == 1 and isinstance(n.targets[0], ast.Attribute) and norm(n.targets[0].value) == me:
                v = n.value
                init = v.args[0] if isinstance(v, ast.Call) and norm(v.func) in ('deque', 'collections.deque') and v.args else v if isinstance(v, (ast.List, ast.BinOp)) else None
                if init is None:
                    continue
                lst = init.left if isinstance(init, ast.BinOp) and isinstance(init.op, ast.Mult) else init
                if isinstance(lst, ast.List):
                    name = norm(n.targets[0])
                    pipes.setdefault(name, []).append(n)
                    if len(lst.elts) == 1 and isinstance(lst.elts[0], ast.Constant) and lst.elts[0].value is None:
                        r.ok(m, f'{cls}.construct', norm(n), nontrivial=False)
                    else:
                        r.bad(m, f'{cls}.construct', norm(n), "a delay pipe must start empty (all slots None): anything else is "
                              "delivered as a message nobody sent", n.lineno)
        funcs = [n for n in ast.walk(cd) if isinstance(n, ast.FunctionDef)]
        for f in funcs:
            q = qualname(f)
            if f.name == 'line_trace':
                continue
            for n in walk_no_nested(f):
                # slot stores
                if isinstance(n, (ast.Assign, ast.AugAssign)):
                    tg = n.targets if isinstance(n, ast.Assign) else [n.target]
                    for t in tg:
                        if isinstance(t, ast.Subscript) and norm(t.value) in pipes:
                            k = _const_int(t.slice)
                            v = _deref(n.value, _local_defs(f)) if isinstance(n, ast.Assign) else n.value
                            cons = norm(n)
                            if isinstance(n, ast.AugAssign) or k not in (0, -1):
                                r.bad(m, q, cons, "a delay pipe is written only at slot 0 (insert) and slot -1 (remove)", n.lineno)
                            elif isinstance(v, ast.Constant) and v.value is None:
                                if k == -1:
                                    r.ok(m, q, cons)
                                else:
                                    r.bad(m, q, cons, "slot 0 is cleared: the message just inserted is dropped", n.lineno)
                            elif k == 0:
                                params = {a.arg for a in f.args.args[1:]}
                                src = v.args[0] if isinstance(v, ast.Call) and norm(v.func) == 'clone_deepcopy' and len(v.args) == 1 else None
                                if src is None:
                                    r.bad(m, q, cons, "the pipe must store a private copy (clone_deepcopy) of the incoming message: a "
                                          "shared object changes content while it waits when the producer reuses it, so the "
                                          "response content would depend on the latency", n.lineno)
                                elif (isinstance(src, ast.Name) and src.id in params) or (isinstance(src, ast.Attribute) and src.attr == 'msg'):
                                    if _slot_empty_at(n, norm(t.value), 0, f, r) or _rdy_covers(cd, f, norm(t.value), r):
                                        r.ok(m, q, cons)
                                    else:
                                        r.bad(m, q, cons, "a message can be inserted while slot 0 is still occupied: the older "
                                              "message is overwritten (lost)", n.lineno)
                                else:
                                    r.bad(m, q, cons, f"the stored value is a copy of {norm(src)}, not of the incoming message", n.lineno)
                            else:
                                r.bad(m, q, cons, "a message is written into the exit slot: it overtakes / overwrites older ones", n.lineno)
                # slot loads
                if isinstance(n, ast.Subscript) and isinstance(n.ctx, ast.Load) and norm(n.value) in pipes:
                    k = _const_int(n.slice)
                    p = parent(n)
                    is_none_test = isinstance(p, ast.Compare) and len(p.ops) == 1 and isinstance(p.ops[0], (ast.Is, ast.IsNot))
                    if k == -1 or (k == 0 and is_none_test):
                        r.ok(m, q, f'load {norm(p) if is_none_test else norm(n)}', nontrivial=False)
                    else:
                        r.bad(m, q, norm(stmt_of(n))[:80], f"a message is taken from slot [{norm(n.slice)}]: only the exit slot -1 may be "
                              f"read (FIFO order)", n.lineno)
                # deque methods
                if isinstance(n, ast.Call) and isinstance(n.func, ast.Attribute) and norm(n.func.value) in pipes:
                    pipe = norm(n.func.value)
                    if n.func.attr == 'rotate':
                        amt = 1 if not n.args else _const_int(n.args[0])
                        if amt != 1 or n.keywords:
                            r.bad(m, q, norm(n), "the pipe advances by exactly one slot per cycle towards the exit", n.lineno)
                        elif _slot_empty_at(n, pipe, -1, f, r):
                            r.ok(m, q, f'{norm(n)} only when slot -1 is empty')
                        else:
                            r.bad(m, q, norm(n), "rotate() can run while the exit slot -1 still holds a message: that message wraps "
                                  "around to slot 0 and is delivered again later, behind younger messages (order and count broken)",
                                  n.lineno)
                    elif n.func.attr in DEQUE_MUTATORS:
                        r.bad(m, q, norm(n), f"{n.func.attr}() changes the pipe outside the insert-0 / remove-(-1) / rotate discipline", n.lineno)
        # outputs hand on exactly the stored object
        for f in funcs:
            q = qualname(f)
            for n in walk_no_nested(f):
                out = None
                if isinstance(n, ast.Return) and n.value is not None and pipes and f.name != 'line_trace' and f.name not in ('enq_rdy_pipe',):
                    out = n.value
                elif isinstance(n, ast.Call) and norm(n.func) == f'{me}.send' and len(n.args) == 1:
                    out = n.args[0]
                elif isinstance(n, ast.AugAssign) and isinstance(n.op, ast.LShift) and isinstance(n.target, ast.Attribute) and n.target.attr == 'msg':
                    out = n.value
                if out is None:
                    continue
                src = out
                if isinstance(src, ast.Name):
                    defs = [s for s in walk_no_nested(f) if isinstance(s, ast.Assign) and any(norm(t) == src.id for t in s.targets)
                            and s.lineno < n.lineno]
                    if defs:
                        src = defs[-1].value
                params = {a.arg for a in f.args.args[1:]}
                okk = (isinstance(src, ast.Subscript) and norm(src.value) in pipes and _const_int(src.slice) == -1) or \
                      (not pipes and isinstance(src, ast.Name) and src.id in params)
                if isinstance(out, ast.Compare) or (isinstance(out, ast.Constant)):
                    continue
                if okk:
                    r.ok(m, q, norm(n)[:70])
                else:
                    r.bad(m, q, norm(n)[:70], "the component must hand on exactly the message it received / holds in the exit slot "
                          "(no rebuilt, re-ordered or other object)", n.lineno)
        # no stores into messages
        for f, n in _msg_attr_stores(cd, me, set(pipes)):
            r.bad(m, qualname(f), norm(n), "a field of a message is modified inside a delay/stall component: timing components may "
                  "only move messages", n.lineno)
        # RNG
        gens, vals = _rng_names(cd, me)
        for n in _rng_uses(cd, me, gens, vals):
            q = qualname(enclosing(n, (ast.FunctionDef,)) or con)
            if _rng_context_ok(n, vals):
                r.ok(m, q, f'random value in {norm(stmt_of(n) or n)[:60]}', nontrivial=False)
            else:
                r.bad(m, q, norm(stmt_of(n))[:80], "the random stall value is used outside a rdy/val comparison: it may only decide "
                      "WHEN a message moves", n.lineno)
    # embedded positive examples (the expected finding count of the store/RNG checks on the real tree is zero)
    probe = ast.parse("class P:\n  def enq(s, msg):\n    msg.data = 0\n    s.pipeline[0] = clone_deepcopy(msg)\n"
                      "  def deq(s):\n    ret = s.pipeline[-1]\n    ret.opaque = s.rgen.random()\n    return ret\n"
                      "  def construct(s):\n    s.rgen = Random(1)\n    s.pipeline = deque([None]*3)\n")
    from sa.loader import _set_parents
    _set_parents(probe)
    pc = probe.body[0]
    hits = _msg_attr_stores(pc, 's', {'s.pipeline'})
    g, v = _rng_names(pc, 's')
    bad_rng = [n for n in _rng_uses(pc, 's', g, v) if not _rng_context_ok(n, v)]
    if len(hits) != 2 or len(bad_rng) != 1:
        raise AnalysisError("R-C18-purity: embedded positive example not flagged (checker broken)")
    r.ok('embedded', 'probe', 'message-field store and RNG-into-message are flagged on the embedded example', nontrivial=False)
    # stall handshakes
    _stall_handshakes(repo, r)
    # timing parameters do not reach up_mem / the memory
    for vname, rel, cls in VARIANTS:
        c = _ctx(repo, rel, cls)
        timing = _timing_names(repo, c)
        if not timing:
            raise AnalysisError(f"{cls}.construct: no timing parameter reaches a delay/stall component")
        used = {n.id for n in ast.walk(c.up) if isinstance(n, ast.Name)} | \
               {n.id for ct in c.fl_ctors for n in ast.walk(ct) if isinstance(n, ast.Name)}
        leak = sorted(timing & used)
        if leak:
            r.bad(c.m, c.q, 'timing names used: ' + ', '.join(leak), "latency / stall parameters influence how a request is executed "
                  "or the memory is built: content would depend on timing", c.up.lineno)
        else:
            r.ok(c.m, c.q, 'timing parameters ' + ', '.join(sorted(timing)) + ' unused by up_mem and the memory')
    r.require_floor(43)
    return r


def _timing_names(repo, c):
    pure_names = {cls for _, cls in PURE}
    names = set()
    for n in ast.walk(c.con):
        if isinstance(n, ast.Call) and isinstance(n.func, ast.Name) and n.func.id in pure_names:
            for a in list(n.args) + [k.value for k in n.keywords]:
                if isinstance(a, ast.Subscript):
                    continue                       # message class of the port
                names |= names_in(a)
    comp_vars = {g.target.id for n in ast.walk(c.con) if isinstance(n, ast.ListComp) for g in n.generators if isinstance(g.target, ast.Name)}
    loop_vars = {n.target.id for n in ast.walk(c.con) if isinstance(n, ast.For) and isinstance(n.target, ast.Name)}
    names -= comp_vars | loop_vars
    changed = True
    while changed:
        changed = False
        for st in c.con.body:
            if isinstance(st, ast.Assign) and any(isinstance(t, ast.Name) and t.id in names for t in st.targets):
                new = names_in(st.value) - {'min', 'max', 'int'} - names
                if new:
                    names |= new
                    changed = True
    return names


def _stall_handshakes(repo, r):
    # StallCL: recv is ready only if the consumer is ready; recv forwards its argument
    m = repo.mod(STALL)
    f = m.get_func('StallCL.recv')
    lams = [d.args[0] for d in f.decorator_list if isinstance(d, ast.Call) and norm(d.func) == 'non_blocking' and d.args
            and isinstance(d.args[0], ast.Lambda)]
    if len(lams) != 1:
        raise AnalysisError("StallCL.recv: @non_blocking(lambda ...) not found")
    lam = lams[0]
    me = lam.args.args[0].arg
    key = f'{me}.send.rdy()'
    from sa.astutil import Guard
    cex = _implication([Guard(lam.body, True, 'if', lam)], [{key}], r)
    if cex is None:
        r.ok(m, 'StallCL.recv', f'rdy: {norm(lam.body)}')
    else:
        r.bad(m, 'StallCL.recv', f'rdy: {norm(lam.body)}', f"recv can be ready while {key} is false: the message is pushed into a "
              f"full delay pipe", lam.lineno)
    # RandomStall: both sides fire together
    m = repo.mod(STREAM)
    con = m.get_func('RandomStall.construct')
    me = con.args.args[0].arg
    drive = {}
    for b in [x for x in con.body if isinstance(x, ast.FunctionDef)]:
        for n in walk_no_nested(b):
            if isinstance(n, ast.AugAssign) and isinstance(n.op, ast.MatMult):
                drive.setdefault(norm(n.target), []).append(n.value)
    up_rdy, dn_val = drive.get(f'{me}.recv.rdy'), drive.get(f'{me}.send.val')
    if not up_rdy or not dn_val or len(up_rdy) != 1 or len(dn_val) != 1:
        raise AnalysisError("RandomStall: drivers of recv.rdy / send.val not found")
    msgs = [st for v, a, b, st in _connects_of(con) if {norm(a), norm(b)} == {f'{me}.recv.msg', f'{me}.send.msg'}]
    if msgs:
        r.ok(m, 'RandomStall.construct', norm(msgs[0]))
    else:
        r.bad(m, 'RandomStall.construct', 'recv.msg // send.msg', "the message must pass through unchanged (recv.msg connected to send.msg)", con.lineno)
    bad = None
    for rdy, val in itertools.product((0, 1), repeat=2):
        for rv, pv in ((0, 1), (1, 1), (1, 0), (0, 0)):
            def leaf(e, rdy=rdy, val=val, rv=rv, pv=pv):
                k = norm(e)
                if k == f'{me}.send.rdy':
                    return BV(1, rdy)
                if k == f'{me}.recv.val':
                    return BV(1, val)
                if k in (f'{me}.rand_value',) or (isinstance(e, ast.Attribute) and 'rand' in e.attr and norm(e.value) == me):
                    return rv
                if k in ('stall_prob', f'{me}.stall_prob'):
                    return pv
                return NotImplemented
            r.evaluations += 2
            a = bool(Interp({}, leaf=leaf).ev(up_rdy[0]))
            b = bool(Interp({}, leaf=leaf).ev(dn_val[0]))
            up_fire, dn_fire = a and val, b and rdy
            if up_fire != dn_fire:
                bad = (rdy, val, rv, pv, up_fire, dn_fire)
    cons = f'recv.rdy @= {norm(up_rdy[0])}; send.val @= {norm(dn_val[0])}'
    if bad:
        r.bad(m, 'RandomStall.construct', cons, f"with send.rdy={bad[0]}, recv.val={bad[1]}, rand_value={bad[2]}, stall_prob={bad[3]} the "
              f"producer side fires={bad[4]} but the consumer side fires={bad[5]}: a request is executed without being consumed "
              f"(repeated) or consumed without being executed (lost)", con.lineno)
    else:
        r.ok(m, 'RandomStall.construct', cons)


def _connects_of(con):
    c = Ctx()
    c.con = con
    return _connects(c)


RULES = [rule_layout, rule_amo_table, rule_dispatch, rule_echo, rule_pairing, rule_endian, rule_read_pure, rule_purity]


# ---------------------------------------------------------------------------
# self-test of the checker (thorough tier)
def _m(name, file, old, new, rule=None, count=1):
    return dict(name=name, file=file, old=old, new=new, rule=rule, count=count)


def _memo_edits(read_body, invalidate):
    """MagicMemoryFL with a one-entry memo of the last read"""
    e = [dict(file=FL, old="    s.trace = \"     \"\n    @update_once", new="    s.last_rd_key = None\n    s.last_rd_data = None\n    s.trace = \"     \"\n    @update_once"),
         dict(file=FL, old="    return read_bytearray_bits( s.mem, addr, nbytes )\n", new=read_body)]
    if invalidate:
        e.append(dict(file=FL, old="    s.trace = \"[wr ]\"\n    write_bytearray_bits(", new="    s.trace = \"[wr ]\"\n    s.last_rd_key = None\n    write_bytearray_bits("))
        e.append(dict(file=FL, old="    s.mem[ addr : addr + len(data) ] = data", new="    s.last_rd_key = None\n    s.mem[ addr : addr + len(data) ] = data"))
    return e


_AMO_TAIL_CL = """            resp = resp_classes[i]( req.type_, req.opaque, 0, req.len,
               s.mem.amo( req.type_, req.addr, len_, req.data ) )"""

MUTANTS = [
    # --- AMO table / amo()
    _m('amo-min-unsigned', FL, "lambda m,a : m if m.int() < a.int() else a", "lambda m,a : m if m < a else a", 'R-C18-amo-table'),
    _m('amo-max-uses-min-compare', FL, "lambda m,a : m if m.int() > a.int() else a", "lambda m,a : m if m.int() < a.int() else a", 'R-C18-amo-table'),
    _m('amo-maxu-signed', FL, "MemMsgType.AMO_MAXU : max,", "MemMsgType.AMO_MAXU : lambda m,a : m if m.int() > a.int() else a,", 'R-C18-amo-table'),
    _m('amo-minu-is-max', FL, "MemMsgType.AMO_MINU : min,", "MemMsgType.AMO_MINU : max,", 'R-C18-amo-table'),
    _m('amo-swap-keeps-old', FL, "lambda m,a : a,", "lambda m,a : m,", 'R-C18-amo-table'),
    _m('amo-xor-is-or', FL, "lambda m,a : m^a", "lambda m,a : m|a", 'R-C18-amo-table'),
    _m('amo-or-key-duplicated', FL, "MemMsgType.AMO_XOR  : lambda", "MemMsgType.AMO_OR   : lambda", 'R-C18-amo-table'),
    _m('amo-returns-new-value', FL, "    s.trace = \"[amo]\"\n    return ret", "    s.trace = \"[amo]\"\n    return s.read( addr, nbytes )", 'R-C18-amo-table'),
    _m('amo-operands-swapped', FL, "AMO_FUNS[ int(amo) ]( ret, data )", "AMO_FUNS[ int(amo) ]( data, ret )", 'R-C18-amo-table'),
    _m('amo-writes-fixed-word', FL, "s.write( addr, nbytes, AMO_FUNS", "s.write( addr, 4, AMO_FUNS", 'R-C18-amo-table'),
    # --- message layout / codes
    _m('type-code-collision', MSG, "AMO_XOR    = 11", "AMO_XOR    = 10", 'R-C18-layout'),
    _m('resp-fields-reordered', MSG, "    test   : Bits2\n    len    : mk_bits( clog2(d>>3) )", "    len    : mk_bits( clog2(d>>3) )\n    test   : Bits2", 'R-C18-layout'),
    _m('req-data-nbits-wrong', MSG, "    data_nbits = d\n\n    def __str__( self ):\n      return \"{}:{}:{}:{}:{}\".format(\n        MemMsgType.str[ int( self.type_ ) ],\n        self.opaque,\n        self.addr,",
       "    data_nbits = a\n\n    def __str__( self ):\n      return \"{}:{}:{}:{}:{}\".format(\n        MemMsgType.str[ int( self.type_ ) ],\n        self.opaque,\n        self.addr,", 'R-C18-layout'),
    # --- dispatch (both memories)
    _m('cl-amo-xor-unhandled', CL, "                req.type_ == MemMsgType.AMO_SWAP  or \\\n                req.type_ == MemMsgType.AMO_XOR:", "                req.type_ == MemMsgType.AMO_SWAP:", 'R-C18-dispatch'),
    _m('stream-amo-minu-unhandled', STREAM, "                req.type_ == MemMsgType.AMO_MINU  or \\\n", "", 'R-C18-dispatch'),
    _m('cl-len0-decodes-half', CL, "len_ = req_classes[i].data_nbits >> 3", "len_ = req_classes[i].data_nbits >> 4", 'R-C18-dispatch'),
    _m('stream-write-slice-bits', STREAM, "req.data[0:len_<<3]", "req.data[0:len_<<2]", 'R-C18-dispatch'),
    _m('cl-read-full-word', CL, "s.mem.read( req.addr, len_ )", "s.mem.read( req.addr, req_classes[i].data_nbits >> 3 )", 'R-C18-dispatch'),
    _m('stream-amo-uses-raw-len', STREAM, "s.mem.amo( req.type_, req.addr, len_, req.data )", "s.mem.amo( req.type_, req.addr, int(req.len), req.data )", 'R-C18-dispatch'),
    _m('cl-write-is-read', CL, "            s.mem.write( req.addr, len_, req.data[0:len_<<3] )\n", "            s.mem.read( req.addr, len_ )\n", 'R-C18-dispatch'),
    _m('fl-write-args-swapped', FL, "write_bytearray_bits( s.mem, addr, nbytes, data )", "write_bytearray_bits( s.mem, nbytes, addr, data )", 'R-C18-dispatch'),
    # --- echo
    _m('cl-amo-opaque-zero', CL, _AMO_TAIL_CL, _AMO_TAIL_CL.replace("req.opaque", "0"), 'R-C18-echo'),
    _m('stream-read-sext', STREAM, "zext( s.mem.read( req.addr, len_ )", "sext( s.mem.read( req.addr, len_ )", 'R-C18-echo'),
    _m('stream-read-len-zero', STREAM, "resp = resp_classes[i]( req.type_, req.opaque, 0, req.len,\n                                    zext", "resp = resp_classes[i]( req.type_, req.opaque, 0, 0,\n                                    zext", 'R-C18-echo'),
    _m('cl-write-type-read', CL, "            resp = resp_classes[i]( req.type_, req.opaque, 0, 0, 0 )\n\n          #\n          # AMOs", "            resp = resp_classes[i]( MemMsgType.READ, req.opaque, 0, 0, 0 )\n\n          #\n          # AMOs", 'R-C18-echo'),
    _m('cl-amo-returns-data', CL, _AMO_TAIL_CL, "            s.mem.amo( req.type_, req.addr, len_, req.data )\n            resp = resp_classes[i]( req.type_, req.opaque, 0, req.len, req.data )", 'R-C18-echo'),
    # --- pairing
    _m('stream-ignores-rdy (defect fixed in 58a9601)', STREAM, "if s.req_stalls[i].send.val & s.req_stalls[i].send.rdy:", "if s.req_stalls[i].send.val:", 'R-C18-pairing'),
    _m('cl-ignores-resp-rdy', CL, "if s.req_qs[i].deq.rdy() and s.resp_qs[i].enq.rdy():", "if s.req_qs[i].deq.rdy():", 'R-C18-pairing'),
    _m('cl-guard-or', CL, "if s.req_qs[i].deq.rdy() and s.resp_qs[i].enq.rdy():", "if s.req_qs[i].deq.rdy() or s.resp_qs[i].enq.rdy():", 'R-C18-pairing'),
    _m('cl-resp-other-port', CL, "          s.resp_qs[i].enq( resp )", "          s.resp_qs[i-1].enq( resp )", 'R-C18-pairing'),
    _m('cl-skips-last-port', CL, "for i in range(s.nports):", "for i in range(s.nports-1):", 'R-C18-pairing'),
    _m('cl-wires-cross', CL, "s.resp_qs[i].send    //= s.ifc[i].resp", "s.resp_qs[i].send    //= s.ifc[nports-1-i].resp", 'R-C18-pairing'),
    _m('stream-update-not-once', STREAM, "    @update_once\n    def up_mem():", "    @update\n    def up_mem():", 'R-C18-pairing'),
    _m('cl-inv-no-response', CL, "          elif  req.type_ == MemMsgType.INV:\n            resp = resp_classes[i]( req.type_, req.opaque, 0, 0, 0 )", "          elif  req.type_ == MemMsgType.INV:\n            pass", 'R-C18-pairing'),
    _m('stream-rdy-unwired', STREAM, "      s.req_stalls[i].send.rdy //= s.resp_qs[i].recv.rdy\n", "      s.req_stalls[i].send.rdy //= 1\n", 'R-C18-pairing'),
    # --- byte helpers / image
    _m('read-big-endian', BYTES, "    addr  = begin + nbytes - 1\n\n    while addr >= begin:\n      ret = (ret << 8) + arr[addr]\n      addr -= 1",
       "    addr  = begin\n\n    while addr < begin + nbytes:\n      ret = (ret << 8) + arr[addr]\n      addr += 1", 'R-C18-endian'),
    _m('read-misses-first-byte', BYTES, "while addr >= begin:", "while addr > begin:", 'R-C18-endian'),
    _m('write-mask-7-bits', BYTES, "data & 255", "data & 127", 'R-C18-endian'),
    _m('write-one-byte-too-many', BYTES, "while addr < end:", "while addr <= end:", 'R-C18-endian'),
    _m('write-shift-nibble', BYTES, "data >>= 8", "data >>= 4", 'R-C18-endian'),
    _m('read-width-bytes', BYTES, "return Bits( nbytes << 3, ret )", "return Bits( nbytes << 2, ret )", 'R-C18-endian'),
    _m('read-mem-off-by-one', FL, "return s.mem[ addr : addr + size ]", "return s.mem[ addr : addr + size - 1 ]", 'R-C18-endian'),
    _m('write-mem-shifted', FL, "s.mem[ addr : addr + len(data) ] = data", "s.mem[ addr + 1 : addr + 1 + len(data) ] = data", 'R-C18-endian'),
    _m('read-word-fast-path-ignores-alignment', BYTES, "    begin = int(addr)\n    addr  = begin + nbytes - 1\n",
       "    begin = int(addr)\n    if nbytes == 4:\n      return Bits( 32, memoryview( arr ).cast( 'I' )[ begin >> 2 ] )\n    addr  = begin + nbytes - 1\n", 'R-C18-endian'),
    dict(name='write-unsliced-data-into-to_bytes-helper', file=BYTES, rule='R-C18', edits=[
        dict(file=BYTES, old="    end  = addr + nbytes\n\n    while addr < end:\n      arr[addr] = data & 255\n      data >>= 8\n      addr += 1",
             new="    arr[ addr : addr+nbytes ] = int(data).to_bytes( nbytes, 'little' )"),
        dict(file=CL, old="s.mem.write( req.addr, len_, req.data[0:len_<<3] )", new="s.mem.write( req.addr, len_, req.data )"),
        dict(file=STREAM, old="s.mem.write( req.addr, len_, req.data[0:len_<<3] )", new="s.mem.write( req.addr, len_, req.data )")]),
    dict(name='stream-unsliced-data-into-to_bytes-helper', file=BYTES, rule='R-C18-dispatch', edits=[
        dict(file=BYTES, old="    end  = addr + nbytes\n\n    while addr < end:\n      arr[addr] = data & 255\n      data >>= 8\n      addr += 1",
             new="    arr[ addr : addr+nbytes ] = int(data).to_bytes( nbytes, 'little' )"),
        dict(file=STREAM, old="s.mem.write( req.addr, len_, req.data[0:len_<<3] )", new="s.mem.write( req.addr, len_, req.data )")]),
    _m('write-to_bytes-big-endian', BYTES, "    end  = addr + nbytes\n\n    while addr < end:\n      arr[addr] = data & 255\n      data >>= 8\n      addr += 1",
       "    arr[ addr : addr+nbytes ] = int(data).to_bytes( nbytes, 'big' )", 'R-C18-endian'),
    dict(name='fl-read-memo-keyed-by-address-only', file=FL, rule='R-C18-read-pure', edits=_memo_edits(
        "    addr = int(addr)\n    if addr != s.last_rd_key:\n      s.last_rd_key = addr\n      s.last_rd_data = read_bytearray_bits( s.mem, addr, nbytes )\n    return s.last_rd_data.clone()\n",
        True)),
    dict(name='fl-read-memo-survives-writes', file=FL, rule='R-C18-read-pure', edits=_memo_edits(
        "    key = ( int(addr), nbytes )\n    if key != s.last_rd_key:\n      s.last_rd_key = key\n      s.last_rd_data = read_bytearray_bits( s.mem, addr, nbytes )\n    return s.last_rd_data.clone()\n",
        False)),
    dict(name='helpers-wrap-address-with-len-mask', file=BYTES, rule='R-C18-endian', edits=[
        dict(file=BYTES, old="    begin = int(addr)\n", new="    begin = int(addr) & (len(arr) - 1)\n"),
        dict(file=BYTES, old="    addr = int(addr)\n    end  = addr + nbytes", new="    addr = int(addr) & (len(arr) - 1)\n    end  = addr + nbytes")]),
    _m('write-helper-wraps-address-modulo', BYTES, "    addr = int(addr)\n    end  = addr + nbytes", "    addr = int(addr) % (len(arr) >> 1)\n    end  = addr + nbytes", 'R-C18-endian'),
    _m('read-mem-returns-live-view', FL, "    return s.mem[ addr : addr + size ]", "    return memoryview( s.mem )[ addr : addr + size ]", 'R-C18-endian'),
    _m('read-mem-returns-the-array', FL, "    return s.mem[ addr : addr + size ]", "    return s.mem", 'R-C18-endian'),
    _m('cl-range-guard-off-by-one', CL, "          if   req.type_ == MemMsgType.READ:", "          if   int(req.addr) + len_ >= mem_nbytes:\n            resp = resp_classes[i]( req.type_, req.opaque, 0, req.len, 0 )\n          elif req.type_ == MemMsgType.READ:", 'R-C18-dispatch'),
    _m('stream-range-guard-drops-upper-half', STREAM, "          if   req.type_ == MemMsgType.READ:", "          if   int(req.addr) >= mem_nbytes >> 1:\n            resp = resp_classes[i]( req.type_, req.opaque, 0, req.len, 0 )\n          elif req.type_ == MemMsgType.READ:", 'R-C18-dispatch'),
    _m('write-helper-end-computed-on-bits-address', BYTES, "    addr = int(addr)\n    end  = addr + nbytes\n", "    end  = addr + nbytes\n    addr = int(addr)\n", 'R-C18-endian'),
    _m('read-helper-last-byte-on-bits-address', BYTES, "    begin = int(addr)\n    addr  = begin + nbytes - 1\n", "    begin = int(addr)\n    addr  = int(addr + (nbytes - 1))\n", 'R-C18-endian'),
    _m('stream-len0-decoded-from-field-width', STREAM, "          len_ = int(req.len)\n          if len_ == 0: len_ = req_classes[i].data_nbits >> 3\n", "          len_ = int(req.len) or (1 << req.len.nbits)\n", 'R-C18-dispatch'),
    dict(name='cl-inv-writes-memory', file=CL, rule='R-C18-dispatch', edits=[
        dict(file=CL, old="          elif  req.type_ == MemMsgType.WRITE:\n            s.mem.write( req.addr, len_, req.data[0:len_<<3] )\n",
             new="          elif  req.type_ == MemMsgType.WRITE or \\\n                req.type_ == MemMsgType.INV   or \\\n                req.type_ == MemMsgType.FLUSH:\n            if req.type_ < MemMsgType.FLUSH:\n              s.mem.write( req.addr, len_, req.data[0:len_<<3] )\n"),
        dict(file=CL, old="          # INV\n          elif  req.type_ == MemMsgType.INV:\n            resp = resp_classes[i]( req.type_, req.opaque, 0, 0, 0 )\n\n          # FLUSH\n          elif  req.type_ == MemMsgType.FLUSH:\n            resp = resp_classes[i]( req.type_, req.opaque, 0, 0, 0 )\n\n", new="")]),
    dict(name='cl-backpressured-port-breaks-loop', file=CL, rule='R-C18-pairing', edits=[
        dict(file=CL, old="        if s.req_qs[i].deq.rdy() and s.resp_qs[i].enq.rdy():\n", new="        if not s.req_qs[i].deq.rdy():\n          continue\n\n        if s.resp_qs[i].enq.rdy():\n"),
        dict(file=CL, old="          s.resp_qs[i].enq( resp )\n", new="          s.resp_qs[i].enq( resp )\n\n        else:\n          break\n")]),
    _m('stream-response-carried-to-next-port', STREAM, "          else:\n            assert False\n", "          else:\n            pass\n", 'R-C18-pairing'),
    _m('stream-memory-size-not-forwarded', STREAM, "s.mem = MagicMemoryFL( mem_nbytes )", "s.mem = MagicMemoryFL()", 'R-C18-pairing'),
    _m('cl-memory-size-halved', CL, "s.mem = MagicMemoryFL( mem_nbytes )", "s.mem = MagicMemoryFL( mem_nbytes >> 1 )", 'R-C18-pairing'),
    _m('fl-amo-aligns-address', FL, "    ret = s.read( addr, nbytes )\n    s.write( addr, nbytes, AMO_FUNS", "    addr = int(addr) & ~(nbytes-1)\n    ret = s.read( addr, nbytes )\n    s.write( addr, nbytes, AMO_FUNS", 'R-C18-amo-table'),
    _m('cl-port-loop-over-type-table', CL, "for i in range(s.nports):", "for i in range(len(req_classes)):", 'R-C18-pairing'),
    _m('write-mem-skips-zero-bytes', FL, "    s.mem[ addr : addr + len(data) ] = data", "    mem = s.mem\n    for i, byte in enumerate( data ):\n      if not byte: continue\n      mem[ addr+i ] = byte", 'R-C18-endian'),
    _m('write-mem-loop-misses-last-byte', FL, "    s.mem[ addr : addr + len(data) ] = data", "    for i in range( len(data) - 1 ):\n      s.mem[ addr+i ] = data[i]", 'R-C18-endian'),
    dict(name='stream-full-width-keyed-by-class-name', file=STREAM, rule='R-C18-dispatch', edits=[
        dict(file=STREAM, old="    s.mem = MagicMemoryFL( mem_nbytes )\n", new="    s.mem = MagicMemoryFL( mem_nbytes )\n    full_nbytes = { T.__name__ : T.data_nbits >> 3 for T in req_classes }\n"),
        dict(file=STREAM, old="          len_ = int(req.len)\n          if len_ == 0: len_ = req_classes[i].data_nbits >> 3\n", new="          len_ = int(req.len) or full_nbytes[ req.__class__.__name__ ]\n")]),
    dict(name='cl-full-width-of-port-zero', file=CL, rule='R-C18-dispatch', edits=[
        dict(file=CL, old="          if len_ == 0: len_ = req_classes[i].data_nbits >> 3", new="          if len_ == 0: len_ = req_classes[0].data_nbits >> 3")]),
    _m('stream-wiring-helper-local-fixed-port', STREAM, "      s.req_stalls[i].recv //= s.ifc[i].req\n", "      req_stall = s.req_stalls[0]\n      req_stall.recv //= s.ifc[i].req\n", 'R-C18-pairing'),
    dict(name='stream-stores-committed-at-clock-edge', file=STREAM, rule='R-C18-pairing', edits=[
        dict(file=STREAM, old="    @update_once\n    def up_mem():\n\n      for i in range(nports):", new="    s.store_q = []\n\n    @update_ff\n    def up_store():\n      for addr, nbytes, data in s.store_q:\n        s.mem.write( addr, nbytes, data )\n      s.store_q.clear()\n\n    @update_once\n    def up_mem():\n\n      for i in range(nports):"),
        dict(file=STREAM, old="            s.mem.write( req.addr, len_, req.data[0:len_<<3] )\n", new="            s.store_q.append( (int(req.addr), len_, req.data[0:len_<<3]) )\n")]),
    _m('cl-write-queued-never-stored', CL, "            s.mem.write( req.addr, len_, req.data[0:len_<<3] )\n", "            s.pending = ( req.addr, len_, req.data[0:len_<<3] )\n", 'R-C18-dispatch'),
    # --- purity / FIFO shape
    _m('deq-pipe-no-copy', DELAY, "    s.pipeline[0] = clone_deepcopy(msg)\n\n  @non_blocking( lambda s: s.pipeline[-1] is not None )", "    s.pipeline[0] = msg\n\n  @non_blocking( lambda s: s.pipeline[-1] is not None )", 'R-C18-purity'),
    _m('deq-pipe-rotates-when-slot0-empty', DELAY, "        if s.pipeline[-1] is None:\n          s.pipeline.rotate()", "        if s.pipeline[0] is None:\n          s.pipeline.rotate()", 'R-C18-purity'),
    _m('send-pipe-keeps-sent-message', DELAY, "            s.send( s.pipeline[-1] )\n            s.pipeline[-1] = None\n", "            s.send( s.pipeline[-1] )\n", 'R-C18-purity'),
    _m('send-pipe-sends-slot0', DELAY, "s.send( s.pipeline[-1] )", "s.send( s.pipeline[0] )", 'R-C18-purity'),
    _m('deq-returns-after-clear', DELAY, "    ret = s.pipeline[-1]\n    s.pipeline[-1] = None\n    return ret", "    s.pipeline[-1] = None\n    return s.pipeline[-2]", 'R-C18-purity'),
    _m('inelastic-rotate-unconditional', STREAM, "        if s.send.rdy:\n          s.delay_pipe[-1] = None\n          s.delay_pipe.rotate()", "        if s.send.rdy:\n          s.delay_pipe[-1] = None\n        s.delay_pipe.rotate()", 'R-C18-purity'),
    _m('inelastic-accepts-without-rdy', STREAM, "if s.recv.rdy & s.recv.val:", "if s.recv.val:", 'R-C18-purity'),
    _m('inelastic-no-copy', STREAM, "s.delay_pipe[0] = clone_deepcopy( s.recv.msg )", "s.delay_pipe[0] = s.recv.msg", 'R-C18-purity'),
    _m('stall-ignores-consumer-rdy', STALL, "lambda s: s.stall_rgen.random() > s.stall_prob and s.send.rdy()", "lambda s: s.stall_rgen.random() > s.stall_prob or s.send.rdy()", 'R-C18-purity'),
    _m('random-stall-sides-disagree', STREAM, "s.send.val @= s.recv.val & (s.rand_value > stall_prob)", "s.send.val @= s.recv.val & (s.rand_value >= stall_prob)", 'R-C18-purity'),
    _m('random-value-into-message', STALL, "    s.send( msg )", "    msg.opaque @= int( s.stall_rgen.random() * 3 )\n    s.send( msg )", 'R-C18-purity'),
    _m('latency-reaches-up-mem', CL, "          if len_ == 0: len_ = req_classes[i].data_nbits >> 3", "          if len_ == 0 or latency > 7: len_ = req_classes[i].data_nbits >> 3", 'R-C18'),
]

EQUIV = [
    _m('amo-min-other-branch-order', FL, "lambda m,a : m if m.int() < a.int() else a", "lambda m,a : a if a.int() <= m.int() else m"),
    _m('amo-minu-lambda', FL, "MemMsgType.AMO_MINU : min,", "MemMsgType.AMO_MINU : lambda m,a : m if m < a else a,"),
    _m('amo-add-commuted', FL, "lambda m,a : m+a", "lambda m,a : a+m"),
    _m('amo-key-order', FL, "             MemMsgType.AMO_AND  : lambda m,a : m&a,\n             MemMsgType.AMO_OR   : lambda m,a : m|a,", "             MemMsgType.AMO_OR   : lambda m,a : m|a,\n             MemMsgType.AMO_AND  : lambda m,a : m&a,"),
    _m('amo-local-renamed', FL, "    ret = s.read( addr, nbytes )\n    s.write( addr, nbytes, AMO_FUNS[ int(amo) ]( ret, data ) )\n    s.trace = \"[amo]\"\n    return ret",
       "    old = s.read( addr, nbytes )\n    new = AMO_FUNS[ int(amo) ]( old, data )\n    s.write( addr, nbytes, new )\n    s.trace = \"[amo]\"\n    return old"),
    _m('cl-amo-test-as-membership', CL, """          elif  req.type_ == MemMsgType.AMO_ADD   or \\
                req.type_ == MemMsgType.AMO_AND   or \\
                req.type_ == MemMsgType.AMO_MAX   or \\
                req.type_ == MemMsgType.AMO_MAXU  or \\
                req.type_ == MemMsgType.AMO_MIN   or \\
                req.type_ == MemMsgType.AMO_MINU  or \\
                req.type_ == MemMsgType.AMO_OR    or \\
                req.type_ == MemMsgType.AMO_SWAP  or \\
                req.type_ == MemMsgType.AMO_XOR:""", """          elif MemMsgType.AMO_ADD <= int(req.type_) <= MemMsgType.AMO_XOR:"""),
    _m('cl-len-decode-rewritten', CL, "          len_ = int(req.len)\n          if len_ == 0: len_ = req_classes[i].data_nbits >> 3", "          nbytes = int(req.len)\n          if not nbytes:\n            nbytes = req_classes[i].data_nbits // 8\n          len_ = nbytes"),
    _m('stream-write-slice-times-8', STREAM, "req.data[0:len_<<3]", "req.data[0:8*len_]"),
    _m('stream-guard-rdy-of-pipe', STREAM, "if s.req_stalls[i].send.val & s.req_stalls[i].send.rdy:", "if s.resp_qs[i].recv.rdy & s.req_stalls[i].send.val:"),
    _m('cl-guard-nested', CL, "if s.req_qs[i].deq.rdy() and s.resp_qs[i].enq.rdy():", "if s.resp_qs[i].enq.rdy() and s.req_qs[i].deq.rdy() and True:"),
    _m('cl-loop-over-param', CL, "for i in range(s.nports):", "for i in range(0, nports):"),
    _m('read-fold-with-or', BYTES, "ret = (ret << 8) + arr[addr]", "ret = (ret << 8) | arr[addr]"),
    _m('read-fold-with-mul', BYTES, "ret = (ret << 8) + arr[addr]", "ret = ret * 256 + arr[addr]"),
    _m('write-as-for-loop', BYTES, "    while addr < end:\n      arr[addr] = data & 255\n      data >>= 8\n      addr += 1", "    for k in range( addr, end ):\n      arr[k] = data & 0xff\n      data = data >> 8"),
    _m('deq-pipe-guard-negated-form', DELAY, "        if s.pipeline[-1] is None:\n          s.pipeline.rotate()", "        if not (s.pipeline[-1] is not None):\n          s.pipeline.rotate( 1 )"),
    _m('send-pipe-branches-swapped', DELAY, """        if s.pipeline[-1] is not None:
          if s.send.rdy():
            s.send( s.pipeline[-1] )
            s.pipeline[-1] = None
            s.pipeline.rotate()
        else:
          s.pipeline.rotate()""", """        if s.pipeline[-1] is None:
          s.pipeline.rotate()
        elif s.send.rdy():
          msg = s.pipeline[-1]
          s.send( msg )
          s.pipeline[-1] = None
          s.pipeline.rotate()"""),
    _m('write-mem-helper-local', FL, "    assert len(s.mem) > (addr + len(data))\n    s.mem[ addr : addr + len(data) ] = data",
       "    end = addr + len(data)\n    assert len(s.mem) > end\n    s.mem[ addr : end ] = data"),
    _m('read-mem-helper-locals', FL, "    assert len(s.mem) > (addr + size)\n    return s.mem[ addr : addr + size ]",
       "    stop = addr + size\n    assert stop < len(s.mem)\n    img = s.mem[ addr : stop ]\n    return img"),
    _m('fl-read-helper-locals', FL, "    return read_bytearray_bits( s.mem, addr, nbytes )", "    a = int(addr)\n    value = read_bytearray_bits( s.mem, a, nbytes )\n    return value"),
    _m('cl-up-mem-helper-locals', CL, "          req = s.req_qs[i].deq()\n          len_ = int(req.len)", "          req = s.req_qs[i].deq()\n          opq = req.opaque\n          ty = req.type_\n          len_ = int(req.len)"),
    _m('cl-amo-old-value-local', CL, _AMO_TAIL_CL, "            old = s.mem.amo( req.type_, req.addr, len_, req.data )\n            resp = resp_classes[i]( req.type_, req.opaque, 0, req.len, old )"),
    _m('cl-guard-helper-local', CL, "        if s.req_qs[i].deq.rdy() and s.resp_qs[i].enq.rdy():\n", "        can_go = s.req_qs[i].deq.rdy() and s.resp_qs[i].enq.rdy()\n        if can_go:\n"),
    _m('stream-type-local', STREAM, "          if   req.type_ == MemMsgType.READ:", "          ty = req.type_\n          if   ty == MemMsgType.READ:"),
    _m('deq-pipe-copy-local', DELAY, "    s.pipeline[0] = clone_deepcopy(msg)\n\n  @non_blocking( lambda s: s.pipeline[-1] is not None )", "    copy = clone_deepcopy(msg)\n    s.pipeline[0] = copy\n\n  @non_blocking( lambda s: s.pipeline[-1] is not None )"),
    _m('inelastic-valid-branches-flipped', STREAM, "      if s.delay_pipe[-1] is None:\n        s.send.val <<= 0\n      else:\n        s.send.val <<= 1\n        s.send.msg <<= s.delay_pipe[-1]",
       "      if s.delay_pipe[-1] is not None:\n        s.send.val <<= 1\n        s.send.msg <<= s.delay_pipe[-1]\n      else:\n        s.send.val <<= 0"),
    _m('write-helper-to_bytes-callers-slice', BYTES, "    end  = addr + nbytes\n\n    while addr < end:\n      arr[addr] = data & 255\n      data >>= 8\n      addr += 1",
       "    arr[ addr : addr+nbytes ] = int(data).to_bytes( nbytes, 'little' )"),
    dict(name='callers-pass-whole-data-helper-truncates', file=CL, edits=[
        dict(file=CL, old="s.mem.write( req.addr, len_, req.data[0:len_<<3] )", new="s.mem.write( req.addr, len_, req.data )"),
        dict(file=STREAM, old="s.mem.write( req.addr, len_, req.data[0:len_<<3] )", new="s.mem.write( req.addr, len_, req.data )")]),
    _m('read-word-fast-path-aligned-only', BYTES, "    begin = int(addr)\n    addr  = begin + nbytes - 1\n",
       "    begin = int(addr)\n    if nbytes == 4 and begin & 3 == 0:\n      return Bits( 32, memoryview( arr ).cast( 'I' )[ begin >> 2 ] )\n    addr  = begin + nbytes - 1\n"),
    _m('read-via-int-from_bytes', BYTES, "    addr  = begin + nbytes - 1\n\n    while addr >= begin:\n      ret = (ret << 8) + arr[addr]\n      addr -= 1\n",
       "    ret = int.from_bytes( arr[ begin : begin+nbytes ], 'little' )\n"),
    dict(name='fl-read-memo-keyed-by-addr-and-size-invalidated', file=FL, edits=_memo_edits(
        "    key = ( int(addr), nbytes )\n    if key != s.last_rd_key:\n      s.last_rd_key = key\n      s.last_rd_data = read_bytearray_bits( s.mem, addr, nbytes )\n    return s.last_rd_data.clone()\n",
        True)),
    _m('cl-range-guard-correct-bound', CL, "          if   req.type_ == MemMsgType.READ:", "          if   int(req.addr) + len_ > mem_nbytes:\n            resp = resp_classes[i]( req.type_, req.opaque, 0, req.len, 0 )\n          elif req.type_ == MemMsgType.READ:"),
    _m('read-mem-copy-of-view', FL, "    return s.mem[ addr : addr + size ]", "    return bytearray( memoryview( s.mem )[ addr : addr + size ] )"),
    _m('helper-address-mask-identity', BYTES, "    begin = int(addr)\n", "    begin = int(addr) & ((1 << 64) - 1)\n"),
    dict(name='cl-guard-split-with-continue', file=CL, edits=[
        dict(file=CL, old="        if s.req_qs[i].deq.rdy() and s.resp_qs[i].enq.rdy():\n", new="        if not s.req_qs[i].deq.rdy():\n          continue\n\n        if s.resp_qs[i].enq.rdy():\n"),
        dict(file=CL, old="          s.resp_qs[i].enq( resp )\n", new="          s.resp_qs[i].enq( resp )\n\n        else:\n          continue\n")]),
    dict(name='cl-inv-flush-merged-without-write', file=CL, edits=[
        dict(file=CL, old="          elif  req.type_ == MemMsgType.WRITE:\n            s.mem.write( req.addr, len_, req.data[0:len_<<3] )\n",
             new="          elif  req.type_ == MemMsgType.WRITE or \\\n                req.type_ == MemMsgType.INV   or \\\n                req.type_ == MemMsgType.FLUSH:\n            if req.type_ < MemMsgType.INV:\n              s.mem.write( req.addr, len_, req.data[0:len_<<3] )\n"),
        dict(file=CL, old="          # INV\n          elif  req.type_ == MemMsgType.INV:\n            resp = resp_classes[i]( req.type_, req.opaque, 0, 0, 0 )\n\n          # FLUSH\n          elif  req.type_ == MemMsgType.FLUSH:\n            resp = resp_classes[i]( req.type_, req.opaque, 0, 0, 0 )\n\n", new="")]),
    _m('stream-len0-decoded-with-or', STREAM, "          len_ = int(req.len)\n          if len_ == 0: len_ = req_classes[i].data_nbits >> 3\n", "          len_ = int(req.len) or req_classes[i].data_nbits // 8\n"),
    _m('write-helper-int-of-sum', BYTES, "    addr = int(addr)\n    end  = addr + nbytes\n", "    end  = int(addr) + nbytes\n    addr = int(addr)\n"),
    _m('cl-port-loop-over-queue-list', CL, "for i in range(s.nports):", "for i in range(len(s.req_qs)):"),
    _m('stream-memory-size-by-keyword', STREAM, "s.mem = MagicMemoryFL( mem_nbytes )", "nbytes = mem_nbytes\n    s.mem = MagicMemoryFL( mem_nbytes=nbytes )"),
    _m('fl-amo-int-address', FL, "    ret = s.read( addr, nbytes )\n    s.write( addr, nbytes, AMO_FUNS", "    addr = int(addr)\n    ret = s.read( addr, nbytes )\n    s.write( addr, nbytes, AMO_FUNS"),
    _m('write-mem-index-loop', FL, "    s.mem[ addr : addr + len(data) ] = data", "    for i in range( len(data) ):\n      s.mem[ addr+i ] = data[i]"),
    _m('write-mem-enumerate-loop', FL, "    s.mem[ addr : addr + len(data) ] = data", "    mem = s.mem\n    for i, byte in enumerate( data ):\n      mem[ addr+i ] = byte"),
    dict(name='stream-full-width-list-by-port', file=STREAM, edits=[
        dict(file=STREAM, old="    s.mem = MagicMemoryFL( mem_nbytes )\n", new="    s.mem = MagicMemoryFL( mem_nbytes )\n    full_nbytes = [ T.data_nbits >> 3 for T in req_classes ]\n"),
        dict(file=STREAM, old="          len_ = int(req.len)\n          if len_ == 0: len_ = req_classes[i].data_nbits >> 3\n", new="          len_ = int(req.len) or full_nbytes[ i ]\n")]),
    dict(name='stream-full-width-dict-by-port-index', file=STREAM, edits=[
        dict(file=STREAM, old="    s.mem = MagicMemoryFL( mem_nbytes )\n", new="    s.mem = MagicMemoryFL( mem_nbytes )\n    full_nbytes = { k : T.data_nbits >> 3 for k, T in enumerate( req_classes ) }\n"),
        dict(file=STREAM, old="          len_ = int(req.len)\n          if len_ == 0: len_ = req_classes[i].data_nbits >> 3\n", new="          len_ = int(req.len) or full_nbytes[ i ]\n")]),
    _m('stream-wiring-helper-locals', STREAM, "      s.req_stalls[i].recv //= s.ifc[i].req\n      # s.req_stalls[i].send //= s.req_qs[i].recv\n      s.resp_qs[i].send    //= s.ifc[i].resp\n\n      s.req_stalls[i].send.rdy //= s.resp_qs[i].recv.rdy\n      s.req_stalls[i].send.val //= s.resp_qs[i].recv.val\n",
       "      req_stall = s.req_stalls[i]\n      resp_q    = s.resp_qs[i]\n\n      req_stall.recv //= s.ifc[i].req\n      resp_q.send    //= s.ifc[i].resp\n\n      req_stall.send.rdy //= resp_q.recv.rdy\n      req_stall.send.val //= resp_q.recv.val\n"),
    _m('stream-extra-read-only-block', STREAM, "    @update_once\n    def up_mem():\n\n      for i in range(nports):", "    @update_once\n    def up_peek():\n      s.first_word = s.mem.read( 0, 4 )\n\n    @update_once\n    def up_mem():\n\n      for i in range(nports):"),
    _m('stall-rdy-conjuncts-swapped', STALL, "lambda s: s.stall_rgen.random() > s.stall_prob and s.send.rdy()", "lambda s: s.send.rdy() and s.stall_rgen.random() > s.stall_prob"),
]

LEVEL_TEXT = ("Static analysis of the magic memories' code shape: type-code routing of both up_mem blocks evaluated per message "
              "code, AMO functions compared by meaning with a reference table over all 3-bit operand pairs, response fields "
              "mapped through the extracted message layout, handshake guards decided by Boolean enumeration, byte helpers "
              "evaluated over symbolic bytes, FIFO/purity/taint facts of the delay and stall components. It decides necessary "
              "conditions that hold for every port count, latency, stall probability and seed; it does not decide a run: "
              "request histories, seeds and schedules are not enumerated and no code is executed.")
LEVEL_NOTE = ("Clauses only. Not decided: in-order delivery and final image of concrete histories/seeds, CL method scheduling. "
              "Trusted: Python int/bytearray/deque semantics, Bits semantics (C04/C05), clone_deepcopy, message classes come "
              "from mk_mem_msg. Found and reported: stream MagicMemoryRTL executed a valid-but-not-accepted request every "
              "cycle (AMO applied repeatedly under back-pressure), fixed in /repo 58a9601.")
TECHNIQUE = ("ast extraction + finite abstract evaluation (sa.minieval extended): per-code routing, 3-bit exhaustive AMO meaning, "
             "Boolean enumeration of handshake guards, symbolic-byte evaluation of byte helpers, dominance/pairing/effect/taint "
             "rules on delay and stall components")
