"""C13 -- Translation is deterministic; module names never alias different hardware.  (DESIGN.md section 4, C13)"""
import ast
import re

from sa.astutil import norm, guards_of, walk_no_nested, always_exits, parent, enclosing, qualname
from sa.errors import AnalysisError
from sa.loader import Module
from sa.minieval import Evaluator
from sa.report import RuleResult
from sa import c13_util as T

PID = 'C13'

GENERIC = 'pymtl3/passes/backends/generic/'
VTRANS = 'pymtl3/passes/backends/verilog/translation/'
YTRANS = 'pymtl3/passes/backends/yosys/translation/'
RTLIR = 'pymtl3/passes/rtlir/'
VUTIL = 'pymtl3/passes/backends/verilog/util/utility.py'
RUTIL = 'pymtl3/passes/rtlir/util/utility.py'
RTYPE = 'pymtl3/passes/rtlir/rtype/RTLIRType.py'
RDTYPE = 'pymtl3/passes/rtlir/rtype/RTLIRDataType.py'
TRANSLATOR = GENERIC + 'RTLIRTranslator.py'
VTRANSLATOR = VTRANS + 'VTranslator.py'
YTRANSLATOR = YTRANS + 'YosysTranslator.py'
VSL4 = VTRANS + 'structural/VStructuralTranslatorL4.py'
YSL4 = YTRANS + 'structural/YosysStructuralTranslatorL4.py'
VSL1 = VTRANS + 'structural/VStructuralTranslatorL1.py'
SL1 = GENERIC + 'structural/StructuralTranslatorL1.py'
SL4 = GENERIC + 'structural/StructuralTranslatorL4.py'
BL1 = GENERIC + 'behavioral/BehavioralTranslatorL1.py'
BL5 = GENERIC + 'behavioral/BehavioralTranslatorL5.py'
BASE = GENERIC + 'BaseRTLIRTranslator.py'
SGEN1 = RTLIR + 'structural/StructuralRTLIRGenL1Pass.py'
SGEN4 = RTLIR + 'structural/StructuralRTLIRGenL4Pass.py'
BGEN1 = RTLIR + 'behavioral/BehavioralRTLIRGenL1Pass.py'
VPASS = VTRANS + 'VerilogTranslationPass.py'
YBL1 = YTRANS + 'behavioral/YosysBehavioralTranslatorL1.py'
TCL2 = RTLIR + 'behavioral/BehavioralRTLIRTypeCheckL2Pass.py'
COMPONENT = 'pymtl3/dsl/Component.py'

SCOPE_DIRS = ('pymtl3/passes/rtlir', 'pymtl3/passes/backends/generic', 'pymtl3/passes/backends/verilog/translation',
              'pymtl3/passes/backends/yosys/translation')
# Modules under the scope directories that no translation pass uses: a graphviz debugging aid and the offline
# generator script of BehavioralRTLIR.py.  Each entry is honoured only while nothing else in the scope refers to
# the names it defines (checked on every run); otherwise the module is analysed like all others.
DEBUG_ONLY = {
    RTLIR + 'behavioral/BehavioralRTLIRVisualizationPass.py':
        "graphviz visualisation pass (writes one file per update block, named after the block); not used by any "
        "translation pass",
    RTLIR + 'behavioral/BehavioralRTLIRImplGen.py':
        "offline generator script for BehavioralRTLIR.py (run by hand, __main__ only)",
}

EXPLANATION = (
    "Static analysis (ast; nothing imported or run) of the translation code: pymtl3/passes/rtlir/**, "
    "backends/generic/**, backends/verilog/translation/**, backends/yosys/translation/**, verilog/util/utility.py, "
    "with pymtl3/dsl/** and the verilog placeholder modules analysed for summaries. "
    "R-C13-unordered: a whole-program orderedness (hash-seed taint) analysis -- sets / frozensets / set algebra / "
    "set comprehensions and everything materialised from them without sorting (through function returns, context "
    "sensitive on an optional sort key; attribute fields; component metadata; parameters; containers of sets) are "
    "'unordered'; a finding is an order-observing consumption of an unordered value in translation code: a loop or "
    "comprehension over it whose body accumulates into a non-local ordered structure / text or calls a function that "
    "does, join(), text formatting, passing it to an unresolvable callee, returning it to dynamically dispatched "
    "callers; membership tests, len/any/all, set building, sorted() and appends to a local that is sorted later are "
    "not findings. It also rejects hash()/id()/random/time/directory-listing sources outside __hash__. This decides "
    "the necessary condition 'no emitted order depends on PYTHONHASHSEED'. "
    "R-C13-dedup: every first-writer-wins table of emitted definitions (`if k not in d: d[k] = v`) is keyed by the "
    "object itself / a record pairing, or compares identity on the hit path (fires on translate_component: D8). "
    "R-C13-name: get_component_full_name encodes every (name, value) parameter pair and the no-parameter marker, "
    "_gen_parameters records every construct argument, get_component_unique_name / Struct.get_name hash the complete "
    "suffix with a keyless >=64 bit digest, keep the class name, and the pass-through guard of "
    "get_component_unique_name is evaluated for every printable ASCII character: any character outside "
    "[A-Za-z0-9_$] must force hashing (fires today: D13). "
    "R-C13-once: rtlir_tr_components emits every value of the components table exactly once, translate_component "
    "visits every child before storing, definition and instantiation names come from the same function with the same "
    "precedence of explicit names. R-C13-instname: the module name of an instantiated sub-component is computed per "
    "array element from that element's own RTLIR (fires on the Yosys backend, which names every element of "
    "`[C(p=i) for i in range(n)]` after element 0: D14). "
    "NOT decided: that equal names imply equal bodies for same-class instances whose construct() depends on "
    "non-parameter state; separator ambiguity inside parameter strings; order effects hidden behind calls the resolver "
    "cannot follow into modules outside the analysed set (assumed order-preserving); which of several errors is raised "
    "first.")
ASSUMPTIONS = [
    "Python semantics: dict / list / tuple iterate in insertion order; set / frozenset iteration order and str hashes "
    "depend on PYTHONHASHSEED; sorted()/list.sort() with or without key give a deterministic order (the key is "
    "assumed injective on the elements, e.g. repr of components, __name__ of update blocks of one component)",
    "a supplied sort key argument is not None/falsy; parameters whose call sites cannot be resolved hold ordered "
    "values (an unordered argument to an unresolvable callee is itself reported)",
    "plain attribute rebinding and set.add are not ordered accumulations; functions of modules outside the analysed "
    "file set return ordered values",
    "attribute fields and metadata keys are merged by name (a field that is unordered in one class is unordered "
    "everywhere): over-approximation only",
    "legal SystemVerilog simple identifier alphabet is [A-Za-z0-9_$]; str() of a parameter value can produce any "
    "printable ASCII character",
    "blake2b without key/salt is deterministic across processes",
]

LEGAL = set('abcdefghijklmnopqrstuvwxyzABCDEFGHIJKLMNOPQRSTUVWXYZ0123456789_$')
PRINTABLE = [chr(c) for c in range(0x20, 0x7f)]

PROBE_REL = GENERIC + '_c13_probe_.py'
PROBE_SRC = '''
class _C13Probe:
  def bad_children( s, m ):
    for child in m.get_child_components():
      s.emit( child )
  def good_children( s, m ):
    for child in m.get_child_components( repr ):
      s.emit( child )
  def good_children_kw( s, m ):
    for child in m.get_child_components( sort_key = repr ):
      s.emit( child )
  def bad_join( s, m ):
    return ", ".join( x.__name__ for x in m.get_update_blocks() )
  def good_sorted( s, m ):
    return ", ".join( sorted( x.__name__ for x in m.get_update_blocks() ) )
  def bad_local( s, m ):
    names = []
    for blk in m.get_update_blocks() - m.get_update_ff():
      names.append( blk.__name__ )
    s._c13p_decls = "\\n".join( names )
  def good_local( s, m ):
    names = []
    for blk in m.get_update_blocks():
      names.append( blk.__name__ )
    names.sort()
    s._c13p_decls = "\\n".join( names )
  def good_membership( s, m ):
    ff = m.get_update_ff()
    return [ b for b in m.get_update_block_order() if b in ff ]
  def bad_set_literal( s ):
    ret = ''
    for kw in { 'a', 'b' }:
      ret += f'{kw};'
    return ret
  def bad_filter( s, top ):
    for x in top.get_all_object_filter( lambda o: True ):
      s._c13p_lines.append( repr(x) )
  def bad_pick( s, m ):
    return list( m.get_update_blocks() )[0].__name__
  def bad_next( s, m ):
    return next( iter( m.get_update_ff() ) ).__name__
  def bad_key( s, m ):
    for child in sorted( m.get_child_components(), key = id ):
      s.emit( child )
  def good_len( s, m ):
    return len( m.get_update_blocks() ) + len( m.get_child_components() )
  def emit( s, x ):
    s._c13p_lines.append( repr(x) )
'''
PROBE_EXPECT_BAD = {'bad_children', 'bad_join', 'bad_local', 'bad_set_literal', 'bad_filter', 'bad_pick', 'bad_next'}
PROBE_EXPECT_GOOD = {'good_children', 'good_children_kw', 'good_sorted', 'good_local', 'good_membership', 'good_len',
                     'emit'}


# ---------------------------------------------------------------------------------------------
def _files(repo, sub):
    return [f for f in repo.py_files(sub) if '/testcases/' not in f and not f.rsplit('/', 1)[-1].startswith('test_')]


def scope_files(repo):
    out = []
    for d in SCOPE_DIRS:
        out += _files(repo, d)
    if not repo.exists(VUTIL):
        raise AnalysisError(f"anchor vanished: {VUTIL}")
    out.append(VUTIL)
    return out


def support_files(repo):
    sup = _files(repo, 'pymtl3/dsl')
    sup += [f for f in _files(repo, 'pymtl3/passes/backends/verilog') if f.count('/') == 4]
    sup += [f for f in _files(repo, 'pymtl3/passes') if f.count('/') == 2]
    return sup


def _debug_only(repo, scope):
    """-> (excluded modules {rel: reason}, observations)"""
    excluded, obs = {}, []
    for rel, why in DEBUG_ONLY.items():
        if rel not in scope:
            continue
        m = repo.mod(rel)
        names = set(m.classes) | set(m.functions)
        used_by = None
        for other in scope:
            if other == rel or other in DEBUG_ONLY:
                continue
            om = repo.mod(other)
            is_init = other.endswith('__init__.py')
            for n in ast.walk(om.tree):
                hit = False
                if isinstance(n, ast.Name) and n.id in names and not is_init:
                    hit = True
                elif isinstance(n, ast.Attribute) and n.attr in names:
                    hit = True
                elif isinstance(n, ast.ImportFrom) and not is_init and any(a.name in names for a in n.names):
                    hit = True
                if hit:
                    used_by = other
                    break
            if used_by:
                break
        if used_by:
            obs.append(f"{rel} is referenced by {used_by}: analysed like every other module")
        else:
            excluded[rel] = why
            obs.append(f"{rel} not analysed for sinks: {why} (no reference from translation code)")
    return excluded, obs


def _field_key_of_attr(e):
    """key of the orderedness engine's field map for an Attribute node: `<x>._dsl.attr` -> '_dsl.attr', also through a
    helper local that is a plain single-assignment alias of the namespace (`dsl = inst._dsl; dsl.attr = set()`)"""
    base = e.value
    if isinstance(base, ast.Attribute) and base.attr == '_dsl':
        return '_dsl.' + e.attr
    if isinstance(base, ast.Name):
        fn = enclosing(e, (ast.FunctionDef, ast.AsyncFunctionDef))
        if fn is not None and base.id not in [a.arg for a in fn.args.args]:
            vals = _local_assignments(fn).get(base.id, [])
            if len(vals) == 1 and isinstance(vals[0], ast.Attribute) and vals[0].attr == '_dsl':
                return '_dsl.' + e.attr
    return e.attr


T.field_key_of_attr = _field_key_of_attr      # the engine resolves the name at call time

_KEY_PAIRS = (('row_idx', 'col_idx'), ('idx_row', 'idx_col'), ('ab', 'ac'), ('ba', 'ca'), ('a', 'A'), ('a_b_c', 'a_x_c'),
              ('x1', 'x2'), ('s.a[0]', 's.a[1]'))


def _key_fixes_order(interp, key):
    """does sorting with this key give ONE order for a set of distinct elements?  Only if the key is injective on them:
    no key / identity / repr / str / a unique-name attribute / a tuple that contains the element itself; a projection
    (suffix, prefix, slice, len, another attribute) leaves ties whose order is the set's hash order.  Lambdas over
    strings are additionally evaluated on adversarial pairs."""
    if key is None or (isinstance(key, ast.Constant) and key.value is None):
        return True
    if isinstance(key, ast.Name):
        if key.id in ('repr', 'str'):
            return True
        fi = interp.fi
        return fi is not None and key.id in fi.all_params()        # a forwarded sort key: judged at the call site
    if isinstance(key, ast.Attribute):
        return False
    if not isinstance(key, ast.Lambda) or len(key.args.args) != 1:
        return False
    p, body = key.args.args[0].arg, key.body

    def contains_elem(e):
        if isinstance(e, ast.Name) and e.id == p:
            return True
        if isinstance(e, ast.Call) and isinstance(e.func, ast.Name) and e.func.id in ('repr', 'str') and len(e.args) == 1:
            return contains_elem(e.args[0])
        if isinstance(e, ast.Attribute) and e.attr in ('__name__', '__qualname__') and isinstance(e.value, ast.Name) and e.value.id == p:
            return True          # update blocks / classes of one component have unique names (trusted, see ASSUMPTIONS)
        if isinstance(e, ast.Subscript) and isinstance(e.value, ast.Name) and e.value.id == p and \
                isinstance(e.slice, ast.Constant) and e.slice.value == 0:
            return True          # (key, value) items of a dict: the key component is unique
        if isinstance(e, ast.Tuple):
            return any(contains_elem(x) for x in e.elts)
        return False
    if contains_elem(body):
        return True
    # a computed key: try it on adversarial names
    try:
        for a, b in _KEY_PAIRS:
            va = _FnExec({p: a}, arith=True, funcs=_GUARD_FUNCS).ev(body)
            vb = _FnExec({p: b}, arith=True, funcs=_GUARD_FUNCS).ev(body)
            if va == vb:
                return False
    except (AnalysisError, TypeError, IndexError, AttributeError):
        return False
    return False             # distinct on the samples only: not a proof


_orig_builtin = T.Interp.builtin


def _builtin_with_sort_keys(self, call, name):
    if name in ('sorted', '.sort'):
        key = [k.value for k in call.keywords if k.arg == 'key']
        if key and not _key_fixes_order(self, key[0]):
            if name == 'sorted':
                vals = [self.eval(a) for a in call.args]
                for k in call.keywords:
                    self.eval(k.value)
                a0 = vals[0] if vals else T.O
                return T.C(T.u_of(a0), T.elem_of(a0))       # ties keep the (hash-seed dependent) input order
            self.eval(call.func.value)
            for k in call.keywords:
                self.eval(k.value)
            return T.O                                        # no strong update: the list stays unordered
    return _orig_builtin(self, call, name)


T.Interp.builtin = _builtin_with_sort_keys


_CACHE = {}


def analysis(repo):
    a = _CACHE.get(id(repo))
    if a is not None and a[0] is repo:
        return a[1]
    scope = scope_files(repo)
    excluded, obs = _debug_only(repo, scope)
    scope = [f for f in scope if f not in excluded]
    probe = Module(repo, PROBE_REL, PROBE_SRC)
    an = T.Analysis(repo, scope, support_files(repo), extra=[probe])
    an.run()
    an.excluded, an.obs = excluded, obs
    _CACHE.clear()
    _CACHE[id(repo)] = (repo, an)
    return an


# ---------------------------------------------------------------------------------------------
SEED_FUNCS = {'hash', 'id'}
SEED_MODULES = {'random', 'uuid', 'time', 'datetime', 'secrets'}
SEED_ATTR_CALLS = {('os', 'listdir'), ('os', 'walk'), ('os', 'scandir'), ('glob', 'glob'), ('glob', 'iglob'),
                   ('os', 'getpid'), ('os', 'urandom')}


def rule_unordered(repo):
    r = RuleResult('R-C13-unordered', "no emitted order / text depends on PYTHONHASHSEED: no order-observing consumption "
                                      "of a set-derived value, no hash()/id()/random sources, in translation code")
    an = analysis(repo)
    r.observations.extend(an.obs)
    # --- required summaries (guards against a silently broken resolver: a vanished anchor is an error)
    comp = repo.mod(COMPONENT)
    for meth in ('get_child_components', 'get_update_blocks', 'get_update_ff', 'get_all_object_filter',
                 '_collect_objects_local', 'get_update_block_order', 'get_connect_order'):
        if meth not in comp.methods('Component'):
            raise AnalysisError(f"anchor vanished: Component.{meth}")
    # --- probe: the embedded positive / negative examples must come out right on every run
    flagged = {k[1].split('.')[-1] for k in an.sinks if k[0] == PROBE_REL}
    if not PROBE_EXPECT_BAD <= flagged:
        raise AnalysisError(f"R-C13-unordered: embedded positive examples not flagged: "
                            f"{sorted(PROBE_EXPECT_BAD - flagged)} (the dsl getters are no longer classified as unordered)")
    if flagged & PROBE_EXPECT_GOOD:
        # not an error of its own: if the dsl getters lost their sort the real call sites are reported below
        r.observations.append(f"embedded order-insensitive examples are flagged as well: {sorted(flagged & PROBE_EXPECT_GOOD)} "
                              f"(the dsl getters no longer honour their sort key, or the analysis lost precision)")
    r.ok(PROBE_REL, '_C13Probe', f"embedded examples: {len(PROBE_EXPECT_BAD)} unordered consumptions flagged, "
                                 f"{len(PROBE_EXPECT_GOOD)} order-insensitive ones silent", nontrivial=False)
    # --- findings and instances on the real tree
    sink_sites = set()
    for (rel, qual, construct), s in sorted(an.sinks.items()):
        if rel == PROBE_REL:
            continue
        r.bad(repo.mod(rel), qual, construct, s['why'] + " -- translate the same design under two PYTHONHASHSEED values "
              "and the emitted text can differ", s['line'])
        sink_sites.add((rel, qual))
    n_unordered = 0
    for s in an.sites:
        if s['file'] == PROBE_REL:
            continue
        if s['unordered']:
            n_unordered += 1
        if s['unordered'] and s['effects'] and s['kind'] != 'join':
            continue     # reported above
        note = None
        if s['unordered']:
            note = "iterates an unordered collection but the body is order-insensitive"
            if s['kind'] != 'join':
                r.observations.append(f"{s['file']}: {s['func']}: `{s['kind']} ... in {s['iter'][:60]}` runs in hash order; "
                                      f"its body builds nothing ordered (membership / set building / checks only)")
        r.ok(repo.mod(s['file']), s['func'], f"{s['kind']} over {s['iter']}"[:160], nontrivial=s['nontrivial'], note=note)
    r.observations.append(f"{len(an.funcs)} functions analysed in {an.rounds} rounds; call sites resolved "
                          f"{an.resolved}, unresolved {an.unresolved}; {n_unordered} iterations over unordered values "
                          f"in scope")
    r.evaluations = an.evals
    # --- seed / address dependent scalar sources
    seed_hits = []
    text_producers = [f for f in support_files(repo) if f.startswith('pymtl3/passes/')]
    for rel in list(an.scope) + [f for f in text_producers if f not in an.scope]:
        m = repo.mod(rel) if rel != PROBE_REL else an.mods[rel]
        for n in ast.walk(m.tree):
            if isinstance(n, ast.Name) and n.id in SEED_FUNCS and isinstance(n.ctx, ast.Load) and n.id not in m.functions \
                    and not (isinstance(parent(n), ast.Call) and parent(n).func is n):
                # a bare reference such as sorted(xs, key=id): unless the name is a local of an enclosing function
                cur, shadow = parent(n), False
                while cur is not None:
                    if isinstance(cur, (ast.FunctionDef, ast.Lambda)):
                        a = cur.args
                        names = {x.arg for x in a.posonlyargs + a.args + a.kwonlyargs}
                        if isinstance(cur, ast.FunctionDef):
                            names |= {x.id for x in ast.walk(cur) if isinstance(x, ast.Name) and isinstance(x.ctx, ast.Store)}
                        if n.id in names:
                            shadow = True
                    cur = parent(cur)
                if not shadow:
                    seed_hits.append((rel, m, n, f"`{n.id}` used as a function value (sort key?)"))
                continue
            if not isinstance(n, ast.Call):
                continue
            f = n.func
            what = None
            if isinstance(f, ast.Name) and f.id in SEED_FUNCS and f.id not in m.functions:
                what = f.id + '()'
            elif isinstance(f, ast.Attribute) and isinstance(f.value, ast.Name):
                if f.value.id in SEED_MODULES and f.value.id in m.imports:
                    what = f"{f.value.id}.{f.attr}()"
                elif (f.value.id, f.attr) in SEED_ATTR_CALLS:
                    what = f"{f.value.id}.{f.attr}()"
            if what is None:
                continue
            fn = enclosing(n, (ast.FunctionDef,))
            q = qualname(n)
            if fn is not None and fn.name in ('__hash__', '__eq__') and what == 'hash()':
                if rel != PROBE_REL:
                    r.ok(m, q, 'hash() inside __hash__', nontrivial=False)
            else:
                seed_hits.append((rel, m, n, what))
    probe_seed = [h for h in seed_hits if h[0] == PROBE_REL]
    if not any(qualname(h[2]).endswith('bad_key') for h in probe_seed):
        raise AnalysisError("R-C13-unordered: embedded example `sorted(..., key=id)` not recognised as an address dependent order")
    for rel, m, n, what in seed_hits:
        if rel == PROBE_REL:
            continue
        r.bad(m, qualname(n), norm(parent(n) if isinstance(n, ast.Name) else n)[:80],
              f"{what} is process / hash-seed / environment dependent; an order or value derived from it in translation code "
              f"makes the emitted text differ between runs", n.lineno)
    r.require_floor(220)
    return r


# ---------------------------------------------------------------------------------------------
def _own(func):
    """nodes of the body of func, not descending into nested defs / classes / lambdas"""
    for st in func.body:
        if isinstance(st, (ast.FunctionDef, ast.AsyncFunctionDef, ast.ClassDef)):
            continue
        yield from walk_no_nested(st)


def _local_assignments(func):
    """name -> list of value expressions (None = loop target / with / except / unpacking: a source of its own)"""
    cached = getattr(func, '_c13_la', None)
    if cached is not None:
        return cached
    out = {}
    func._c13_la = out
    for n in _own(func):
        if isinstance(n, ast.Assign):
            for t in n.targets:
                if isinstance(t, ast.Name):
                    out.setdefault(t.id, []).append(n.value)
                elif isinstance(t, (ast.Tuple, ast.List)):
                    if isinstance(n.value, (ast.Tuple, ast.List)) and len(n.value.elts) == len(t.elts):
                        for te, ve in zip(t.elts, n.value.elts):
                            if isinstance(te, ast.Name):
                                out.setdefault(te.id, []).append(ve)
                    else:
                        for x in ast.walk(t):
                            if isinstance(x, ast.Name):
                                out.setdefault(x.id, []).append(n.value)
        elif isinstance(n, ast.AugAssign) and isinstance(n.target, ast.Name):
            out.setdefault(n.target.id, []).append(n.value)
        elif isinstance(n, ast.AnnAssign) and isinstance(n.target, ast.Name) and n.value is not None:
            out.setdefault(n.target.id, []).append(n.value)
        elif isinstance(n, (ast.For, ast.AsyncFor)):
            for x in ast.walk(n.target):
                if isinstance(x, ast.Name):
                    out.setdefault(x.id, []).append(None)
        elif isinstance(n, (ast.With, ast.AsyncWith)):
            for it in n.items:
                if it.optional_vars is not None:
                    for x in ast.walk(it.optional_vars):
                        if isinstance(x, ast.Name):
                            out.setdefault(x.id, []).append(None)
        elif isinstance(n, ast.ExceptHandler) and n.name:
            out.setdefault(n.name, []).append(None)
    return out


def _names_of(expr):
    """free variable names of an expression (comprehension-bound names removed; callee names kept)"""
    bound = set()
    for n in ast.walk(expr):
        if isinstance(n, ast.comprehension):
            for x in ast.walk(n.target):
                if isinstance(x, ast.Name):
                    bound.add(x.id)
        elif isinstance(n, ast.Lambda):
            for a in n.args.args:
                bound.add(a.arg)
    return {n.id for n in ast.walk(expr) if isinstance(n, ast.Name)} - bound


def sources(expr, func, stop=frozenset()):
    """names the value of `expr` is computed from, expanding the locals of `func` through all their assignments;
    names in `stop` are not expanded"""
    assigns = _local_assignments(func)
    seen, out = set(), set()
    todo = list(_names_of(expr))
    while todo:
        n = todo.pop()
        if n in seen:
            continue
        seen.add(n)
        if n in stop or n not in assigns:
            out.add(n)
            continue
        for v in assigns[n]:
            if v is None:
                out.add(n)
            else:
                todo.extend(_names_of(v))
    return out


def _clone(node, mapping=None):
    """structural copy of an expression (without the loader's parent links); Names in `mapping` are replaced"""
    if isinstance(node, ast.Name) and mapping and node.id in mapping and isinstance(node.ctx, ast.Load):
        return _clone(mapping[node.id])
    if isinstance(node, ast.AST):
        new = type(node)()
        for fld, val in ast.iter_fields(node):
            setattr(new, fld, _clone(val, mapping))
        for a in ('lineno', 'col_offset', 'end_lineno', 'end_col_offset'):
            if hasattr(node, a):
                setattr(new, a, getattr(node, a))
        return new
    if isinstance(node, list):
        return [_clone(x, mapping) for x in node]
    return node


def _inline(expr, func, stop=frozenset(), depth=5):
    """copy of expr with every local of `func` that has exactly one assignment (a helper local) replaced by the assigned
    expression, recursively; names in `stop`, parameters, loop variables and re-assigned locals are left alone"""
    if depth == 0:
        return _clone(expr)
    la = _local_assignments(func)
    mapping = {}
    for nm in _names_of_raw(expr):
        vs = la.get(nm)
        if nm in stop or not vs or len(vs) != 1 or vs[0] is None:
            continue
        if nm in _names_of_raw(vs[0]):
            continue
        mapping[nm] = _inline(vs[0], func, stop, depth - 1)
    return _clone(expr, mapping)


def _ambient(mod, func):
    """names that do not carry per-call data: self, module level names, builtins, nested function names"""
    amb = set(mod.classes) | set(mod.functions) | set(mod.assigns) | set(mod.imports)
    amb |= set(dir(__builtins__)) if not isinstance(__builtins__, dict) else set(__builtins__)
    cur = func
    while cur is not None:
        if isinstance(cur, ast.FunctionDef):
            for st in ast.walk(cur):
                if isinstance(st, ast.FunctionDef) and st is not cur:
                    amb.add(st.name)
            if isinstance(parent(cur), ast.ClassDef) and cur.args.args:
                amb.add(cur.args.args[0].arg)
        cur = parent(cur)
    # `s` of an enclosing method is visible in nested defs
    return amb


def _terminal(e):
    while isinstance(e, ast.Subscript):
        e = e.value
    if isinstance(e, ast.Attribute):
        return e.attr
    if isinstance(e, ast.Name):
        return e.id
    return None


def _enumerated_names(repo, scope):
    """terminal names of containers that are enumerated (iterated / .values() / .items() / joined) in scope"""
    out = set()
    for rel in scope:
        m = repo.mod(rel)
        for n in ast.walk(m.tree):
            its = []
            if isinstance(n, (ast.For, ast.comprehension)):
                its.append(n.iter)
            elif isinstance(n, ast.Call) and isinstance(n.func, ast.Attribute) and n.func.attr in ('values', 'items', 'keys'):
                its.append(n.func.value)
            elif isinstance(n, ast.Call) and isinstance(n.func, ast.Attribute) and n.func.attr == 'join' and n.args:
                its.append(n.args[0])
            elif isinstance(n, ast.Call) and isinstance(n.func, ast.Name) and n.func.id == 'getattr' and len(n.args) >= 2:
                # getattr(ns, '<name>') ... .items(): dynamic access by constant name
                pass
            for it in its:
                t = _terminal(it)
                if t:
                    out.add(t)
        # tables handed around by constant name (getattr(ns, name) with the names passed as literals)
        for n in ast.walk(m.tree):
            if isinstance(n, ast.Call):
                for a in n.args:
                    if isinstance(a, ast.Constant) and isinstance(a.value, str) and a.value.isidentifier():
                        out.add(a.value)
    return out


def _key_desc(K, func):
    """description of a dedup key that does not depend on the names of locals"""
    e = K
    if isinstance(K, ast.Name) and K.id in [a.arg for a in func.args.args]:
        return 'the object itself'
    if isinstance(K, ast.Name):
        vals = [v for v in _local_assignments(func).get(K.id, []) if v is not None]
        if len(vals) == 1:
            e = vals[0]
        elif not vals:
            return 'the object itself'
    return _expr_desc(e)


def _expr_desc(e):
    """shape of a key expression without the names of locals: table[...] / f(...) / .attr, joined by the operators"""
    if isinstance(e, ast.Call):
        return f"{_terminal(e.func) or norm(e.func)}(...)"
    if isinstance(e, ast.Subscript):
        return f"{_terminal(e)}[...]"
    if isinstance(e, ast.Attribute):
        return f".{e.attr}"
    if isinstance(e, ast.Name):
        return 'the object itself'
    if isinstance(e, ast.BoolOp):
        return (' or ' if isinstance(e.op, ast.Or) else ' and ').join(_expr_desc(v) for v in e.values)
    if isinstance(e, ast.IfExp):
        return f"{_expr_desc(e.body)} if ... else {_expr_desc(e.orelse)}"
    if isinstance(e, ast.BinOp):
        return f"{_expr_desc(e.left)} {type(e.op).__name__.lower()} {_expr_desc(e.right)}"
    if isinstance(e, ast.Constant):
        return repr(e.value)
    return norm(e)[:60]


def _dedup_sites(func):
    """(if-node, K, D, value expr, hit-path statements) for `if K not in D: D[K] = V` shapes in func"""
    out = []
    for n in _own(func):
        if not isinstance(n, ast.If):
            continue
        t = n.test
        neg = False
        while isinstance(t, ast.UnaryOp) and isinstance(t.op, ast.Not):
            t, neg = t.operand, not neg
        if not (isinstance(t, ast.Compare) and len(t.ops) == 1 and isinstance(t.ops[0], (ast.In, ast.NotIn))):
            continue
        missing_when_true = isinstance(t.ops[0], ast.NotIn) != neg
        K, D = t.left, t.comparators[0]
        if missing_when_true:
            miss, hit = n.body, n.orelse
        else:
            hit, miss = n.body, n.orelse
            if not miss and always_exits(hit):
                blk = None
                p = parent(n)
                for fld in ('body', 'orelse', 'finalbody'):
                    b = getattr(p, fld, None)
                    if isinstance(b, list) and any(x is n for x in b):
                        blk = b
                if blk is not None:
                    idx = [i for i, x in enumerate(blk) if x is n][0]
                    miss = blk[idx + 1:]
        store = None
        for s2 in miss:
            for x in walk_no_nested(s2):
                if isinstance(x, ast.Assign):
                    for tg in x.targets:
                        if isinstance(tg, ast.Subscript) and norm(tg.value) == norm(D) and norm(tg.slice) == norm(K):
                            store = x
        if store is not None:
            out.append((n, K, D, store.value, hit))
    return out


NAMING_ROOTS = ('get_component_unique_name', 'get_component_full_name', 'rtlir_tr_component_unique_name',
                'get_rtlir_dtype', 'get_name', 'get_full_name', 'get_field_str', '_gen_parameters', 'get_params')


NAMING_FILES = (RUTIL, RTYPE, RDTYPE, VUTIL, VSL1)


def naming_path(repo):
    """ids of the FunctionDef nodes (in the reporting scope) that a module / struct name is computed by: everything
    reachable through resolved calls from the name functions, plus their nested helpers"""
    an = analysis(repo)
    todo = [fi for nm in NAMING_ROOTS for fi in an.by_name.get(nm, []) if fi.mod.rel in NAMING_FILES]
    if not any(fi.node.name == 'get_component_full_name' for fi in todo):
        raise AnalysisError("anchor vanished: get_component_full_name")
    seen = {}
    while todo:
        fi = todo.pop()
        if fi.id in seen or fi.mod.rel not in NAMING_FILES:
            continue
        seen[fi.id] = fi
        for n in ast.walk(fi.node):           # nested helpers included
            if isinstance(n, ast.FunctionDef) and n is not fi.node and id(n) in an.by_node:
                todo.append(an.by_node[id(n)])
            if isinstance(n, ast.Call):
                host = an.by_node.get(id(enclosing(n, (ast.FunctionDef,)))) or fi
                k = an.resolve_callees(host, n, fi.mod)
                if k[0] == 'funcs':
                    todo.extend(x for x, _ in k[1])
    return {id(fi.node): fi for fi in seen.values()}


def _memo_sites(func):
    """memo shapes other than `if K not in D`:  D.setdefault(K, V)  and  try: D[K] / except KeyError: D[K] = V
    -> (node, K, D, V, hit statements)"""
    out = []
    for n in _own(func):
        if isinstance(n, ast.Call) and isinstance(n.func, ast.Attribute) and n.func.attr == 'setdefault' and len(n.args) == 2:
            out.append((n, n.args[0], n.func.value, n.args[1], []))
        elif isinstance(n, ast.Try) and any(h.type is not None and 'KeyError' in norm(h.type) for h in n.handlers):
            reads = [x for b in n.body for x in ast.walk(b) if isinstance(x, ast.Subscript) and isinstance(x.ctx, ast.Load)]
            for h in n.handlers:
                for x in [y for b in h.body for y in ast.walk(b) if isinstance(y, ast.Assign)]:
                    for tg in x.targets:
                        if isinstance(tg, ast.Subscript) and any(norm(rd.value) == norm(tg.value) and
                                                                 norm(rd.slice) == norm(tg.slice) for rd in reads):
                            out.append((n, tg.slice, tg.value, x.value, []))
    return out


def _is_module_state(m, func, D):
    """D denotes a module level (or class level) mutable table"""
    root = D
    while isinstance(root, (ast.Attribute, ast.Subscript)):
        root = root.value
    if not isinstance(root, ast.Name):
        return False
    cur = func
    while cur is not None:
        if isinstance(cur, ast.FunctionDef):
            names = {a.arg for a in cur.args.args} | {x.id for x in ast.walk(cur) if isinstance(x, ast.Name) and
                                                       isinstance(x.ctx, ast.Store)}
            if root.id in names:
                return False
        cur = parent(cur)
    if isinstance(D, ast.Name):
        return root.id in m.assigns or root.id in m.imports
    # Class.table[...] / cls.table[...]
    return root.id in m.classes or root.id in ('cls',)


def rule_dedup(repo):
    r = RuleResult('R-C13-dedup', "a first-writer-wins table of emitted definitions is keyed by the object / a record "
                                  "pairing, or checks identity when the key is already present; a memo table on the "
                                  "naming path is keyed by the object itself, never by a lossy projection such as __name__")
    scope = [f for f in scope_files(repo) if f not in DEBUG_ONLY]
    enumerated = _enumerated_names(repo, scope)
    npath = naming_path(repo)
    r.ok(RUTIL, '<naming path>', f"{len(npath)} functions compute module / struct names (searched for memo tables)",
         nontrivial=False)
    for rel in scope:
        m = repo.mod(rel)
        for func in [n for n in ast.walk(m.tree) if isinstance(n, ast.FunctionDef)]:
            on_path = id(func) in npath
            sites = _dedup_sites(func) + (_memo_sites(func) if on_path else [])
            for ifn, K, D, V, hit in sites:
                q = qualname(ifn)
                cons = f"table `{_terminal(D)}` filled first-writer-wins, keyed by {_key_desc(K, func)}"
                amb = _ambient(m, func)
                tname = _terminal(D)
                lossy_attr = isinstance(K, ast.Attribute) and K.attr in ('__name__', '__qualname__')
                if on_path and _is_module_state(m, func, D):
                    r.observations.append(f"{rel}: {q}: module-level table `{norm(D)}` is consulted while a name is computed: "
                                          f"its entries survive from one translation to the next")
                if on_path and isinstance(K, ast.Name):
                    kv = [v for v in _local_assignments(func).get(K.id, []) if v is not None]
                    if len(kv) == 1 and isinstance(kv[0], ast.Name) and kv[0].id in [a.arg for a in func.args.args]:
                        K = kv[0]
                if on_path or lossy_attr:
                    # a cache consulted while a NAME is computed: a stale or aliased entry silently renames hardware.
                    # Accepted only when the key is the object itself and the value is a function of it.
                    if isinstance(K, ast.Name) and not lossy_attr and (sources(V, func, stop={K.id}) - amb) <= {K.id} and \
                            not [v for v in _local_assignments(func).get(K.id, []) if v is not None]:
                        r.ok(m, q, cons, note=f"memo keyed by the object `{K.id}` itself")
                    else:
                        vs = sorted(sources(V, func, stop=set()) - amb)
                        r.bad(m, q, cons,
                              f"a memo table on the naming path is keyed by `{norm(K)}`, a lossy projection of what the cached "
                              f"value is computed from ({vs}): two different objects with the same key (e.g. two BitStruct "
                              f"classes with the same __name__ but different fields, in one design or in two translations of "
                              f"one process) get the first one's name component, so different hardware shares a module name",
                              getattr(ifn, 'lineno', 0))
                    continue
                # (a) K and V are targets of the same iteration (copying an existing pairing)
                loop = enclosing(ifn, (ast.For,))
                if loop is not None and isinstance(K, ast.Name) and isinstance(V, ast.Name):
                    tg = {x.id for x in ast.walk(loop.target) if isinstance(x, ast.Name)}
                    if K.id in tg and V.id in tg:
                        r.ok(m, q, cons, note="copies (key, value) pairs of another table keyed the same way")
                        continue
                # (b) value is a function of the key object itself
                if isinstance(K, ast.Name):
                    src = sources(V, func, stop={K.id}) - amb
                    if src <= {K.id}:
                        r.ok(m, q, cons, note=f"value is a function of the key object `{K.id}` (structural equality)")
                        continue
                # (c) key and value are fields of the same record
                root = K
                while isinstance(root, (ast.Attribute, ast.Subscript)):
                    root = root.value
                if isinstance(K, ast.Attribute) and isinstance(root, ast.Name):
                    src = sources(V, func, stop={root.id}) - amb
                    if src <= {root.id}:
                        r.ok(m, q, cons, note=f"key and value are fields of the same record `{root.id}`")
                        continue
                # (d) the key is a projection (name) of the object the value is made from.  A pure lookup cache
                # (never enumerated anywhere in the translation code) emits nothing; a table of definitions
                # needs an identity check on the hit path
                if tname not in enumerated:
                    r.ok(m, q, cons, nontrivial=False, note="lookup cache: never enumerated, entries are not emitted")
                    continue
                checked = False
                for s2 in hit:
                    for x in walk_no_nested(s2):
                        test = None
                        if isinstance(x, ast.Assert):
                            test = x.test
                        elif isinstance(x, ast.If) and any(isinstance(y, ast.Raise) for b in x.body + x.orelse
                                                           for y in ast.walk(b)):
                            test = x.test
                        if test is not None and any(isinstance(y, ast.Subscript) and norm(y.slice) == norm(K)
                                                    for y in ast.walk(test)):
                            checked = True
                if checked:
                    r.ok(m, q, cons, note="hit path compares the stored entry and fails on mismatch")
                else:
                    vs = sorted(sources(V, func, stop=set()) - amb)
                    r.bad(m, q, cons,
                          f"definitions are deduplicated by the derived key `{norm(K)}` only; the value is built from "
                          f"{vs} and on the `key already present` path nothing compares what is being dropped with what "
                          f"was stored: two different objects that map to the same key (e.g. two classes with the same "
                          f"__name__ and parameters but different ports / behaviour) silently share the first definition",
                          ifn.lineno)
    r.require_floor(11)
    return r


# ---------------------------------------------------------------------------------------------
class _GuardEval(Evaluator):
    """evaluates the extracted pass-through guard of a name function on concrete candidate names"""
    def ev_List(self, x):
        return [self.ev(y) for y in x.elts]

    def ev_Set(self, x):
        return {self.ev(y) for y in x.elts}

    def ev_Tuple(self, x):
        return tuple(self.ev(y) for y in x.elts)

    def _comp(self, x, elt):
        if len(x.generators) != 1:
            raise AnalysisError("nested comprehension in a name guard")
        g = x.generators[0]
        if not isinstance(g.target, ast.Name):
            raise AnalysisError("comprehension target in a name guard is not a name")
        out = []
        saved = dict(self.env)
        for v in self.ev(g.iter):
            self.env[g.target.id] = v
            if all(self.ev(c) for c in g.ifs):
                out.append(self.ev(elt))
        self.env = saved
        return out

    def ev_ListComp(self, x):
        return self._comp(x, x.elt)

    def ev_GeneratorExp(self, x):
        return self._comp(x, x.elt)

    def ev_SetComp(self, x):
        return set(self._comp(x, x.elt))

    def ev_Subscript(self, x):
        v = self.ev(x.value)
        if isinstance(x.slice, ast.Slice):
            lo = self.ev(x.slice.lower) if x.slice.lower is not None else None
            hi = self.ev(x.slice.upper) if x.slice.upper is not None else None
            return v[lo:hi]
        return v[self.ev(x.slice)]

    def ev_Call(self, e):
        f = e.func
        if isinstance(f, ast.Attribute):
            recv_name = norm(f.value)
            if recv_name == 're' and f.attr in ('match', 'search', 'fullmatch') and len(e.args) == 2:
                pat = self.ev(e.args[0])
                s = self.ev(e.args[1])
                if not isinstance(pat, str):
                    raise AnalysisError("non-constant regular expression in a name guard")
                return getattr(re, f.attr)(pat, s)
            v = self.ev(f.value)
            if isinstance(v, str) and f.attr in ('isidentifier', 'isalnum', 'isalpha', 'isascii', 'isdigit', 'replace',
                                                  'startswith', 'endswith', 'count', 'find', 'lower', 'upper', 'strip',
                                                  'translate', 'isprintable'):
                return getattr(v, f.attr)(*[self.ev(a) for a in e.args])
            if isinstance(v, (set, frozenset)) and f.attr in ('intersection', 'isdisjoint', 'issubset', 'issuperset',
                                                              'union', 'difference'):
                return getattr(v, f.attr)(*[self.ev(a) for a in e.args])
            raise AnalysisError(f"call outside the abstract domain of the name guard: {norm(e)}")
        return super().ev_Call(e)


_GUARD_FUNCS = {'len': len, 'any': any, 'all': all, 'set': set, 'frozenset': frozenset, 'sorted': sorted, 'str': str,
                'list': list, 'tuple': tuple, 'bool': bool, 'min': min, 'max': max, 'sum': sum, 'ord': ord}


def _fold_locals(func, at, names):
    """literal values of simple locals (lists / strings / sets of literals) used by a guard"""
    env = {}
    for name in names:
        vals = [n.value for n in _own(func)
                if isinstance(n, ast.Assign) and len(n.targets) == 1 and isinstance(n.targets[0], ast.Name)
                and n.targets[0].id == name]
        if len(vals) == 1:
            try:
                env[name] = ast.literal_eval(vals[0])
            except Exception:
                try:
                    env[name] = _GuardEval(dict(env), arith=True, funcs=_GUARD_FUNCS).ev(vals[0])
                except AnalysisError:
                    pass
    return env


def _hash_facts(r, m, func, qual, suffix_sources, keep_names, what):
    """the hashed branch of a name function: digest over the complete suffix, keyless, >= 64 bit, class name kept"""
    hs = [n for n in _own(func) if isinstance(n, ast.Assign) and isinstance(n.value, ast.Call)
          and norm(n.value.func).split('.')[-1] in ('blake2b', 'blake2s', 'sha256', 'sha1', 'md5', 'sha512')
          and len(n.targets) == 1 and isinstance(n.targets[0], ast.Name)]
    if not hs:
        r.bad(m, qual, 'hash object', f"{what}: no cryptographic digest object found for the hashed name "
              "(a hash()-based or truncated name would depend on the hash seed / collide)", func.lineno)
        return
    h = hs[0]
    hname = h.targets[0].id
    kw = {k.arg: k.value for k in h.value.keywords}
    bad_kw = [k for k in kw if k in ('key', 'salt', 'person') and not isinstance(kw[k], ast.Constant)]
    size_ok = True
    if 'digest_size' in kw:
        try:
            size_ok = ast.literal_eval(kw['digest_size']) >= 8
        except Exception:
            size_ok = False
    cons = f"{hname} = {norm(h.value)}"
    if bad_kw or not size_ok:
        r.bad(m, qual, cons, f"{what}: digest must be keyless and at least 64 bits wide (distinct parameter lists must "
              f"not collide, and the name must not change between processes)", h.lineno)
    else:
        r.ok(m, qual, cons)
    ups = [n for n in _own(func) if isinstance(n, ast.Call) and isinstance(n.func, ast.Attribute)
           and n.func.attr == 'update' and norm(n.func.value) == hname]
    if len(ups) != 1 or len(ups[0].args) != 1:
        r.bad(m, qual, f"{hname}.update(...)", f"{what}: expected exactly one update of the digest with the suffix", h.lineno)
    else:
        keepset = {k for k in keep_names if k.isidentifier()}
        arg = _inline(ups[0].args[0], func, stop=set(suffix_sources) | keepset | {hname})
        cons = f"{hname}.update({norm(arg)})"
        src = sources(arg, func, stop=set(suffix_sources) | keepset)
        okslice = True
        for s_ in ast.walk(arg):
            if isinstance(s_, ast.Subscript) and isinstance(s_.slice, ast.Slice):
                # only a prefix that is the (kept) class name may be cut off
                if s_.slice.upper is not None or s_.slice.step is not None:
                    okslice = False
                lo = s_.slice.lower
                if lo is not None and not (isinstance(lo, ast.Call) and norm(lo.func) == 'len' and
                                           sources(lo.args[0], func) <= set(keep_names) | sources(lo.args[0], func) and
                                           any(k in sources(lo.args[0], func) or norm(lo.args[0]) in keep_names
                                               for k in keep_names)):
                    okslice = False
            elif isinstance(s_, ast.Subscript) and not isinstance(s_.slice, ast.Slice):
                okslice = False
        if not (suffix_sources & src) and not any(norm(x) in suffix_sources for x in ast.walk(arg)):
            r.bad(m, qual, cons, f"{what}: the digest does not cover the parameter / field suffix", ups[0].lineno)
        elif not okslice:
            r.bad(m, qual, cons, f"{what}: the digest covers only part of the suffix: names that differ in the uncovered "
                  f"part collide", ups[0].lineno)
        else:
            r.ok(m, qual, cons)
    # the returned hashed name keeps the class name and uses the digest
    rets = [n for n in _own(func) if isinstance(n, ast.Return) and n.value is not None]
    hashed = [x for x in rets if hname in sources(x.value, func, stop={hname})]
    if not hashed:
        r.bad(m, qual, 'return <hashed name>', f"{what}: no return value built from the digest", func.lineno)
    for x in hashed:
        src = sources(x.value, func, stop={hname})
        txt = norm(x.value)
        keepset = {k for k in keep_names if k.isidentifier()}
        full_ret = _inline(x.value, func, stop=set(suffix_sources) | keepset | {hname})
        uses_hex = any(isinstance(y, ast.Attribute) and y.attr == 'hexdigest' for y in ast.walk(full_ret))
        keeps = any(k in src for k in keep_names) or any(k in norm(full_ret) for k in keep_names)
        # symbolic shape of the name: readable parts + digest(input).  A readable part that is cut (slice / split / %)
        # loses information; that is only harmless if the digest input is the complete, uncut full name
        cut = []
        for y in ast.walk(full_ret):
            if isinstance(y, ast.Subscript) and isinstance(y.slice, ast.Slice) and \
                    not any(isinstance(z, ast.Attribute) and z.attr in ('hexdigest', 'digest') for z in ast.walk(y.value)) \
                    and hname not in _names_of_raw(y.value):
                lo = y.slice.lower
                drops_kept_prefix = y.slice.upper is None and y.slice.step is None and isinstance(lo, ast.Call) and \
                    norm(lo.func) == 'len' and lo.args and norm(lo.args[0]) in keepset
                if not drops_kept_prefix:
                    cut.append(y)
        digest_complete = len(ups) == 1 and len(ups[0].args) == 1 and not any(
            isinstance(z, ast.Subscript) for z in ast.walk(
                _inline(ups[0].args[0], func, stop=set(suffix_sources) | keepset | {hname})))
        if cut and not digest_complete:
            r.bad(m, qual, f"return {txt}"[:120],
                  f"{what}: the readable part `{norm(cut[0])}` is truncated but the digest input "
                  f"`{norm(ups[0].args[0]) if ups and ups[0].args else '?'}` does not contain what is cut off: two long names "
                  f"that agree in the kept prefix and in the hashed suffix (different classes, same parameters) alias", x.lineno)
        elif uses_hex and keeps:
            r.ok(m, qual, f"return {txt}"[:120])
        else:
            r.bad(m, qual, f"return {txt}", f"{what}: the hashed name must consist of the class name and the hex digest "
                  f"(class name kept: {keeps}, hexdigest used: {uses_hex})", x.lineno)


def rule_name(repo):
    r = RuleResult('R-C13-name', "module / struct names encode the class name and every parameter; characters that are "
                                 "illegal in identifiers always force hashing; hashing is complete and process independent")
    # ---- get_component_full_name
    um = repo.mod(RUTIL)
    f = um.get_func('get_component_full_name')
    rets = [n for n in _own(f) if isinstance(n, ast.Return) and n.value is not None]
    if len(rets) != 1 or not isinstance(rets[0].value, ast.Name):
        raise AnalysisError("get_component_full_name: expected a single `return <name>`")
    acc = rets[0].value.id
    la = _local_assignments(f)
    params_var = [k for k, vs in la.items() if any(v is not None and isinstance(v, ast.Call) and
                                                   isinstance(v.func, ast.Attribute) and v.func.attr == 'get_params'
                                                   for v in vs)]
    loops = [n for n in _own(f) if isinstance(n, ast.For)]
    ploops = [l for l in loops if (isinstance(l.iter, ast.Name) and l.iter.id in params_var) or
              (isinstance(l.iter, ast.Call) and isinstance(l.iter.func, ast.Attribute) and l.iter.func.attr == 'get_params')]
    if len(ploops) != 1:
        raise AnalysisError("get_component_full_name: expected one loop over get_params()")
    lp = ploops[0]
    cons = f"for {norm(lp.target)} in {norm(lp.iter)}"
    tg = [x.id for x in ast.walk(lp.target) if isinstance(x, ast.Name)]
    skips = [n for n in _own(lp) if isinstance(n, (ast.Continue, ast.Break, ast.Return))]
    conds = [n for n in _own(lp) if isinstance(n, ast.If)]
    augs = [n for n in _own(lp) if isinstance(n, ast.AugAssign) and isinstance(n.target, ast.Name)
            and n.target.id == acc and isinstance(n.op, ast.Add)]
    if len(tg) != 2:
        r.bad(um, 'get_component_full_name', cons, "loop does not unpack (name, value) pairs", lp.lineno)
    elif skips or conds:
        r.bad(um, 'get_component_full_name', cons, "some parameters are skipped (conditional / continue / break in the loop): "
              "instances that differ only in a skipped parameter get the same module name", lp.lineno)
    elif len(augs) != 1:
        r.bad(um, 'get_component_full_name', cons, f"expected exactly one `{acc} += ...` per parameter", lp.lineno)
    else:
        used = _names_of(augs[0].value)
        missing = [t for t in tg if t not in used]
        if missing:
            r.bad(um, 'get_component_full_name', norm(augs[0]), f"the name suffix does not contain {missing}: instances that "
                  f"differ only there get the same module name", augs[0].lineno)
        else:
            r.ok(um, 'get_component_full_name', norm(augs[0]))
    # the value must go through get_string, and get_string must return something derived from its argument on every path
    gs = [n for n in ast.walk(f) if isinstance(n, ast.FunctionDef) and n is not f]
    for g in gs:
        p0 = g.args.args[0].arg if g.args.args else None
        for ret in [n for n in _own(g) if isinstance(n, ast.Return)]:
            cons = f"{g.name}: {norm(ret)}"
            if ret.value is None or p0 not in sources(ret.value, g):
                r.bad(um, f'get_component_full_name.{g.name}', cons, "a parameter value is rendered as a constant: different "
                      "values give the same module name", ret.lineno)
            else:
                r.ok(um, f'get_component_full_name.{g.name}', cons)
    # no-parameter marker
    marks = [n for n in _own(f) if isinstance(n, ast.If) and
             any(isinstance(x, ast.AugAssign) and isinstance(x.target, ast.Name) and x.target.id == acc and
                 isinstance(x.value, ast.Constant) and isinstance(x.value.value, str) and x.value.value
                 for b in n.body for x in ast.walk(b))
             and any(v in _names_of(n.test) for v in params_var)]
    if marks and isinstance(marks[0].test, ast.UnaryOp):
        r.ok(um, 'get_component_full_name', norm(marks[0].test) + ' -> marker suffix')
    else:
        r.bad(um, 'get_component_full_name', 'no-parameter marker', "a component without parameters must get a marker suffix, "
              "otherwise class `A__x_1` without parameters and class `A` with x=1 share a module name", f.lineno)
    # the first assignment of the accumulator is the class name
    first = [v for v in la.get(acc, []) if v is not None and not isinstance(v, ast.Constant)]
    if first and isinstance(first[0], ast.Call) and isinstance(first[0].func, ast.Attribute) and first[0].func.attr == 'get_name':
        r.ok(um, 'get_component_full_name', f"{acc} = {norm(first[0])}", nontrivial=False)
    else:
        r.bad(um, 'get_component_full_name', f"{acc} = ...", "the module name does not start with the class name", f.lineno)

    # ---- Component._gen_parameters: one entry per construct argument
    tm = repo.mod(RTYPE)
    gp = tm.get_func('Component._gen_parameters')
    la = _local_assignments(gp)
    an_vals = [v for v in la.get('arg_names', []) if v is not None]
    okslice = bool(an_vals) and isinstance(an_vals[0], ast.Subscript) and isinstance(an_vals[0].slice, ast.Slice) and \
        an_vals[0].slice.upper is None and an_vals[0].slice.step is None and an_vals[0].slice.lower is not None and \
        norm(an_vals[0].slice.lower) == '1'
    if okslice:
        r.ok(tm, 'Component._gen_parameters', f"arg_names = {norm(an_vals[0])}")
    else:
        r.bad(tm, 'Component._gen_parameters', 'arg_names', "the parameter list must be all construct arguments after self",
              gp.lineno)
    loops = [n for n in _own(gp) if isinstance(n, ast.For) and 'arg_names' in _names_of(n.iter)]
    if len(loops) != 1:
        raise AnalysisError("Component._gen_parameters: expected one loop over arg_names")
    lp = loops[0]
    rets = [n for n in _own(gp) if isinstance(n, ast.Return) and n.value is not None]
    if len(rets) != 1 or not isinstance(rets[0].value, ast.Name):
        raise AnalysisError("Component._gen_parameters: expected `return <list>`")
    lst = rets[0].value.id
    tg = [x.id for x in ast.walk(lp.target) if isinstance(x, ast.Name)]

    def arms(stmts):
        """leaf statement lists of the if/elif/else chain that forms the loop body"""
        ifs = [s for s in stmts if isinstance(s, ast.If)]
        if len(ifs) == 1 and all(isinstance(s, (ast.If, ast.Expr, ast.Assert)) for s in stmts) and \
                not any(_appends(s) for s in stmts if not isinstance(s, ast.If)):
            i = ifs[0]
            return arms(i.body) + (arms(i.orelse) if i.orelse else [[]])
        return [stmts]

    def _appends(s):
        return [x for x in ast.walk(s) if isinstance(x, ast.Call) and isinstance(x.func, ast.Attribute) and
                x.func.attr == 'append' and norm(x.func.value) == lst]
    for arm in arms(lp.body):
        aps = [a for s in arm for a in _appends(s)]
        cons = norm(aps[0]) if aps else (norm(arm)[:80] or '<empty arm>')
        good = len(aps) == 1 and len(aps[0].args) == 1 and isinstance(aps[0].args[0], ast.Tuple) and \
            len(aps[0].args[0].elts) == 2 and any(t in _names_of(aps[0].args[0].elts[0]) for t in tg)
        if good and not any(isinstance(x, (ast.Continue, ast.Break)) for s in arm for x in ast.walk(s)):
            r.ok(tm, 'Component._gen_parameters', cons)
        else:
            r.bad(tm, 'Component._gen_parameters', cons, "a construct argument is not recorded as (name, value): instances "
                  "that differ only in that argument get the same module name", lp.lineno)

    # ---- get_component_unique_name: pass-through guard and hashed branch
    vm = repo.mod(VUTIL)
    f = vm.get_func('get_component_unique_name')
    la = _local_assignments(f)
    full = [k for k, vs in la.items() if any(v is not None and isinstance(v, ast.Call) and
                                             norm(v.func).endswith('get_component_full_name') for v in vs)]
    if len(full) != 1:
        raise AnalysisError("get_component_unique_name: expected one local holding get_component_full_name(...)")
    full = full[0]
    comp = [k for k, vs in la.items() if any(v is not None and isinstance(v, ast.Call) and isinstance(v.func, ast.Attribute)
                                             and v.func.attr == 'get_name' for v in vs)]
    rets = [n for n in _own(f) if isinstance(n, ast.Return) and n.value is not None]
    passthru = [x for x in rets if isinstance(x.value, ast.Name) and x.value.id == full]
    if not passthru:
        r.ok(vm, 'get_component_unique_name', "the full name is never returned unhashed", nontrivial=False)
    if passthru:
        # the function body is interpreted statement by statement (loops with break / else, early returns) on adversarial
        # names: class name clean, one non-identifier character in the parameter part
        def run(name):
            def leaf(e):
                if isinstance(e, ast.Call) and norm(e.func).endswith('get_component_full_name'):
                    return name
                if isinstance(e, ast.Call) and isinstance(e.func, ast.Attribute) and e.func.attr == 'get_name' and not e.args:
                    return 'Comp'
                return NotImplemented
            ex = _FnExec({}, arith=True, funcs=_GUARD_FUNCS, leaf=leaf)
            return ex.call(f)
        leak, evals = [], 0
        for ch in PRINTABLE:
            if ch in LEGAL:
                continue
            for name in ('Comp__p_' + ch + '1', ch + 'Comp', 'Comp__p_1' + ch):
                evals += 1
                kind, val = run(name)
                if kind == 'return' and isinstance(val, str) and val == name:
                    leak.append(ch)
                    break
        kind, val = run('Comp__p_1')
        r.evaluations += evals + 1
        gs = [g for x in passthru for g in guards_of(x) if g.kind in ('if', 'exit', 'assert')]
        if leak:
            cons = "pass-through guard admits non-identifier characters (hex) " + _hex_ranges(leak)
            tested_other = [nm for nm in comp if any(nm in _names_of(g.test) for g in gs)]
            r.bad(vm, 'get_component_unique_name', cons,
                  (f"the character test looks at `{tested_other[0]}` (the class name) instead of the returned `{full}`: "
                   if tested_other else "") +
                  f"a full name containing any of {''.join(leak)!r} is returned unchanged as the module name "
                  f"(guard: {' and '.join(repr(g) for g in gs)[:160]}); str() of tuple / negative / string / float / "
                  f"keyword parameter values produces such characters, so an illegal SystemVerilog identifier is emitted",
                  passthru[0].lineno)
        else:
            r.ok(vm, 'get_component_unique_name', "pass-through only for names over [A-Za-z0-9_$]")
    _hash_facts(r, vm, f, 'get_component_unique_name', {full}, comp or ['get_name'], "component name")

    # ---- Struct.get_name / get_full_name / get_field_str
    dm = repo.mod(RDTYPE)
    fs = dm.get_func('Struct.get_field_str')
    joins = [n for n in ast.walk(fs) if isinstance(n, ast.Call) and isinstance(n.func, ast.Attribute) and n.func.attr == 'join']
    if len(joins) != 1 or not joins[0].args or not isinstance(joins[0].args[0], (ast.GeneratorExp, ast.ListComp)):
        raise AnalysisError("Struct.get_field_str: expected one join over a comprehension of the fields")
    comp_ = joins[0].args[0]
    g = comp_.generators[0]
    tg = [x.id for x in ast.walk(g.target) if isinstance(x, ast.Name)]
    used = _names_of_raw(comp_.elt)
    cons = norm(joins[0])[:120]
    if len(comp_.generators) == 1 and not g.ifs and len(tg) == 2 and all(t in used for t in tg) and \
            'properties' in norm(g.iter) and norm(g.iter).endswith('.items()'):
        r.ok(dm, 'Struct.get_field_str', cons)
    else:
        r.bad(dm, 'Struct.get_field_str', cons, "the struct name must encode the name and the type of every field, in "
              "declaration order: structs that differ in a dropped field would share a typedef", joins[0].lineno)
    fn = dm.get_func('Struct.get_full_name')
    txt = ' '.join(norm(n) for n in ast.walk(fn) if isinstance(n, (ast.JoinedStr, ast.BinOp)))
    if '__name__' in txt and 'get_field_str' in txt:
        r.ok(dm, 'Struct.get_full_name', 'class name + field string', nontrivial=False)
    else:
        r.bad(dm, 'Struct.get_full_name', txt[:80], "struct full name must consist of the class name and the field string",
              fn.lineno)
    gn = dm.get_func('Struct.get_name')
    _hash_facts(r, dm, gn, 'Struct.get_name', {'get_field_str', 's.get_field_str()'}, ['__name__', 'cls'], "struct name")
    eq = dm.get_func('Struct.__eq__')
    if 'get_full_name' in norm(eq) and 'get_name()' not in norm(eq):
        r.ok(dm, 'Struct.__eq__', 'compares full names', nontrivial=False)
    else:
        r.bad(dm, 'Struct.__eq__', norm(eq.body)[:80], "struct equality (the key of the typedef table) must compare the "
              "complete, unhashed names", eq.lineno)
    _placeholder_name(r, repo)
    _param_flow(r, repo)
    _argspec_kinds(r, repo)
    _param_kinds(r, repo)
    _lambda_block_names(r, repo)
    _file_names(r, repo)
    r.require_floor(34)
    return r


def _param_kinds(r, repo):
    """What a construct() parameter contributes to the module name, decided per kind of value {class, BitStruct class,
    function / lambda / other callable, plain value}: the bare __name__ only for classes; a callable must contribute
    neither its bare __name__ (closures of one factory alias) nor str()/repr() (contains the object's address: the
    module name changes from process to process)."""
    um = repo.mod(RUTIL)
    f = um.get_func('get_component_full_name')
    gs = [n for n in ast.walk(f) if isinstance(n, ast.FunctionDef) and n is not f]
    if len(gs) != 1:
        raise AnalysisError("get_component_full_name: the helper rendering one parameter value not found")
    g = gs[0]
    p0 = g.args.args[0].arg

    def mk_leaf(kind):
        cls = kind in ('class', 'bitstruct')
        fn = kind == 'function'

        def leaf(e):
            if not isinstance(e, ast.Call):
                return NotImplemented
            nm = norm(e.func).split('.')[-1]
            a0 = norm(e.args[0]) if e.args else None
            if a0 != p0:
                return NotImplemented
            if nm == 'isinstance' and len(e.args) == 2:
                names = {x.id for x in ast.walk(e.args[1]) if isinstance(x, ast.Name)} | \
                        {x.attr for x in ast.walk(e.args[1]) if isinstance(x, ast.Attribute)}
                res = False
                for t in names:
                    if t == 'type':
                        res = res or cls
                    elif t in ('FunctionType', 'LambdaType', 'MethodType', 'BuiltinFunctionType', 'Callable', 'partial'):
                        res = res or fn
                    elif t in ('int', 'str', 'float', 'bool', 'tuple', 'list', 'dict', 'Bits', 'bytes'):
                        res = res or kind == 'value'
                    elif t in ('types', 'typing', 'collections', 'abc', 'functools'):
                        continue
                    else:
                        raise AnalysisError(f"get_string: isinstance test against an unknown type {t}")
                return res
            if nm in ('isclass',):
                return cls
            if nm in ('isfunction', 'ismethod', 'isroutine', 'isbuiltin'):
                return fn
            if nm == 'callable':
                return cls or fn
            if nm == 'hasattr' and len(e.args) == 2 and isinstance(e.args[1], ast.Constant):
                if e.args[1].value in ('__name__', '__qualname__', '__call__', '__module__'):
                    return cls or fn
                if e.args[1].value in ('__code__', '__closure__', '__defaults__'):
                    return fn
                raise AnalysisError(f"get_string: hasattr test outside the domain: {norm(e)}")
            if nm == 'is_bitstruct_class':
                return kind == 'bitstruct'
            if nm == 'is_bitstruct_inst':
                return False
            return NotImplemented
        return leaf

    def reached(stmts, leaf):
        """(terminal statements reachable for this kind, may fall through); a test that does not depend on the kind of the
        value (a cache lookup, ...) is followed both ways"""
        out = []
        for st in stmts:
            if isinstance(st, ast.If):
                r.evaluations += 1
                try:
                    branches = [st.body if Evaluator({}, arith=False, leaf=leaf).ev(st.test) else st.orelse]
                except AnalysisError:
                    branches = [st.body, st.orelse]
                falls = False
                for b in branches:
                    o, ft = reached(b, leaf)
                    out += o
                    falls = falls or ft
                if not falls:
                    return out, False
            elif isinstance(st, (ast.Return, ast.Raise)):
                out.append(st)
                return out, False
            elif isinstance(st, (ast.Assign, ast.AugAssign, ast.Expr, ast.Pass)):
                continue
            else:
                raise AnalysisError(f"get_string: statement outside the domain: {norm(st)[:60]}")
        return out, True
    for kind in ('class', 'bitstruct', 'function', 'value'):
        terms, falls = reached(g.body, mk_leaf(kind))
        cons = f"construct() parameter that is a {kind}"
        if falls or not terms:
            r.bad(um, qualname(g), cons, "falls off the end: the parameter contributes the text `None`", g.lineno)
            continue
        rets = [t for t in terms if isinstance(t, ast.Return)]
        if not rets:
            r.ok(um, qualname(g), cons, note="rejected")
            continue
        verdicts = []
        for ret in rets:
            verdicts.append(_judge_param_return(r, um, g, p0, kind, cons, ret))
        if all(verdicts):
            r.ok(um, qualname(g), cons, note=norm(rets[0])[:60])


def _judge_param_return(r, um, g, p0, kind, cons, ret):
    """True if fine; reports and returns False otherwise"""
    v = _inline(ret.value, g) if ret.value is not None else None
    bare_name = isinstance(v, ast.Attribute) and v.attr in ('__name__', '__qualname__') and norm(v.value) == p0
    addr = (isinstance(v, ast.Call) and norm(v.func) in ('str', 'repr') and [norm(a) for a in v.args] == [p0]) or \
           (isinstance(v, ast.JoinedStr) and len(v.values) == 1 and isinstance(v.values[0], ast.FormattedValue) and
            norm(v.values[0].value) == p0)
    if kind == 'function' and bare_name:
        r.bad(um, qualname(g), cons + " rendered as its bare __name__",
              f"`{norm(ret)}` is reached for functions / lambdas / other callables: two closures made by one factory (or "
              f"two lambdas) have the same __name__, so instances built with different functions share one module name "
              f"while their bodies differ", ret.lineno)
    elif kind == 'function' and addr:
        r.bad(um, qualname(g), cons + " rendered as str(obj)",
              f"`{norm(ret)}` is reached for functions / lambdas / other callables: the default repr contains the object's "
              f"address (`<function f at 0x7f...>`), so the full name, the hashed module name and the emitted text differ "
              f"from process to process", ret.lineno)
    elif kind in ('class', 'bitstruct') and v is not None and p0 not in _names_of_raw(v):
        r.bad(um, qualname(g), cons, f"`{norm(ret)}` does not depend on the class", ret.lineno)
    else:
        return True
    return False


LEVEL3 = 'pymtl3/dsl/ComponentLevel3.py'
REPR_FORMS = ('s.y', 's.x[0]', 's.a.b[1][2:4]', 's.a[1:3]', 's.w[1][2].z', 's.q[0:8].k')


def _lambda_block_names(r, repo):
    """names of generated update blocks (lambda connections) are emitted as block labels: the builder must turn every
    character of the signal's repr that is illegal in an identifier into a legal one"""
    m = repo.mod(LEVEL3)
    f = m.get_func('ComponentLevel3._create_assign_lambda')
    defs = [c for c in ast.walk(f) if isinstance(c, ast.Call) and norm(c.func).endswith('FunctionDef')]
    la = _local_assignments(f)

    def closure_of(e):
        seen, todo = set(), list(_names_of_raw(e))
        while todo:
            nm = todo.pop()
            if nm in seen or nm not in la:
                continue
            seen.add(nm)
            for v in la[nm]:
                if v is not None:
                    todo.extend(_names_of_raw(v))
        return seen
    names = []
    for c in defs:
        for k in c.keywords:
            if k.arg == 'name':
                cl = closure_of(k.value)
                if any(isinstance(x, ast.Call) and norm(x.func) == 'repr' for nm in cl for v in la[nm] if v is not None
                       for x in ast.walk(v)) or any(isinstance(x, ast.Call) and norm(x.func) == 'repr' for x in ast.walk(k.value)):
                    names.append((c, k.value, cl))
    if len(names) != 1:
        raise AnalysisError("_create_assign_lambda: the generated update block FunctionDef(name=<from repr(signal)>) not found")
    defcall, expr, cl = names[0]
    # the statements that compute the name (assignments / loops over the names it is built from), in program order, up
    # to the statement that creates the FunctionDef
    top_stmt = defcall
    while parent(top_stmt) is not f:
        top_stmt = parent(top_stmt)
    pre = []
    for st in f.body:
        if st is top_stmt:
            break
        stored = {x.id for x in ast.walk(st) if isinstance(x, ast.Name) and isinstance(x.ctx, ast.Store)}
        if stored & cl and isinstance(st, (ast.Assign, ast.AugAssign, ast.While, ast.For, ast.If)):
            pre.append(st)
    badform = None
    for form in REPR_FORMS:
        for taken in (False, True):
            # `taken`: the plain name already belongs to another update block (the builder then appends a counter)
            def run(names_taken, form=form):
                def leaf(e):
                    if isinstance(e, ast.Call) and isinstance(e.func, ast.Name) and e.func.id == 'repr':
                        return form
                    if isinstance(e, ast.Attribute) and e.attr in ('name_upblk', 'name_func'):
                        return names_taken
                    return NotImplemented
                ex = _FnExec({}, arith=True, funcs=_GUARD_FUNCS, leaf=leaf)
                ex.block(pre)
                return ex.ev(expr)
            r.evaluations += 1
            got = run(set())
            if taken and isinstance(got, str):
                got = run({got})
            if not (isinstance(got, str) and re.fullmatch(r'[A-Za-z_][A-Za-z0-9_$]*', got)) and badform is None:
                badform = (form, got)
    cons = "block name of a lambda connection is a legal identifier for every signal repr"
    if badform:
        r.bad(m, 'ComponentLevel3._create_assign_lambda', cons,
              f"for the signal `{badform[0]}` the generated update block is called {badform[1]!r}; the translators emit the "
              f"block name as the label of the always block (`begin : {badform[1]}`), which is not a legal identifier",
              expr.lineno)
    else:
        r.ok(m, 'ComponentLevel3._create_assign_lambda', cons)


def _file_names(r, repo):
    """the output file is named after the same unique (parameter-carrying) name as the top module unless the user gave
    an explicit file name: otherwise two translated sub-hierarchies of one class overwrite each other's file"""
    impls = [(m, f) for rel in (VPASS, YTRANS + 'YosysTranslationPass.py') for m in [repo.mod(rel)]
             for f in ast.walk(m.tree) if isinstance(f, ast.FunctionDef) and f.name == 'traverse_hierarchy']
    if not impls:
        raise AnalysisError("anchor vanished: traverse_hierarchy")
    for m, f in impls:
        la = _local_assignments(f)
        paths = set()
        for c in ast.walk(f):
            if isinstance(c, ast.Call) and norm(c.func) == 'open' and len(c.args) >= 2 and isinstance(c.args[1], ast.Constant) \
                    and 'w' in str(c.args[1].value):
                paths |= _names_of_raw(c.args[0])
            if isinstance(c, ast.Call) and norm(c.func) in ('os.rename', 'os.replace', 'shutil.move'):
                for a in c.args:
                    paths |= _names_of_raw(a)
        paths &= set(la)
        if not paths:
            raise AnalysisError(f"{m.rel}: no written output file found in traverse_hierarchy")

        def marker(e):
            for x in ast.walk(e):
                if isinstance(x, ast.Attribute) and x.attr == '_top_module_full_name':
                    return True
                if isinstance(x, ast.Call) and isinstance(x.func, ast.Attribute) and x.func.attr == 'get_metadata' and \
                        'explicit_file_name' in norm(x):
                    return True
            return False

        def witness(nm, e, seen):
            """an assignment on which the path name lacks the unique name"""
            if marker(e):
                return None
            subs = [n2 for n2 in _names_of_raw(e) if n2 in la and n2 not in seen and any(x is not None for x in la[n2])]
            if not subs:
                return (nm, e)
            first = None
            for n2 in subs:
                ws = [witness(n2, v2, seen | {n2}) for v2 in la[n2] if v2 is not None]
                ws = [w for w in ws if w is not None]
                if not ws:
                    return None            # this variable carries the unique / explicit name on all its assignments
                first = first or ws[0]
            return first
        for pth in sorted(paths):
            cons = f"output file `{pth}`"
            ws = [witness(pth, v, {pth}) for v in la[pth] if v is not None]
            ws = [w for w in ws if w is not None]
            if ws:
                nm, val = ws[0]
                r.bad(m, qualname(f), cons,
                      f"`{nm} = {norm(val)[:80]}` names the output file without the unique module name "
                      f"(`_top_module_full_name`) or an explicit file name: two enabled sub-hierarchies of the same class with "
                      f"different parameters are written to the same file and the second overwrites the first",
                      getattr(val, 'lineno', f.lineno))
            else:
                r.ok(m, qualname(f), cons)


def _argspec_kinds(r, repo):
    """every kind of construct() parameter that inspect.getfullargspec reports is either encoded in the parameter list
    or rejected by a raising guard"""
    tm = repo.mod(RTYPE)
    gp = tm.get_func('Component._gen_parameters')
    specs = [n for n in ast.walk(gp) if isinstance(n, ast.Assign) and isinstance(n.value, ast.Call) and
             norm(n.value.func).endswith('getfullargspec') and isinstance(n.targets[0], ast.Name)]
    if len(specs) != 1:
        raise AnalysisError("Component._gen_parameters: inspect.getfullargspec(...) not found")
    var = specs[0].targets[0].id
    rets = [n for n in _own(gp) if isinstance(n, ast.Return) and n.value is not None]
    ret_src = set()
    for x in rets:
        ret_src |= sources(x.value, gp)
    la = _local_assignments(gp)
    for kind in ('args', 'varargs', 'varkw', 'kwonlyargs'):
        reads = [n for n in ast.walk(gp) if isinstance(n, ast.Attribute) and n.attr == kind and isinstance(n.value, ast.Name)
                 and n.value.id == var]
        rejected, encoded = False, False
        for n in reads:
            a = enclosing(n, (ast.Assert,))
            if a is not None and any(x is n for x in ast.walk(a.test)):
                # `assert not argspec.kind`: only valid for the getfullargspec result (same try body or after the try)
                t = a.test
                neg = isinstance(t, ast.UnaryOp) and isinstance(t.op, ast.Not)
                in_fallback = enclosing(a, (ast.ExceptHandler,)) is not None
                if neg and not in_fallback:
                    rejected = True
                continue
            i = enclosing(n, (ast.If,))
            if i is not None and any(x is n for x in ast.walk(i.test)) and always_exits(i.body) and \
                    any(isinstance(x, ast.Raise) for b in i.body for x in ast.walk(b)):
                rejected = True
                continue
            st = enclosing(n, (ast.Assign, ast.For))
            if st is not None:
                tg = {x.id for x in ast.walk(st.targets[0] if isinstance(st, ast.Assign) else st.target) if isinstance(x, ast.Name)}
                # flows into the returned list: through a local, a loop over it, or a length derived from it
                reach, todo = set(), list(tg)
                while todo:
                    nm = todo.pop()
                    if nm in reach:
                        continue
                    reach.add(nm)
                    for other, vs in la.items():
                        if any(v is not None and nm in _names_of_raw(v) for v in vs):
                            todo.append(other)
                    for lp in [x for x in _own(gp) if isinstance(x, ast.For) and nm in _names_of_raw(x.iter)]:
                        todo.extend(y.id for y in ast.walk(lp.target) if isinstance(y, ast.Name))
                appended = set()
                for c in [x for x in ast.walk(gp) if isinstance(x, ast.Call) and isinstance(x.func, ast.Attribute) and
                          x.func.attr == 'append']:
                    appended |= _names_of_raw(c)
                if reach & (ret_src | appended):
                    encoded = True
        cons = f"construct() {kind}"
        if rejected or encoded:
            r.ok(tm, 'Component._gen_parameters', cons, note='rejected by a guard' if rejected else 'encoded in the parameter list')
        else:
            r.bad(tm, 'Component._gen_parameters', cons,
                  f"`{var}.{kind}` is neither encoded in the parameter list nor rejected: a construct() argument of that kind "
                  f"(e.g. a keyword-only `*, incr`) silently drops out of the module name, so C(8, incr=1) and C(8, incr=2) "
                  f"share one name with different bodies", gp.lineno)


def _param_flow(r, repo):
    """The (args, kwargs) that Component._gen_parameters reads for the module name are the ones construct() is called
    with: after the parameter-tree merge the keyword dictionary is still `_dsl.kwargs` itself, or is stored back."""
    tm = repo.mod(RTYPE)
    gp = tm.get_func('Component._gen_parameters')
    read = {n.attr for n in ast.walk(gp) if isinstance(n, ast.Attribute) and isinstance(n.value, ast.Attribute)
            and n.value.attr == '_dsl'}
    if not {'args', 'kwargs'} <= read:
        raise AnalysisError("Component._gen_parameters no longer reads _dsl.args / _dsl.kwargs")
    cm = repo.mod(COMPONENT)
    f = cm.get_func('Component._construct')
    me = f.args.args[0].arg
    calls = [n for n in _own(f) if isinstance(n, ast.Call) and isinstance(n.func, ast.Attribute) and n.func.attr == 'construct'
             and norm(n.func.value) == me]
    if len(calls) != 1:
        raise AnalysisError("Component._construct: expected one call of construct()")
    call = calls[0]
    star = [a.value for a in call.args if isinstance(a, ast.Starred)]
    dstar = [k.value for k in call.keywords if k.arg is None]
    if len(star) != 1 or len(dstar) != 1 or len(call.args) != 1 or len(call.keywords) != 1:
        r.bad(cm, 'Component._construct', norm(call), "construct() must be called with exactly the recorded positional and "
              "keyword arguments (the module name is built from them)", call.lineno)
        return

    def is_field(e, attr):
        return isinstance(e, ast.Attribute) and e.attr == attr and isinstance(e.value, ast.Attribute) and \
            e.value.attr == '_dsl' and norm(e.value.value) == me
    for expr, attr in ((star[0], 'args'), (dstar[0], 'kwargs')):
        cons = f"construct() receives _dsl.{attr}"
        if is_field(expr, attr):
            r.ok(cm, 'Component._construct', cons)
            continue
        if not isinstance(expr, ast.Name):
            r.bad(cm, 'Component._construct', cons, f"construct() is called with `{norm(expr)}`, not with the recorded "
                  f"`_dsl.{attr}` the module name is computed from", call.lineno)
            continue
        v = expr.id
        assigns = [n for n in _own(f) if isinstance(n, ast.Assign) and any(isinstance(t, ast.Name) and t.id == v for t in n.targets)]
        mutated = [n for n in _own(f) if
                   (isinstance(n, ast.Call) and isinstance(n.func, ast.Attribute) and norm(n.func.value) == v and
                    n.func.attr in ('update', 'setdefault', 'pop', 'popitem', 'clear', '__setitem__')) or
                   (isinstance(n, (ast.Assign, ast.AugAssign)) and any(
                       isinstance(t, ast.Subscript) and norm(t.value) == v
                       for t in (n.targets if isinstance(n, ast.Assign) else [n.target]))) or
                   (isinstance(n, ast.AugAssign) and norm(n.target) == v)]
        backs = [n for n in _own(f) if isinstance(n, ast.Assign) and any(is_field(t, attr) for t in n.targets)
                 and norm(n.value) == v]
        if not assigns:
            raise AnalysisError(f"Component._construct: `{v}` is never assigned")
        bad = None
        for a in assigns:
            aval = _inline(a.value, f, stop={v})
            if is_field(aval, attr):
                continue                       # alias: in-place merges are visible to the name computation
            a_value = aval
            pure_copy = isinstance(a_value, ast.Call) and (
                (isinstance(a_value.func, ast.Attribute) and a_value.func.attr == 'copy' and is_field(a_value.func.value, attr)
                 and not a_value.args) or
                (isinstance(a_value.func, ast.Name) and a_value.func.id == 'dict' and len(a_value.args) == 1 and
                 not a_value.keywords and is_field(a_value.args[0], attr)))
            if pure_copy and not mutated:
                continue                       # an unmodified copy has the same content
            # a separate dictionary that receives the parameter-tree values: must be stored back before construct()
            blk = None
            p = parent(a)
            for fld in ('body', 'orelse', 'finalbody'):
                b = getattr(p, fld, None)
                if isinstance(b, list) and any(x is a for x in b):
                    blk = b
            later_same_block = [x for x in (blk or []) if x in backs and x.lineno > a.lineno]
            from sa.astutil import preceding_stmts
            before_call = [x for x in preceding_stmts(call) if x in backs and x.lineno > a.lineno]
            if not later_same_block and not before_call:
                bad = a
                break
        if bad is not None:
            r.bad(cm, 'Component._construct', cons,
                  f"`{norm(bad)}` makes the dictionary passed to construct() a different object from `_dsl.{attr}`, the merged "
                  f"set_param values are never stored back, and Component._gen_parameters reads `_dsl.{attr}`: two instances "
                  f"configured to different values through set_param(\"top.x.construct\", ...) get the same module name with "
                  f"different bodies (one body is emitted for both)", bad.lineno)
        else:
            r.ok(cm, 'Component._construct', cons)


VPLACEHOLDER = 'pymtl3/passes/backends/verilog/VerilogPlaceholderPass.py'


def _placeholder_name(r, repo):
    """the wrapper module of a placeholder is named by get_component_unique_name(<its RTLIR>) whenever construct() has
    parameters; the decision is evaluated over {cfg.params empty / not} x {irepr.get_params() empty / not}"""
    m = repo.mod(VPLACEHOLDER)
    f = m.get_func('VerilogPlaceholderPass.setup_default_configs')
    chains = [n for n in _own(f) if isinstance(n, ast.If) and n.orelse and
              all(any(isinstance(x, ast.Assign) and isinstance(x.targets[0], ast.Attribute) and
                      x.targets[0].attr == 'pickled_top_module' for x in blk) for blk in (n.body, n.orelse))]
    if len(chains) != 1:
        raise AnalysisError("setup_default_configs: decision assigning cfg.pickled_top_module not found")
    ch = chains[0]
    la = _local_assignments(f)
    test = ch.test
    for _ in range(4):
        mp = {nm: vs[0] for nm, vs in la.items() if len(vs) == 1 and vs[0] is not None and nm in _names_of(test)}
        if not mp:
            break
        test = _clone(test, mp)
    rparam = f.args.args[-1].arg

    def value_of(blk):
        return [x.value for x in blk if isinstance(x, ast.Assign) and isinstance(x.targets[0], ast.Attribute)
                and x.targets[0].attr == 'pickled_top_module'][0]

    def is_unique(v):
        return any(isinstance(c, ast.Call) and norm(c.func).endswith('get_component_unique_name') and
                   [norm(a) for a in c.args] == [rparam] for c in ast.walk(v))
    wrong = []
    for rp in ([], [('nbits', 8)]):
        for cp in ({}, {'p': 1}):
            def leaf(e, rp=rp, cp=cp):
                if isinstance(e, ast.Call) and isinstance(e.func, ast.Attribute) and e.func.attr == 'get_params':
                    return rp
                if isinstance(e, ast.Attribute) and e.attr == 'params':
                    return cp
                return NotImplemented
            taken = bool(Evaluator({}, arith=False, leaf=leaf, funcs={'bool': bool, 'len': len, 'any': any, 'all': all}).ev(test))
            r.evaluations += 1
            v = value_of(ch.body if taken else ch.orelse)
            if rp and not is_unique(v):
                wrong.append((bool(rp), bool(cp), norm(v)))
    cons = "placeholder wrapper name over {construct() parameters present} x {cfg.params present}"
    if wrong:
        w = wrong[0]
        r.bad(m, 'VerilogPlaceholderPass.setup_default_configs', cons,
              f"with construct() parameters present and cfg.params {'set' if w[1] else 'empty'} the wrapper module is named "
              f"{w[2]} instead of get_component_unique_name({rparam}): placeholders VReg(8) and VReg(16) both become "
              f"`<Class>_noparam` although their bodies differ", ch.lineno)
    else:
        r.ok(m, 'VerilogPlaceholderPass.setup_default_configs', cons)


def _hex_ranges(chars):
    codes = sorted({ord(c) for c in chars})
    out, i = [], 0
    while i < len(codes):
        j = i
        while j + 1 < len(codes) and codes[j + 1] == codes[j] + 1:
            j += 1
        out.append(f"{codes[i]:02x}" if i == j else f"{codes[i]:02x}-{codes[j]:02x}")
        i = j + 1
    return ' '.join(out)


def _names_of_raw(expr):
    return {n.id for n in ast.walk(expr) if isinstance(n, ast.Name)}


# ---------------------------------------------------------------------------------------------
def _methods_named(repo, files, name):
    out = []
    for rel in files:
        m = repo.mod(rel)
        for n in ast.walk(m.tree):
            if isinstance(n, ast.FunctionDef) and n.name == name:
                out.append((m, n))
    return out


def _if_chain_assign(func, var):
    """[(test or None, value expr)] of the if/elif/else chain that assigns `var` in every arm (first such chain)"""
    for n in _own(func):
        if isinstance(n, ast.If) and not (isinstance(parent(n), ast.If) and n in parent(n).orelse):
            arms, cur = [], n
            while True:
                val = [x.value for x in _own(cur) if isinstance(x, ast.Assign) and
                       any(isinstance(t, ast.Name) and t.id == var for t in x.targets)]
                if len(val) != 1:
                    arms = None
                    break
                arms.append((cur.test, val[0]))
                if len(cur.orelse) == 1 and isinstance(cur.orelse[0], ast.If):
                    cur = cur.orelse[0]
                    continue
                val = [x.value for s in cur.orelse for x in walk_no_nested(s) if isinstance(x, ast.Assign) and
                       any(isinstance(t, ast.Name) and t.id == var for t in x.targets)]
                if len(val) != 1:
                    arms = None
                    break
                arms.append((None, val[0]))
                break
            if arms:
                return arms
    return None


def rule_once(repo):
    r = RuleResult('R-C13-once', "every module definition is emitted exactly once and every component is visited; "
                                 "definition and instantiation names are produced by the same function with the same "
                                 "precedence of explicit names")
    scope = [f for f in scope_files(repo) if f not in DEBUG_ONLY]
    # ---- rtlir_tr_components: all values, once, no filter
    impls = [(m, f) for m, f in _methods_named(repo, scope, 'rtlir_tr_components')
             if not (len(f.body) == 1 and isinstance(f.body[0], ast.Raise))]
    if not impls:
        raise AnalysisError("anchor vanished: no implementation of rtlir_tr_components")
    for m, f in impls:
        p = f.args.args[-1].arg
        rets = [n for n in _own(f) if isinstance(n, ast.Return)]
        q = qualname(f)
        good, why = False, "expected `return <sep>.join(<all values of the table>)`"
        if len(rets) == 1 and isinstance(rets[0].value, ast.Call) and isinstance(rets[0].value.func, ast.Attribute) \
                and rets[0].value.func.attr == 'join' and len(rets[0].value.args) == 1 and len(f.body) <= 2:
            a = rets[0].value.args[0]
            while isinstance(a, ast.Call) and isinstance(a.func, ast.Name) and a.func.id in ('list', 'tuple', 'iter') \
                    and len(a.args) == 1:
                a = a.args[0]
            if isinstance(a, ast.Call) and isinstance(a.func, ast.Attribute) and a.func.attr == 'values' and \
                    norm(a.func.value) == p and not a.args:
                good = True
            elif isinstance(a, (ast.GeneratorExp, ast.ListComp)) and len(a.generators) == 1 and not a.generators[0].ifs:
                g = a.generators[0]
                it = norm(g.iter)
                tg = [x.id for x in ast.walk(g.target) if isinstance(x, ast.Name)]
                if it == f'{p}.values()' and isinstance(a.elt, ast.Name) and a.elt.id in tg:
                    good = True
                elif it == f'{p}.items()' and len(tg) == 2 and isinstance(a.elt, ast.Name) and a.elt.id == tg[1]:
                    good = True
                elif it == p and norm(a.elt) == f'{p}[{tg[0]}]':
                    good = True
                else:
                    why = "the joined pieces are not exactly the values of the components table"
            elif isinstance(a, (ast.GeneratorExp, ast.ListComp)):
                why = "a filter / nested loop drops or repeats module definitions"
            elif isinstance(a, ast.Call) and isinstance(a.func, ast.Name) and a.func.id in ('set', 'frozenset'):
                why = "values pass through a set: equal texts are merged and the order depends on the hash seed"
        if good:
            r.ok(m, q, norm(rets[0]))
        else:
            r.bad(m, q, norm(rets[0]) if rets else '<no return>', f"module definitions are not emitted exactly once each: {why}",
                  f.lineno)
    # ---- translate_component: all children first (no filter), then one store, name from component_unique_name
    tm = repo.mod(TRANSLATOR)
    tc = tm.get_func('mk_RTLIRTranslator._RTLIRTranslator.translate.translate_component')
    q = qualname(tc)
    mparam = tc.args.args[0].arg
    loops = [n for n in _own(tc) if isinstance(n, ast.For)]
    rec = [l for l in loops if any(isinstance(x, ast.Call) and isinstance(x.func, ast.Name) and x.func.id == tc.name
                                   for b in l.body for x in ast.walk(b))]
    if len(rec) != 1:
        r.bad(tm, q, 'recursion over children', "expected exactly one loop that recurses into the child components", tc.lineno)
    else:
        l = rec[0]
        cons = f"for {norm(l.target)} in {norm(l.iter)}"
        tg = [x.id for x in ast.walk(l.target) if isinstance(x, ast.Name)]
        calls = [x for b in l.body for x in ast.walk(b) if isinstance(x, ast.Call) and isinstance(x.func, ast.Name)
                 and x.func.id == tc.name]
        filt = [x for b in l.body for x in ast.walk(b) if isinstance(x, (ast.If, ast.Continue, ast.Break, ast.Return))]
        itok = isinstance(l.iter, ast.Call) and isinstance(l.iter.func, ast.Attribute) and \
            l.iter.func.attr == 'get_child_components' and norm(l.iter.func.value) == mparam
        if itok and not filt and len(calls) == 1 and calls[0].args and norm(calls[0].args[0]) in tg:
            r.ok(tm, q, cons)
        else:
            r.bad(tm, q, cons, "not every child component is translated (filtered / sliced iteration or conditional "
                  "recursion): an instantiated module would have no definition", l.lineno)
    stores = [n for n in _own(tc) if isinstance(n, ast.Assign) and
              any(isinstance(t, ast.Subscript) and norm(t.value) == tc.args.args[1].arg for t in n.targets)]
    if len(stores) != 1:
        r.bad(tm, q, 'components[...] = ...', "expected exactly one store of the component text", tc.lineno)
    else:
        st = stores[0]
        key = [t.slice for t in st.targets if isinstance(t, ast.Subscript)][0]
        ksrc = ' '.join(norm(v) for nm in _names_of(key) for v in _local_assignments(tc).get(nm, []) if v is not None) + norm(key)
        in_loop = enclosing(st, (ast.For, ast.While)) is not None
        if 'component_unique_name' in ksrc and mparam in sources(key, tc) and not in_loop:
            r.ok(tm, q, f"{norm(st.targets[0])} keyed by component_unique_name[{mparam}]")
        else:
            r.bad(tm, q, norm(st.targets[0]), "the table of emitted modules must be keyed by the unique name of the component "
                  "being translated, stored once per component", st.lineno)
        sval = _inline(st.value, tc)          # helper locals for the two namespaces read as if written in place
        val_calls = [x for x in ast.walk(sval) if isinstance(x, ast.Call) and isinstance(x.func, ast.Attribute) and
                     x.func.attr == 'rtlir_tr_component']
        nargs = [a for c in val_calls for a in c.args]
        nsp = [norm(a) for a in nargs]
        if val_calls and all(mparam in _names_of_raw(a) for a in nargs) and any('behavioral' in a for a in nsp) and \
                any('structural' in a for a in nsp):
            r.ok(tm, q, norm(sval)[:120])
        else:
            r.bad(tm, q, norm(st.value)[:120], f"the stored text must be rtlir_tr_component of the behavioral and structural "
                  f"namespaces of `{mparam}` itself", st.lineno)
    # get_component_nspace picks the entry of m
    ns = tm.get_func('mk_RTLIRTranslator._RTLIRTranslator.translate.get_component_nspace')
    sets = [x for x in ast.walk(ns) if isinstance(x, ast.Call) and isinstance(x.func, ast.Name) and x.func.id == 'setattr']
    mp = ns.args.args[1].arg
    if len(sets) == 1 and len(sets[0].args) == 3 and isinstance(sets[0].args[2], ast.Subscript) and \
            norm(sets[0].args[2].slice) == mp:
        g = [gd for gd in guards_of(sets[0]) if gd.kind == 'if']
        if g and isinstance(g[0].test, ast.Compare) and norm(g[0].test.left) == mp and g[0].polarity:
            r.ok(tm, qualname(ns), norm(sets[0]))
        else:
            r.bad(tm, qualname(ns), norm(sets[0]), "metadata of another component may be picked", sets[0].lineno)
    else:
        r.bad(tm, qualname(ns), 'setattr(ns, name, metadata[m])', "the per-component namespace must select exactly the entries "
              f"of `{mp}`", ns.lineno)
    # ---- unique name: same function for definition and instantiation
    un = [(m, f) for m, f in _methods_named(repo, scope, 'rtlir_tr_component_unique_name')
          if not (len(f.body) == 1 and isinstance(f.body[0], ast.Raise))]
    if not un:
        raise AnalysisError("anchor vanished: rtlir_tr_component_unique_name implementation")
    for m, f in un:
        body = [s for s in f.body if not (isinstance(s, ast.Expr) and isinstance(s.value, ast.Constant))]
        p = f.args.args[-1].arg
        if len(body) == 1 and isinstance(body[0], ast.Return) and isinstance(body[0].value, ast.Call) and \
                norm(body[0].value.func) == 'get_component_unique_name' and [norm(a) for a in body[0].value.args] == [p]:
            r.ok(m, qualname(f), norm(body[0]))
        else:
            r.bad(m, qualname(f), norm(body)[:100], "the backend must name modules with get_component_unique_name(<rtype>) "
                  "(placeholder pickling and import use the same function)", f.lineno)
    sm = repo.mod(SL1)
    ts = sm.get_func('StructuralTranslatorL1._translate_structural')
    mp = ts.args.args[1].arg
    st = [n for n in _own(ts) if isinstance(n, ast.Assign) and
          any(isinstance(t, ast.Subscript) and isinstance(t.value, ast.Attribute) and t.value.attr == 'component_unique_name'
              and norm(t.slice) == mp for t in n.targets)]
    if len(st) == 1 and isinstance(st[0].value, ast.Call) and isinstance(st[0].value.func, ast.Attribute) and \
            st[0].value.func.attr == 'rtlir_tr_component_unique_name' and mp in sources(st[0].value, ts) and \
            any('rtlir_type' in norm(v) and mp in norm(v) for nm in _names_of(st[0].value)
                for v in _local_assignments(ts).get(nm, []) if v is not None):
        r.ok(sm, qualname(ts), norm(st[0])[:120])
    else:
        r.bad(sm, qualname(ts), 'component_unique_name[m] = ...', "the definition name of a component must be "
              "rtlir_tr_component_unique_name of its own RTLIR type", ts.lineno)
    # ---- definition-name chains (VTranslator / YosysTranslator) and instantiation-name chains
    for rel in (VTRANSLATOR, YTRANSLATOR):
        m = repo.mod(rel)
        fs = [n for n in ast.walk(m.tree) if isinstance(n, ast.FunctionDef) and n.name == 'rtlir_tr_component']
        if len(fs) != 1:
            raise AnalysisError(f"anchor vanished: rtlir_tr_component in {rel}")
        ch = _if_chain_assign(fs[0], 'module_name')
        q = qualname(fs[0])
        if not ch:
            r.bad(m, q, 'module_name = ...', "cannot find the if/elif/else chain choosing the module name", fs[0].lineno)
            continue
        desc = ' / '.join(f"{'else' if t is None else norm(t)} -> {norm(v)}" for t, v in ch)[:200]
        first_ok = ch[0][0] is not None and 'explicit_module_name' in norm(ch[0][0]) and 'explicit_module_name' in norm(ch[0][1])
        last_ok = ch[-1][0] is None and norm(ch[-1][1]).endswith('.component_unique_name')
        mids_ok = all('placeholder' in norm(t) and 'is_top' in norm(t) for t, v in ch[1:-1])
        if first_ok and last_ok and mids_ok:
            r.ok(m, q, desc)
        else:
            r.bad(m, q, desc, "the module header name must be: explicit name, else (top of a placeholder) the mangled "
                  "placeholder name, else the unique name -- the same choice the instantiation side makes; otherwise an "
                  "instantiated module name has no definition or two components share one", fs[0].lineno)
    for rel in (VSL4, YSL4):
        m = repo.mod(rel)
        fs = [n for n in ast.walk(m.tree) if isinstance(n, ast.FunctionDef) and n.name == 'rtlir_tr_subcomp_decl']
        if len(fs) != 1:
            raise AnalysisError(f"anchor vanished: rtlir_tr_subcomp_decl in {rel}")
        inner = [n for n in ast.walk(fs[0]) if isinstance(n, ast.FunctionDef)]
        ch, host = None, None
        for fn in inner:
            ch = _if_chain_assign(fn, 'c_name')
            if ch:
                host = fn
                break
        q = qualname(host) if host is not None else qualname(fs[0])
        if not ch:
            r.bad(m, q, 'c_name = ...', "cannot find the chain choosing the instantiated module name", fs[0].lineno)
            continue
        desc = ' / '.join(f"{'else' if t is None else norm(t)} -> {norm(v)}" for t, v in ch)[:200]
        la = _local_assignments(host)
        def arm_src(v):
            return norm(v) + ' ' + ' '.join(norm(x) for nm in _names_of(v) for x in la.get(nm, []) if x is not None)
        has_unique = any('rtlir_tr_component_unique_name' in arm_src(v) for t, v in ch)
        has_expl = any('explicit' in arm_src(v) for t, v in ch)
        if has_unique and has_expl:
            r.ok(m, q, desc[:120], note="which arm is taken when is evaluated by R-C13-defname")
        else:
            r.bad(m, q, desc, "the instantiated module name must be: placeholder top module / explicit name, else "
                  "rtlir_tr_component_unique_name(...) -- the function the definition side uses", host.lineno)
    _wrapper_guard(r, repo, scope)
    _prefix_recursion(r, repo, scope)
    _paired_port_tests(r, repo)
    _same_text_predicate(r, repo)
    _definition_key(r, repo)
    r.require_floor(31)
    return r


def _prefix_recursion(r, repo, scope):
    """Generators that build hierarchical identifiers `<a>__<b>` and call themselves for a nested member: every name
    component of the current level must survive into the name components of the recursive call (passed on, or folded
    into another component) -- otherwise two members of different nested objects get the same identifier in one scope"""
    files = [f for f in scope if f.startswith(VTRANS + 'structural/') or f.startswith(YTRANS + 'structural/')]
    n = 0
    for rel in files:
        m = repo.mod(rel)
        for f in [x for x in ast.walk(m.tree) if isinstance(x, ast.FunctionDef)]:
            params = [a.arg for a in f.args.args]
            me = params[0] if params and isinstance(parent(f), ast.ClassDef) else None
            recs = []
            for c in ast.walk(f):
                if not isinstance(c, ast.Call) or enclosing(c, (ast.FunctionDef,)) is not f:
                    continue
                if me and isinstance(c.func, ast.Attribute) and c.func.attr == f.name and norm(c.func.value) == me:
                    recs.append((c, params[1:]))
                elif isinstance(c.func, ast.Name) and c.func.id == f.name and not isinstance(parent(f), ast.ClassDef):
                    recs.append((c, params))
            if not recs:
                continue
            # name components: parameters glued with a `__` separator somewhere in the function
            comps = set()
            for js in [x for x in ast.walk(f) if isinstance(x, ast.JoinedStr)]:
                vals = js.values
                for i, v in enumerate(vals):
                    if isinstance(v, ast.FormattedValue) and isinstance(v.value, ast.Name) and v.value.id in params:
                        near = [vals[j] for j in (i - 1, i + 1) if 0 <= j < len(vals)]
                        if any(isinstance(x, ast.Constant) and '__' in str(x.value) for x in near):
                            comps.add(v.value.id)
            for b in [x for x in ast.walk(f) if isinstance(x, ast.BinOp) and isinstance(x.op, ast.Add)]:
                if any(isinstance(x, ast.Constant) and isinstance(x.value, str) and '__' in x.value for x in (b.left, b.right)):
                    for x in ast.walk(b):
                        if isinstance(x, ast.Name) and x.id in params:
                            comps.add(x.id)
            if len(comps) < 1:
                continue
            # parameters that are identifiers by name are name components as well (so that a recursion which glues the
            # separator to the WRONG variable is still judged against the right one)
            comps |= {p_ for p_ in params if re.fullmatch(r'(_?[a-z]*_?id_?|c?[pw]id)', p_)}
            for c, ps in recs:
                if any(isinstance(a, ast.Starred) for a in c.args):
                    continue
                bound = dict(zip(ps, c.args))
                for k in c.keywords:
                    if k.arg:
                        bound[k.arg] = k.value
                carried = set()
                for p in comps:
                    if p in bound:
                        carried |= _names_of_raw(_inline(bound[p], f, stop=set(params)))
                n += 1
                lost = sorted(p for p in comps if p in bound and p not in carried)
                cons = f"{f.name}: name components {sorted(comps)} survive the recursion"
                if lost:
                    r.bad(m, qualname(f), cons,
                          f"the recursive call `{norm(c.func)}(...)` replaces the name component(s) {lost} without folding the old "
                          f"value into another component (e.g. the interface prefix must become f'{{ifc_id}}__{{port_id}}' when "
                          f"descending into the nested interface `port_id`): members of two different nested objects get the same "
                          f"identifier, which is then declared twice in one scope", c.lineno)
                else:
                    r.ok(m, qualname(f), cons)
    if n < 4:
        raise AnalysisError(f"R-C13-once: only {n} recursive identifier generators found in the structural translators")


def _same_text_predicate(r, repo):
    """verilog_cmp decides whether a freshly translated file is the one already on disk (the import pass then reuses the
    cached model under that module name): it must be True exactly when ALL line pairs are equal -- evaluated on every pair
    of line lists over a two-letter alphabet up to length 3"""
    import itertools
    m = repo.mod(VUTIL)
    f = m.functions.get('verilog_cmp')
    if f is None:
        raise AnalysisError("anchor vanished: verilog_cmp")
    params = [a.arg for a in f.args.args]
    if len(params) != 2:
        raise AnalysisError("verilog_cmp: signature changed")
    lists = [list(t) for n in range(0, 4) for t in itertools.product('ab', repeat=n)]
    wrong = None
    for A in lists:
        for B in lists:
            def leaf(e, A=A, B=B):
                if isinstance(e, ast.Call) and norm(e.func).endswith('get_lean_verilog_file') and len(e.args) == 1 and \
                        isinstance(e.args[0], ast.Name) and e.args[0].id in params:
                    return list(A) if e.args[0].id == params[0] else list(B)
                return NotImplemented
            r.evaluations += 1
            kind, val = _FnExec({params[0]: 'f0', params[1]: 'f1'}, arith=True,
                                funcs=dict(_GUARD_FUNCS, range=lambda *a: list(range(*a)), enumerate=lambda v: list(enumerate(v))),
                                leaf=leaf).call(f)
            got = bool(val) if kind == 'return' and not isinstance(val, _Opaque) else None
            if got != (A == B) and wrong is None:
                wrong = (A, B, got)
    cons = "verilog_cmp(a, b) is True iff every line pair is equal"
    if wrong:
        r.bad(m, 'verilog_cmp', cons,
              f"for line lists {wrong[0]} and {wrong[1]} the predicate gives {wrong[2]} (expected {wrong[0] == wrong[1]}): a later "
              f"equal line overwrites an earlier difference, so a different design with the same module name is reported "
              f"unchanged and the stale cached model is reused under that name", f.lineno)
    else:
        r.ok(m, 'verilog_cmp', cons)


def _definition_key(r, repo):
    """the table of emitted definitions is keyed by the name the definition is emitted under: the module header uses the
    explicit module name when one is set, so the key must take it into account as well"""
    tm = repo.mod(TRANSLATOR)
    tc = tm.get_func('mk_RTLIRTranslator._RTLIRTranslator.translate.translate_component')
    stores = [n for n in _own(tc) if isinstance(n, ast.Assign) and
              any(isinstance(t, ast.Subscript) and norm(t.value) == tc.args.args[1].arg for t in n.targets)]
    if len(stores) != 1:
        raise AnalysisError("translate_component: the store of the component text not found")
    key = [t.slice for t in stores[0].targets if isinstance(t, ast.Subscript)][0]
    kx = _inline(key, tc)
    attrs = {x.attr for x in ast.walk(kx) if isinstance(x, ast.Attribute)}
    header_uses_explicit = False
    for rel in (VTRANSLATOR, YTRANSLATOR):
        hm = repo.mod(rel)
        for fn in [n for n in ast.walk(hm.tree) if isinstance(n, ast.FunctionDef) and n.name == 'rtlir_tr_component']:
            ch = _if_chain_assign(fn, 'module_name')
            if ch and any('explicit_module_name' in norm(v) for t, v in ch):
                header_uses_explicit = True
    cons = "definitions table keyed by the name the module is emitted under"
    if header_uses_explicit and 'component_explicit_module_name' not in attrs and 'component_unique_name' in attrs:
        r.bad(tm, qualname(tc), cons,
              f"the table is keyed by `{norm(kx)}` (the unique name) while the module header is `explicit_module_name` whenever one "
              f"is set: of two instances of one class, one with an explicit module name, only the first is emitted -- under its "
              f"own header name -- and the other one's instantiated module name is defined nowhere", stores[0].lineno)
    else:
        r.ok(tm, qualname(tc), cons)


def _paired_port_tests(r, repo):
    """`if '<name>' not in <ports>: <add a port called name>`: the name tested is the name added (clk / reset siblings)"""
    m = repo.mod(VPLACEHOLDER)
    f = m.get_func('VerilogPlaceholderPass._gen_verilog_wrapper')
    n = 0
    for st in [x for x in _own(f) if isinstance(x, ast.If)]:
        t, neg = st.test, False
        while isinstance(t, ast.UnaryOp) and isinstance(t.op, ast.Not):
            t, neg = t.operand, not neg
        if not (isinstance(t, ast.Compare) and len(t.ops) == 1 and isinstance(t.ops[0], (ast.In, ast.NotIn)) and
                isinstance(t.left, ast.Constant) and isinstance(t.left.value, str)):
            continue
        absent_branch = st.body if (isinstance(t.ops[0], ast.NotIn) != neg) else st.orelse
        adds = [a for b in absent_branch for c in ast.walk(b) if isinstance(c, ast.Call) and isinstance(c.func, ast.Attribute)
                and c.func.attr in ('insert', 'append') for a in c.args if isinstance(a, ast.Constant) and isinstance(a.value, str)]
        for a in adds:
            mm = re.search(r'([A-Za-z_][A-Za-z0-9_$]*)\s*,?\s*$', a.value)
            if not mm:
                continue
            n += 1
            cons = f"port `{mm.group(1)}` is added iff it is absent"
            if mm.group(1) == t.left.value:
                r.ok(m, qualname(f), cons)
            else:
                r.bad(m, qualname(f), cons,
                      f"the port `{mm.group(1)}` is added when `{t.left.value}` is missing: a wrapper whose component already has "
                      f"`{mm.group(1)}` but no `{t.left.value}` declares `{mm.group(1)}` twice in one port list, one that has "
                      f"`{t.left.value}` but no `{mm.group(1)}` lacks it", st.lineno)
    if n < 2:
        raise AnalysisError("_gen_verilog_wrapper: the clk / reset port completion was not found")


def _wrapper_guard(r, repo, scope):
    """Every emission of a placeholder wrapper is dominated by `wrapper name != wrapped top module -> else raise`,
    whatever way the wrapper name was chosen: otherwise the output defines the wrapped module's name twice."""
    impls = [(m, f) for m, f in _methods_named(repo, scope, 'rtlir_tr_placeholder_src')
             if not (len(f.body) == 1 and isinstance(f.body[0], ast.Raise))]
    if not impls:
        raise AnalysisError("anchor vanished: no implementation of rtlir_tr_placeholder_src")
    for m, f in impls:
        emis = [n for n in _own(f) if isinstance(n, ast.Call) and isinstance(n.func, ast.Attribute) and n.func.attr == 'format'
                and any(k.arg == 'top_module_name' for k in n.keywords)]
        if not emis:
            raise AnalysisError(f"{m.rel}: the wrapper template is no longer filled with top_module_name=...")
        for e in emis:
            name = [k.value for k in e.keywords if k.arg == 'top_module_name'][0]
            cons = f"wrapper emitted under {_key_desc(name, f) if not isinstance(name, ast.Name) else 'the chosen module name'}"
            nm = norm(name)
            relevant = []
            from sa.astutil import Guard
            for g0 in guards_of(e):
                if g0.kind not in ('if', 'exit', 'assert') or g0.test is None:
                    continue
                g = Guard(_inline(g0.test, f, stop={nm}), g0.polarity, g0.kind, g0.node)
                leaves = [x for x in ast.walk(g.test) if isinstance(x, (ast.Name, ast.Attribute))]
                if any(norm(x) == nm for x in leaves) and any(isinstance(x, ast.Attribute) and x.attr == 'top_module' for x in leaves):
                    relevant.append(g)
            reachable_equal = True
            import itertools
            for g in relevant:
                # other atoms of the test (e.g. "an explicit name is set") are unknown: the guard excludes the equal-name
                # case only if it does so for every valuation of them
                others = []
                def collect(x):
                    if isinstance(x, (ast.BoolOp,)):
                        for y in x.values:
                            collect(y)
                    elif isinstance(x, ast.UnaryOp):
                        collect(x.operand)
                    elif isinstance(x, ast.Compare):
                        for y in [x.left] + list(x.comparators):
                            collect(y)
                    elif isinstance(x, ast.Constant):
                        pass
                    elif norm(x) != nm and not (isinstance(x, ast.Attribute) and x.attr == 'top_module'):
                        if norm(x) not in others:
                            others.append(norm(x))
                collect(g.test)
                if len(others) > 5:
                    raise AnalysisError(f"wrapper-name guard too large: {norm(g.test)[:80]}")
                excludes = True
                for vals in itertools.product((False, True), repeat=len(others)):
                    amap = dict(zip(others, vals))

                    def leaf(x, nm=nm, amap=amap):
                        t = norm(x)
                        if t == nm or (isinstance(x, ast.Attribute) and x.attr == 'top_module'):
                            return 'SAME'
                        if t in amap:
                            return amap[t]
                        return NotImplemented
                    r.evaluations += 1
                    if bool(Evaluator({}, arith=False, leaf=leaf).ev(g.test)) == g.polarity:
                        excludes = False
                if excludes:
                    reachable_equal = False
                    if g.kind == 'exit' and not any(isinstance(x, ast.Raise) for b in g.exit_block for x in ast.walk(b)):
                        reachable_equal = True      # leaves silently instead of reporting
            if reachable_equal:
                r.bad(m, qualname(f), cons,
                      f"the wrapper is emitted as `module {nm}` on a path where nothing excludes {nm} == <cfg>.top_module "
                      f"(e.g. explicit_module_name set to the name of the wrapped Verilog module): the output then contains two "
                      f"different definitions of that module, one instantiating itself", e.lineno)
            else:
                r.ok(m, qualname(f), cons)


# ---------------------------------------------------------------------------------------------
def rule_instname(repo):
    r = RuleResult('R-C13-instname', "the module name of an instantiated sub-component is computed for each array element "
                                     "from that element's own RTLIR, not once from the array's shared type")
    for rel in (VSL4, YSL4):
        m = repo.mod(rel)
        fs = [n for n in ast.walk(m.tree) if isinstance(n, ast.FunctionDef) and n.name == 'rtlir_tr_subcomp_decl']
        if len(fs) != 1:
            raise AnalysisError(f"anchor vanished: rtlir_tr_subcomp_decl in {rel}")
        top = fs[0]
        calls = [n for n in ast.walk(top) if isinstance(n, ast.Call) and isinstance(n.func, ast.Attribute) and
                 n.func.attr == 'rtlir_tr_component_unique_name']
        if not calls:
            r.bad(m, qualname(top), 'rtlir_tr_component_unique_name(...)', "the instantiated module name is not obtained from "
                  "rtlir_tr_component_unique_name", top.lineno)
            continue
        # the per-element expansion: a nested function that calls itself with the remaining dimensions, passing a
        # parameter that accumulates the element index
        for c in calls:
            host = enclosing(c, (ast.FunctionDef,))
            q = qualname(c)
            cons = "instantiated module name <- rtlir_tr_component_unique_name(...)"
            idx_params = set()
            if host is not top:
                loopvars = set()
                for n in ast.walk(host):
                    if isinstance(n, (ast.For, ast.comprehension)) and isinstance(n.iter, ast.Call) and \
                            isinstance(n.iter.func, ast.Name) and n.iter.func.id == 'range':
                        loopvars |= {x.id for x in ast.walk(n.target) if isinstance(x, ast.Name)}
                params = [a.arg for a in host.args.args]
                for n in ast.walk(host):
                    if isinstance(n, ast.Call) and isinstance(n.func, ast.Name) and n.func.id == host.name:
                        for p, a in zip(params, n.args):
                            if _names_of_raw(a) & loopvars:
                                idx_params.add(p)
            src = sources(c.args[0], host) if c.args else set()
            if idx_params and (src & idx_params):
                r.ok(m, q, cons, note=f"depends on the element index through {sorted(src & idx_params)}")
                _element_order(r, m, top, host, c, idx_params)
            else:
                r.bad(m, q, cons,
                      f"the instantiated module name is computed from {sorted(src - {'s', 'self'})} which does not depend on "
                      f"the array element index: for `s.x = [ C(p=i) for i in range(n) ]` (same interface, different "
                      f"parameters) every element is instantiated as the module of element 0 although a separate module "
                      f"is defined for each", c.lineno)
    r.require_floor(4)
    return r


class _MiniExec(_GuardEval):
    """evaluates an extracted straight-line / while block that selects an array element (string building, int(), list(),
    getattr, eval of an attribute path, subscripts, pop) over concrete index paths"""
    def ev_JoinedStr(self, x):
        out = ''
        for v in x.values:
            if isinstance(v, ast.Constant):
                out += str(v.value)
            else:
                out += format(self.ev(v.value), '')
        return out

    def ev_Attribute(self, e):
        base = self.ev(e.value)
        if isinstance(base, dict) and e.attr in base:
            return base[e.attr]
        raise AnalysisError(f"attribute outside the element-lookup domain: {norm(e)}")

    def ev_Call(self, e):
        f = e.func
        if isinstance(f, ast.Name):
            args = [self.ev(a) for a in e.args]
            if f.id == 'eval' and len(args) == 1 and isinstance(args[0], str):
                return self.ev(ast.parse(args[0], mode='eval').body)
            if f.id == 'getattr' and len(args) >= 2 and isinstance(args[0], dict):
                return args[0][args[1]]
            table = {'int': int, 'str': str, 'list': list, 'tuple': tuple, 'len': len, 'reversed': lambda v: list(reversed(v)),
                     'range': lambda *a: list(range(*a)), 'enumerate': lambda v: list(enumerate(v)), 'sum': sum}
            if f.id in table:
                return table[f.id](*args)
            raise AnalysisError(f"call outside the element-lookup domain: {norm(e)}")
        if isinstance(f, ast.Attribute):
            v = self.ev(f.value)
            args = [self.ev(a) for a in e.args]
            if isinstance(v, str) and f.attr in ('split', 'join', 'strip', 'lstrip', 'rstrip', 'replace', 'format'):
                return getattr(v, f.attr)(*args)
            if isinstance(v, list) and f.attr in ('pop', 'append', 'reverse', 'index', 'copy', 'insert'):
                return getattr(v, f.attr)(*args)
        raise AnalysisError(f"call outside the element-lookup domain: {norm(e)}")

    def exec(self, stmts, fuel=200):
        for st in stmts:
            if isinstance(st, ast.Assign) and len(st.targets) == 1 and isinstance(st.targets[0], ast.Name):
                self.env[st.targets[0].id] = self.ev(st.value)
            elif isinstance(st, ast.Assign) and len(st.targets) == 1 and isinstance(st.targets[0], (ast.Tuple, ast.List)):
                vals = self.ev(st.value)
                for t, v in zip(st.targets[0].elts, vals):
                    self.env[t.id] = v
            elif isinstance(st, ast.AugAssign) and isinstance(st.target, ast.Name) and isinstance(st.op, ast.Add):
                self.env[st.target.id] = self.env[st.target.id] + self.ev(st.value)
            elif isinstance(st, ast.While):
                while self.ev(st.test):
                    fuel -= 1
                    if fuel < 0:
                        raise AnalysisError("element lookup does not terminate")
                    self.exec(st.body, fuel)
            elif isinstance(st, ast.For) and isinstance(st.target, ast.Name):
                for v in self.ev(st.iter):
                    self.env[st.target.id] = v
                    self.exec(st.body, fuel)
            elif isinstance(st, ast.If):
                self.exec(st.body if self.ev(st.test) else st.orelse, fuel)
            elif isinstance(st, ast.Expr):
                self.ev(st.value)
            else:
                raise AnalysisError(f"statement outside the element-lookup domain: {norm(st)[:60]}")


class _Opaque:
    """a value the abstract execution does not model (hash objects, digests, ...): absorbs arithmetic, never equals a name"""
    def __add__(self, o):
        return self
    __radd__ = __sub__ = __rsub__ = __mul__ = __rmul__ = __mod__ = __getitem__ = __add__

    def __getattr__(self, nm):
        if nm.startswith('__'):
            raise AttributeError(nm)
        return lambda *a, **k: self


class _Break(Exception):
    pass


class _Continue(Exception):
    pass


class _FnExec(_MiniExec):
    """statement-wise abstract execution of one small pure function: if / for (break, continue, else) / while / return /
    assignments; anything it cannot evaluate in an assignment becomes an opaque value (a test on an opaque value is an
    analysis error)"""
    def call(self, func):
        from sa.minieval import Returned
        try:
            self.block(func.body)
        except Returned as ret:
            return ('return', ret.value)
        return ('fall', None)

    def ev_Name(self, e):
        if e.id not in self.env and e.id in ('True', 'False', 'None'):
            return {'True': True, 'False': False, 'None': None}[e.id]
        return super().ev_Name(e)

    def ev_Call(self, e):
        if isinstance(e.func, ast.Name) and e.func.id == 'zip':
            return list(zip(*[self.ev(a) for a in e.args]))
        if isinstance(e.func, ast.Name) and e.func.id in self.funcs and not e.keywords:
            args = [self.ev(a) for a in e.args]
            if any(isinstance(a, _Opaque) for a in args):
                return _Opaque()
            return self.funcs[e.func.id](*args)
        if isinstance(e.func, ast.Attribute) and norm(e.func.value) == 're':
            if e.func.attr == 'sub' and len(e.args) == 3:
                return re.sub(self.ev(e.args[0]), self.ev(e.args[1]), self.ev(e.args[2]))
            return _GuardEval.ev_Call(self, e)
        if isinstance(e.func, ast.Attribute):
            try:
                v = self.ev(e.func.value)
            except AnalysisError:
                v = None
            if isinstance(v, _Opaque):
                return v
        return super().ev_Call(e)

    def bind(self, t, v):
        if isinstance(t, ast.Name):
            self.env[t.id] = v
        elif isinstance(t, (ast.Tuple, ast.List)):
            for x, y in zip(t.elts, v):
                self.bind(x, y)
        else:
            raise AnalysisError(f"assignment target outside the domain: {norm(t)}")

    def soft(self, e):
        try:
            return self.ev(e)
        except (AnalysisError, TypeError):
            return _Opaque()

    def block(self, stmts, fuel=2000):
        from sa.minieval import Returned
        for st in stmts:
            if isinstance(st, ast.Expr):
                self.soft(st.value)
            elif isinstance(st, ast.Assign):
                v = self.soft(st.value)
                for t in st.targets:
                    if isinstance(t, (ast.Name, ast.Tuple, ast.List)) and not (isinstance(v, _Opaque) and not isinstance(t, ast.Name)):
                        self.bind(t, v)
            elif isinstance(st, ast.AugAssign) and isinstance(st.target, ast.Name):
                v = self.soft(ast.BinOp(left=ast.Name(id=st.target.id, ctx=ast.Load()), op=st.op, right=st.value))
                self.env[st.target.id] = v
            elif isinstance(st, ast.Return):
                raise Returned(None if st.value is None else self.soft(st.value))
            elif isinstance(st, ast.If):
                t = self.ev(st.test)
                if isinstance(t, _Opaque):
                    raise AnalysisError(f"test on a value outside the domain: {norm(st.test)[:60]}")
                self.block(st.body if t else st.orelse)
            elif isinstance(st, (ast.For, ast.While)):
                broke = False
                if isinstance(st, ast.For):
                    it = self.ev(st.iter)
                    if isinstance(it, _Opaque):
                        raise AnalysisError(f"loop over a value outside the domain: {norm(st.iter)[:60]}")
                    seq = list(it)
                else:
                    seq = None
                i = 0
                while True:
                    fuel -= 1
                    if fuel < 0:
                        raise AnalysisError("abstract execution does not terminate")
                    if seq is not None:
                        if i >= len(seq):
                            break
                        self.bind(st.target, seq[i])
                        i += 1
                    elif not self.ev(st.test):
                        break
                    try:
                        self.block(st.body)
                    except _Break:
                        broke = True
                        break
                    except _Continue:
                        continue
                if not broke:
                    self.block(st.orelse)
            elif isinstance(st, ast.Break):
                raise _Break()
            elif isinstance(st, ast.Continue):
                raise _Continue()
            elif isinstance(st, ast.Pass):
                pass
            elif isinstance(st, ast.Assert):
                pass
            elif isinstance(st, (ast.Import, ast.ImportFrom)):
                pass
            else:
                raise AnalysisError(f"statement outside the domain: {norm(st)[:60]}")


def _element_order(r, m, top, host, call, idx_params):
    """the element whose RTLIR names instance (i, j) is the element at index path (i, j): evaluated on a 2 x 3 array"""
    q = qualname(call)
    cons = "element selected for instance <id>__i__j is element [i][j]"
    params = [a.arg for a in host.args.args]
    rec = [n for n in ast.walk(host) if isinstance(n, ast.Call) and isinstance(n.func, ast.Name) and n.func.id == host.name]
    init = [n for n in _own(top) if isinstance(n, ast.Call) and isinstance(n.func, ast.Name) and n.func.id == host.name]
    if len(rec) != 1 or len(init) != 1:
        raise AnalysisError(f"{m.rel}: per-element recursion of {host.name} not understood")
    rec, init = rec[0], init[0]
    loop = enclosing(rec, (ast.For, ast.comprehension)) if enclosing(rec, (ast.For,)) is not None else None
    if loop is None:
        comps = [g for n in ast.walk(host) if isinstance(n, (ast.ListComp, ast.GeneratorExp)) and
                 any(x is rec for x in ast.walk(n)) for g in n.generators]
        if len(comps) != 1:
            raise AnalysisError(f"{m.rel}: loop around the recursive call of {host.name} not found")
        loop = comps[0]
    lv = loop.target.id if isinstance(loop.target, ast.Name) else None
    if lv is None:
        raise AnalysisError(f"{m.rel}: loop variable of the per-element recursion not a plain name")
    # which value feeds get_rtlir(...)
    elem = None
    for v in [call.args[0]] + [x for nm in _names_of_raw(call.args[0]) for x in _local_assignments(host).get(nm, []) if x is not None]:
        for cc in ast.walk(v):
            if isinstance(cc, ast.Call) and isinstance(cc.func, ast.Attribute) and cc.func.attr == 'get_rtlir' and cc.args:
                elem = cc.args[0]
    if elem is None or not isinstance(elem, ast.Name):
        raise AnalysisError(f"{m.rel}: the object whose RTLIR names the instance is not a plain variable")
    grid = [[f"e{i}{j}" for j in range(3)] for i in range(2)]
    bad = None
    if elem.id in params:
        # the element itself travels down the recursion: must be indexed by the same loop variable as the instance id
        a = rec.args[params.index(elem.id)]
        if isinstance(a, ast.Subscript) and norm(a.value) == elem.id and norm(a.slice) == lv:
            r.ok(m, q, cons, note="the element is indexed level by level together with the instance id")
        else:
            r.bad(m, q, cons, f"the recursion passes `{norm(a)}` as the element: it is not indexed by the loop variable `{lv}` "
                  f"that also extends the instance id, so instance ids and elements can diverge", rec.lineno)
        return
    # the element is looked up in the leaf from the accumulated index parameter(s)
    leaf_stmt = call
    while parent(leaf_stmt) is not None and not any(leaf_stmt in getattr(parent(leaf_stmt), fld, []) if isinstance(
            getattr(parent(leaf_stmt), fld, None), list) else False for fld in ('body', 'orelse')):
        leaf_stmt = parent(leaf_stmt)
    blk = None
    for fld in ('body', 'orelse'):
        b = getattr(parent(leaf_stmt), fld, None)
        if isinstance(b, list) and any(x is leaf_stmt for x in b):
            blk = b
    idx = [i for i, x in enumerate(blk) if x is leaf_stmt][0]
    need = sources(elem, host) | {elem.id}
    la = _local_assignments(host)
    closure, todo = set(), [elem.id]
    while todo:
        nm = todo.pop()
        if nm in closure:
            continue
        closure.add(nm)
        for v in la.get(nm, []):
            if v is not None:
                todo.extend(_names_of_raw(v))
    closure |= need
    changed = True
    while changed:                      # everything the selecting statements read (loop iterables, while tests, ...)
        changed = False
        for st in blk[:idx + 1]:
            if isinstance(st, (ast.Import, ast.ImportFrom)):
                continue
            stored = {x.id for x in ast.walk(st) if isinstance(x, ast.Name) and isinstance(x.ctx, ast.Store)}
            if stored & closure:
                reads = {x.id for x in ast.walk(st) if isinstance(x, ast.Name) and isinstance(x.ctx, ast.Load)}
                if not reads <= closure:
                    closure |= reads
                    changed = True
    pre = []
    for st in blk[:idx + 1]:
        stored = {x.id for x in ast.walk(st) if isinstance(x, ast.Name) and isinstance(x.ctx, ast.Store)}
        mutated = {norm(x.func.value) for x in ast.walk(st) if isinstance(x, ast.Call) and isinstance(x.func, ast.Attribute)
                   and x.func.attr in ('pop', 'append', 'reverse', 'insert')}
        if isinstance(st, (ast.Import, ast.ImportFrom)):
            continue
        if (stored | mutated) & closure and not any(isinstance(x, ast.Call) and isinstance(x.func, ast.Attribute) and
                                                    x.func.attr in ('get_rtlir', 'rtlir_tr_component_unique_name')
                                                    for x in ast.walk(st)):
            pre.append(st)
    for i in range(2):
        for j in range(3):
            env = {}
            for pname, a in zip(params, init.args):
                # initial value, then one recursion step per dimension
                try:
                    val = _MiniExec({'n_dim': [2, 3]}, arith=True).ev(a) if pname in idx_params else None
                except AnalysisError:
                    val = None
                env[pname] = val
            for k in (i, j):
                new = dict(env)
                for pname, a in zip(params, rec.args):
                    if pname in idx_params:
                        e2 = dict(env)
                        e2[lv] = k
                        new[pname] = _MiniExec(e2, arith=True).ev(a)
                env = new
            cid = 'x'
            for pname in params:
                if env.get(pname) is None:
                    env[pname] = cid if pname == top.args.args[2].arg else None
            env['m'] = {cid: grid}
            env[top.args.args[1].arg] = {cid: grid}
            env[top.args.args[2].arg] = env.get(top.args.args[2].arg) or cid
            env['n_dim'] = []
            ex = _MiniExec(env, arith=True)
            r.evaluations += 1
            try:
                ex.exec(pre)
                got = ex.env.get(elem.id)
            except (IndexError, KeyError, TypeError) as e_:
                got = f"<{type(e_).__name__}: index path applied to the wrong dimensions>"
            if got != grid[i][j] and bad is None:
                bad = (i, j, got)
    if bad:
        r.bad(m, q, cons, f"for a 2 x 3 component array the instance with indices ({bad[0]}, {bad[1]}) is named after element "
              f"{bad[2]!r} instead of 'e{bad[0]}{bad[1]}' (index path applied in the wrong order): with elements of different "
              f"parameters the instance gets another element's module", call.lineno)
    else:
        r.ok(m, q, cons)


def rule_defname(repo):
    """The name a module is DEFINED under must be the name it is INSTANTIATED under: instantiation sites honour an explicit
    module name unconditionally, so the definition-name decision must give the explicit name whenever one is set (in both
    back-ends), then the mangled placeholder name for the top, else the unique name."""
    r = RuleResult('R-C13-defname', "module definition name: explicit name whenever set, else mangled placeholder top name, else the unique "
                                    "name -- identical in the SystemVerilog and Yosys back-ends")
    import itertools
    for rel, q in ((VTRANS + 'VTranslator.py', 'mk_VTranslator.VTranslator.rtlir_tr_component'),
                   (YTRANS + 'YosysTranslator.py', 'YosysTranslator.rtlir_tr_component')):
        m = repo.mod(rel)
        try:
            f = m.get_func(q)
        except AnalysisError:
            cands = [n for n in ast.walk(m.tree) if isinstance(n, ast.FunctionDef) and n.name == 'rtlir_tr_component']
            if len(cands) != 1:
                raise
            f = cands[0]
        chains = [s_ for s_ in f.body if isinstance(s_, ast.If) and any(isinstance(x, ast.Assign) and norm(x.targets[0]) == 'module_name' for x in ast.walk(s_))]
        if len(chains) != 1:
            raise AnalysisError(f"{rel}: module_name decision chain not found")
        atoms = ['structural.component_explicit_module_name', 'structural.component_is_top', 's._mangled_placeholder_top_module_name']
        bad = None
        for vals in itertools.product((False, True), repeat=3):
            env = {atoms[0]: 'EXPL' if vals[0] else '', atoms[1]: vals[1], atoms[2]: 'MANGLED' if vals[2] else '',
                   'structural.component_unique_name': 'UNIQUE'}
            ev = Evaluator(env, arith=False)
            ev._block([chains[0]])
            r.evaluations += 1
            got = ev.env.get('module_name')
            want = 'EXPL' if vals[0] else ('MANGLED' if (vals[1] and vals[2]) else 'UNIQUE')
            if got != want and bad is None:
                bad = (dict(zip(('explicit', 'is_top', 'mangled'), vals)), got, want)
        cons = "module_name decision over {explicit name set, is top, mangled placeholder name set}"
        fn = 'rtlir_tr_component'
        if bad:
            r.bad(m, fn, cons, f"for {bad[0]} the module is defined as {bad[1]!r} but must be {bad[2]!r}: a non-top component with an "
                  f"explicit module name is instantiated under that name (the instantiation site honours it unconditionally) while "
                  f"its definition gets another name -> the output instantiates an undefined module", chains[0].lineno)
        else:
            r.ok(m, fn, cons)
    r.require_floor(2)
    return r


def _config_owner(r, repo):
    """the translation config (explicit module name, ...) stored for a component is built from THAT component: the
    definition site reads tr_cfgs[m], the instantiation site reads the child's own metadata"""
    m = repo.mod(VPASS)
    fs = [n for n in ast.walk(m.tree) if isinstance(n, ast.FunctionDef) and n.name == 'gen_tr_cfgs']
    if len(fs) != 1:
        raise AnalysisError("anchor vanished: VerilogTranslationPass.gen_tr_cfgs")
    f = fs[0]
    rets = [n for n in _own(f) if isinstance(n, ast.Return) and isinstance(n.value, ast.Name)]
    if len(rets) != 1:
        raise AnalysisError("gen_tr_cfgs: expected `return <table>`")
    tbl = rets[0].value.id
    stores = [n for n in ast.walk(f) if isinstance(n, ast.Assign) and any(
        isinstance(t, ast.Subscript) and norm(t.value) == tbl for t in n.targets)]
    if not stores:
        raise AnalysisError("gen_tr_cfgs: no store into the config table")
    for st in stores:
        host = enclosing(st, (ast.FunctionDef,))
        key = [t.slice for t in st.targets if isinstance(t, ast.Subscript)][0]
        cons = "translation config table: entry of a component is built from that component"
        v = _inline(st.value, host)
        args = [norm(a) for a in v.args] if isinstance(v, ast.Call) else None
        params = [a.arg for a in host.args.args]
        if args is None or len(args) != 1:
            r.bad(m, qualname(host), cons, f"`{norm(st)}`: the config is not built by a call on one component", st.lineno)
            continue
        good = args[0] == norm(key) and isinstance(key, ast.Name) and key.id in params
        # the traversal must hand every child to itself
        recs = [c for c in ast.walk(host) if isinstance(c, ast.Call) and isinstance(c.func, ast.Name) and c.func.id == host.name]
        rec_ok = True
        for c in recs:
            lp = enclosing(c, (ast.For,))
            rec_ok = rec_ok and lp is not None and len(c.args) == 1 and norm(c.args[0]) == norm(lp.target) and \
                isinstance(lp.iter, ast.Call) and isinstance(lp.iter.func, ast.Attribute) and \
                lp.iter.func.attr == 'get_child_components' and norm(lp.iter.func.value) == norm(key)
        if good and rec_ok and (host is f or recs):
            r.ok(m, qualname(host), cons)
        elif not good:
            r.bad(m, qualname(host), cons,
                  f"`{norm(st)}` stores under `{norm(key)}` a config built from `{args[0]}`"
                  f"{'' if isinstance(key, ast.Name) and key.id in params else ' (the key is not the traversal parameter)'}: every "
                  f"descendant gets the config of another component (e.g. the translation top with its explicit_module_name), so "
                  f"at the definition site all of them are named like the top while the instantiation sites read each child's own "
                  f"metadata -> one module name defined several times, instantiated names undefined", st.lineno)
        else:
            r.bad(m, qualname(host), cons, "the traversal does not descend into the children of the component whose config it "
                  "stores: components without a config entry", st.lineno)


def rule_instchain(repo):
    """Instantiation side of the definition/instantiation agreement.  A (non-top) placeholder child is DEFINED by its
    pickled wrapper, i.e. under cfg.pickled_top_module, whatever explicit name it carries; any other child is defined under
    its explicit name if set, else under its unique name (R-C13-defname above).  The name chosen at the instantiation site
    is evaluated over {placeholder / ordinary} x {explicit name set / unset} in both back-ends."""
    r = RuleResult('R-C13-defname', "instantiated module name == defined module name for placeholder / explicitly named / "
                                    "ordinary children, identically in the SystemVerilog and Yosys back-ends")
    import itertools
    tables = {}
    for rel in (VSL4, YSL4):
        m = repo.mod(rel)
        fs = [n for n in ast.walk(m.tree) if isinstance(n, ast.FunctionDef) and n.name == 'rtlir_tr_subcomp_decl']
        if len(fs) != 1:
            raise AnalysisError(f"anchor vanished: rtlir_tr_subcomp_decl in {rel}")
        host, ch = None, None
        for fn in [n for n in ast.walk(fs[0]) if isinstance(n, ast.FunctionDef)]:
            ch = _if_chain_assign(fn, 'c_name')
            if ch:
                host = fn
                break
        if not ch:
            raise AnalysisError(f"{rel}: decision chain for the instantiated module name not found")
        la = _local_assignments(host)
        expl_names = {nm for nm, vs in la.items() if any(v is not None and 'explicit_module_name' in norm(v) for v in vs)}
        table = {}
        for is_ph, has_expl in itertools.product((False, True), repeat=2):
            def leaf(e, is_ph=is_ph, has_expl=has_expl):
                if isinstance(e, ast.Call) and norm(e.func) == 'isinstance' and len(e.args) == 2:
                    if 'Placeholder' in norm(e.args[1]):
                        return is_ph
                    raise AnalysisError(f"isinstance test outside the domain: {norm(e)}")
                if isinstance(e, ast.Name) and e.id in expl_names:
                    return 'EXPL' if has_expl else ''
                if isinstance(e, ast.Attribute) and e.attr == 'pickled_top_module':
                    return 'PICKLED'
                if isinstance(e, ast.Call) and isinstance(e.func, ast.Attribute) and e.func.attr == 'rtlir_tr_component_unique_name':
                    return 'UNIQUE'
                if isinstance(e, ast.Name) and any(v is not None and isinstance(v, ast.Call) and isinstance(v.func, ast.Attribute)
                                                   and v.func.attr == 'rtlir_tr_component_unique_name' for v in la.get(e.id, [])):
                    return 'UNIQUE'
                if isinstance(e, ast.Call) and isinstance(e.func, ast.Attribute) and e.func.attr in ('has_metadata',):
                    return has_expl
                if isinstance(e, ast.Call) and isinstance(e.func, ast.Attribute) and e.func.attr in ('get_metadata',) and \
                        'explicit_module_name' in norm(e):
                    return 'EXPL' if has_expl else ''
                return NotImplemented
            got = None
            for t, v in ch:
                ev = Evaluator({}, arith=False, leaf=leaf)
                r.evaluations += 1
                if t is None or ev.ev(t):
                    try:
                        got = ev.ev(v)
                    except AnalysisError:
                        got = f"<{norm(v)[:40]}>"
                    break
            table[(is_ph, has_expl)] = got
        tables[rel] = table
        want = {(ph, ex): ('PICKLED' if ph else ('EXPL' if ex else 'UNIQUE')) for ph in (False, True) for ex in (False, True)}
        wrong = [(k, table[k], want[k]) for k in sorted(want) if table[k] != want[k]]
        cons = "instantiated name over {placeholder child} x {explicit name set}"
        if wrong:
            (ph, ex), got, w = wrong[0]
            r.bad(m, qualname(host), cons,
                  f"a {'placeholder' if ph else 'ordinary'} child {'with' if ex else 'without'} an explicit module name is "
                  f"instantiated as {got!r} but defined as {w!r} (a placeholder child is defined by its pickled wrapper "
                  f"`pickled_top_module`, whatever explicit name it carries): the output instantiates a module that is "
                  f"defined nowhere", host.lineno)
        else:
            r.ok(m, qualname(host), cons)
    _config_owner(r, repo)
    if len(tables) == 2:
        a, b = tables[VSL4], tables[YSL4]
        if a == b:
            r.ok(YSL4, 'rtlir_tr_subcomp_decl', 'SystemVerilog and Yosys instantiation name decisions agree')
        else:
            diff = [k for k in a if a[k] != b[k]]
            r.bad(repo.mod(YSL4), 'rtlir_tr_subcomp_decl', 'SystemVerilog vs Yosys instantiation name decision',
                  f"the two back-ends name the instantiated module differently for (placeholder, explicit) = {diff}: "
                  f"SystemVerilog {[a[k] for k in diff]} vs Yosys {[b[k] for k in diff]}")
    r.require_floor(4)
    return r


def rule_defaults(repo):
    """Parameters that construct() leaves at their default must be reported with THAT parameter's default: the parameter list
    is the module-name suffix, a shifted default makes two differently built instances share a name."""
    r = RuleResult('R-C13-defaults', "a construct() argument left at its default is recorded with its own default value")
    m = repo.mod(RTYPE)
    f = m.get_func('Component._gen_parameters')
    subs = [n for n in ast.walk(f) if isinstance(n, ast.Subscript) and norm(n.value) == 'defaults' and isinstance(n.ctx, ast.Load)]
    if len(subs) != 1:
        raise AnalysisError("Component._gen_parameters: access to the defaults tuple not found")
    idx_expr = subs[0].slice
    from sa.astutil import reaching_value
    lp = enclosing(subs[0], (ast.For,))
    if lp is None or not isinstance(lp.target, ast.Tuple):
        raise AnalysisError("Component._gen_parameters: argument loop not found")
    idxv = norm(lp.target.elts[0])
    wrong = None
    for n in range(1, 5):
        for nd in range(1, n + 1):
            for ns in range(n - nd, n + 1):
                for idx in range(n - nd, n):
                    def leaf(e, n=n, nd=nd, ns=ns, idx=idx):
                        t = norm(e)
                        if t == idxv:
                            return idx
                        if t in ('len(arg_names)', 'num_args'):
                            return n
                        if t in ('len(defaults)', 'num_defaults'):
                            return nd
                        if t == 'num_supplied':
                            return ns
                        if isinstance(e, ast.Name):
                            rv = reaching_value(e.id, subs[0])
                            if rv is not None and norm(rv) in ('len(arg_names)', 'len(defaults)'):
                                return n if 'arg_names' in norm(rv) else nd
                        return NotImplemented
                    got = Evaluator({}, arith=True, leaf=leaf).ev(idx_expr)
                    r.evaluations += 1
                    pos = got if got >= 0 else nd + got
                    if pos != idx - (n - nd) and wrong is None:
                        wrong = (n, nd, ns, idx, got)
    cons = f"defaults[{norm(idx_expr)}] for argument index {idxv}"
    if wrong:
        n, nd, ns, idx, got = wrong
        r.bad(m, 'Component._gen_parameters', cons,
              f"with {n} construct arguments, {nd} defaults and {ns} supplied values, argument #{idx} is reported with defaults[{got}] "
              f"instead of defaults[{idx-(n-nd)}]: the recorded parameters (and the module name built from them) belong to another "
              f"configuration, so differently built instances can share one module name", subs[0].lineno)
    else:
        r.ok(m, 'Component._gen_parameters', cons)
    r.require_floor(1)
    return r


def _translator_classes(repo, files):
    """classes that implement translation hooks (at least one rtlir_tr_* method), also inside class factories"""
    out = []
    for rel in files:
        m = repo.mod(rel)
        for c in ast.walk(m.tree):
            if isinstance(c, ast.ClassDef) and any(isinstance(x, ast.FunctionDef) and x.name.startswith('rtlir_tr_')
                                                   for x in c.body):
                out.append((m, c))
    return out


def _conditional(node, func):
    """the statement does not run on every execution of func (branch, loop, handler, after an early exit)"""
    if guards_of(node):
        return True
    p = parent(node)
    while p is not None and p is not func:
        if isinstance(p, (ast.If, ast.For, ast.While, ast.Try, ast.ExceptHandler, ast.With)) and not isinstance(p, ast.With):
            return True
        p = parent(p)
    return False


def rule_state(repo):
    r = RuleResult('R-C13-state', "translator state that decides emitted names / text is unconditionally re-initialised at the "
                                  "start of every translate() (a translator object is reused for several roots)")
    INIT = ('rtlir_tr_initialize',)
    vfiles = [f for f in scope_files(repo) if f.startswith(VTRANS)]
    yfiles = [f for f in scope_files(repo) if f.startswith(YTRANS)]
    vinit_attrs = None
    for backend, files, base in (('verilog', vfiles, []), ('yosys', yfiles, vfiles)):
        classes = _translator_classes(repo, files + base)
        if not classes:
            raise AnalysisError(f"anchor vanished: no translator classes in the {backend} back-end")
        stores, reads = {}, set()
        hooks = []
        for m, c in classes:
            for f in [x for x in c.body if isinstance(x, ast.FunctionDef)]:
                me = f.args.args[0].arg if f.args.args else None
                if f.name in INIT and m.rel in files:
                    hooks.append((m, c, f))
                for n in ast.walk(f):
                    if isinstance(n, ast.Attribute) and isinstance(n.value, ast.Name) and n.value.id == me:
                        if isinstance(n.ctx, ast.Store):
                            stores.setdefault(n.attr, []).append((m, c, f, n))
                        else:
                            reads.add(n.attr)
        own_hook = bool(hooks)
        if backend == 'verilog' and not hooks:
            raise AnalysisError("anchor vanished: rtlir_tr_initialize of the SystemVerilog translator")
        if backend == 'yosys' and not hooks:
            # inherits the SystemVerilog hook: nothing of its own to compare
            r.ok(YTRANSLATOR, 'YosysTranslator', 'inherits rtlir_tr_initialize of the SystemVerilog translator', nontrivial=False)
        # (i) inside the hook every re-initialisation is unconditional
        init_uncond = set()
        for m, c, f in hooks:
            calls_super = any(isinstance(x, ast.Call) and isinstance(x.func, ast.Attribute) and x.func.attr == f.name and
                              isinstance(x.func.value, ast.Call) and norm(x.func.value.func) == 'super' and
                              not _conditional(x, f) for x in ast.walk(f))
            me = f.args.args[0].arg
            per_attr = {}
            for n in ast.walk(f):
                if isinstance(n, ast.Attribute) and isinstance(n.ctx, ast.Store) and isinstance(n.value, ast.Name) and n.value.id == me:
                    per_attr.setdefault(n.attr, []).append(n)
            for attr, ns in sorted(per_attr.items()):
                cons = f"{backend}: {f.name} re-initialises `{attr}`"
                if any(not _conditional(n, f) for n in ns):
                    init_uncond.add(attr)
                    r.ok(m, qualname(f), cons)
                else:
                    r.bad(m, qualname(f), cons,
                          f"`{me}.{attr}` is reset only under a condition ({' and '.join(repr(g) for g in guards_of(ns[0]))[:120]}): "
                          f"the value written while translating one root survives into the next translate() of the same "
                          f"translator, e.g. an ordinary root is emitted under the previous placeholder root's module name",
                          ns[0].lineno)
            if backend == 'yosys' and vinit_attrs is not None and not calls_super:
                missing = sorted(vinit_attrs - init_uncond)
                if missing:
                    r.bad(m, qualname(f), f"yosys: {f.name} vs the SystemVerilog hook",
                          f"overrides the initialise hook without calling super() and does not reset {missing}", f.lineno)
        if backend == 'verilog':
            vinit_attrs = set(init_uncond)
        else:
            init_uncond |= (vinit_attrs or set()) if not own_hook or True else set()
        # (ii) carried state: an attribute with a conditional store outside the hooks / __init__, that is read somewhere,
        # must be reset unconditionally by the hook
        for attr, lst in sorted(stores.items()):
            outside = [(m, c, f, n) for m, c, f, n in lst if f.name not in INIT and f.name != '__init__' and m.rel in files + base]
            cond = [(m, c, f, n) for m, c, f, n in outside if _conditional(n, f)]
            uncond = [x for x in outside if x not in cond]
            if not cond or attr not in reads:
                continue
            if backend == 'yosys' and not any(m.rel in files for m, c, f, n in lst) and attr in (vinit_attrs or set()):
                continue          # judged with the SystemVerilog back-end
            m, c, f, n = cond[0]
            cons = f"{backend}: `{attr}` written conditionally during translation ({f.name})"
            # an attribute that the same method always writes before (unconditional store elsewhere in every writer) is fresh
            if attr in init_uncond:
                r.ok(m, qualname(f), cons, note="reset unconditionally by rtlir_tr_initialize")
            elif uncond and all(any(u[2] is w[2] for u in uncond) for w in cond):
                r.ok(m, qualname(f), cons, nontrivial=False, note="every writer also stores it unconditionally")
            else:
                r.bad(m, qualname(f), cons,
                      f"`{attr}` is written only on some paths of {f.name} and read elsewhere, but rtlir_tr_initialize does not "
                      f"reset it unconditionally: the value of a previous translate() of the reused translator leaks into the "
                      f"names / text of the next one", n.lineno)
        init_only = sorted(a for a, lst in stores.items() if all(f.name == '__init__' for m, c, f, n in lst) and a in reads)
        if init_only:
            r.observations.append(f"{backend}: attributes bound only in __init__ (mutated in place during translation, "
                                  f"balanced push/pop assumed): {init_only}")
    _distinct_tables(r, repo)
    _inputs_before_use(r, repo)
    r.require_floor(10)
    return r


def _inputs_before_use(r, repo):
    """every per-translation input that clear() stores on the translator (`s.x = <parameter>`) is stored before any call
    -- including super().clear(...) and the rest of the clear chain -- that reads `s.x`: otherwise the metadata of this
    translation is generated from the value of the PREVIOUS translate() call"""
    files = [f for f in scope_files(repo) if f.startswith(GENERIC) or f.startswith(VTRANS) or f.startswith(YTRANS)]
    defs = {}
    for rel in files:
        m = repo.mod(rel)
        for c in ast.walk(m.tree):
            if isinstance(c, ast.ClassDef):
                for f in c.body:
                    if isinstance(f, ast.FunctionDef) and f.args.args:
                        defs.setdefault(f.name, []).append((m, c, f))
    memo = {}

    def reads(name, depth=0):
        """attributes of self read by any method called `name`, transitively through self / super calls"""
        if name in memo:
            return memo[name]
        memo[name] = set()
        out = set()
        for m, c, f in defs.get(name, []):
            me = f.args.args[0].arg
            for n in ast.walk(f):
                if isinstance(n, ast.Attribute) and isinstance(n.value, ast.Name) and n.value.id == me and isinstance(n.ctx, ast.Load):
                    par = parent(n)
                    if isinstance(par, ast.Call) and par.func is n:
                        if depth < 8:
                            out |= reads(n.attr, depth + 1)
                    else:
                        out.add(n.attr)
                elif isinstance(n, ast.Call) and isinstance(n.func, ast.Attribute) and isinstance(n.func.value, ast.Call) and \
                        norm(n.func.value.func) == 'super' and depth < 8:
                    out |= reads(n.func.attr, depth + 1)
                elif isinstance(n, ast.Call) and isinstance(n.func, ast.Name) and n.func.id in ('hasattr', 'getattr') and \
                        len(n.args) >= 2 and isinstance(n.args[0], ast.Name) and n.args[0].id == me and \
                        isinstance(n.args[1], ast.Constant):
                    out.add(n.args[1].value)
        memo[name] = out
        return out
    n_inst = 0
    for m, c, f in defs.get('clear', []):
        me = f.args.args[0].arg
        params = {a.arg for a in f.args.args[1:]}
        for i, st in enumerate(f.body):
            if not (isinstance(st, ast.Assign) and len(st.targets) == 1 and isinstance(st.targets[0], ast.Attribute) and
                    norm(st.targets[0].value) == me and _names_of_raw(st.value) & params):
                continue
            attr = st.targets[0].attr
            n_inst += 1
            cons = f"{c.name}.clear stores `{attr}` before the clear chain reads it"
            early = None
            for prev in f.body[:i]:
                for x in ast.walk(prev):
                    if isinstance(x, ast.Attribute) and x.attr == attr and isinstance(x.ctx, ast.Load) and norm(x.value) == me:
                        early = early or x          # read directly, before this call's value is stored
                for call in [x for x in ast.walk(prev) if isinstance(x, ast.Call) and isinstance(x.func, ast.Attribute)]:
                    recv = call.func.value
                    is_super = isinstance(recv, ast.Call) and norm(recv.func) == 'super'
                    if (is_super or (isinstance(recv, ast.Name) and recv.id == me)) and attr in reads(call.func.attr):
                        early = early or call
            if early is not None:
                r.bad(m, qualname(f), cons,
                      f"`{norm(early)[:60]}` runs before `{norm(st)}` and (through the clear chain) reads `{me}.{attr}`: the "
                      f"metadata of this translation is generated from the value left by the previous translate() call (None "
                      f"on the first one), so translating the same design twice with one translator gives different text",
                      early.lineno)
            else:
                r.ok(m, qualname(f), cons)
    if n_inst < 2:
        raise AnalysisError(f"R-C13-state: only {n_inst} per-translation inputs stored by clear() methods found")


def _distinct_tables(r, repo):
    """two per-translation tables are two objects: no chained assignment / shared local binds ONE mutable literal to two
    names that are both filled by item stores"""
    scope = [f for f in scope_files(repo) if f not in DEBUG_ONLY]
    item_stored = set()
    for rel in scope:
        for n in ast.walk(repo.mod(rel).tree):
            if isinstance(n, (ast.Assign, ast.AugAssign)):
                for t in (n.targets if isinstance(n, ast.Assign) else [n.target]):
                    if isinstance(t, ast.Subscript):
                        nm = _terminal(t.value)
                        if nm:
                            item_stored.add(nm)
            elif isinstance(n, ast.Call) and isinstance(n.func, ast.Attribute) and n.func.attr in ('append', 'add', 'update', 'setdefault', 'extend'):
                nm = _terminal(n.func.value)
                if nm:
                    item_stored.add(nm)

    def mutable(v):
        return isinstance(v, (ast.Dict, ast.List, ast.Set, ast.ListComp, ast.DictComp, ast.SetComp)) or (
            isinstance(v, ast.Call) and isinstance(v.func, ast.Name) and v.func.id in
            ('dict', 'list', 'set', 'deque', 'defaultdict', 'OrderedDict', 'TranslatorMetadata'))
    n_chk, found = 0, False
    for rel in scope:
        m = repo.mod(rel)
        for fn in [x for x in ast.walk(m.tree) if isinstance(x, ast.FunctionDef)]:
            groups = []
            fresh_locals = {}
            for st in _own(fn):
                if not isinstance(st, ast.Assign):
                    continue
                if mutable(st.value):
                    n_chk += 1
                    if len(st.targets) > 1:
                        groups.append((st, [t for t in st.targets]))
                    elif isinstance(st.targets[0], ast.Name):
                        fresh_locals[st.targets[0].id] = st
                elif isinstance(st.value, ast.Name) and st.value.id in fresh_locals and \
                        len(_local_assignments(fn).get(st.value.id, [])) == 1:
                    fresh_locals.setdefault('@' + st.value.id, [])
                    fresh_locals['@' + st.value.id].append(st)
            for k, lst in list(fresh_locals.items()):
                if k.startswith('@') and len(lst) > 1:
                    groups.append((lst[0], [t for s_ in lst for t in s_.targets]))
            for st, tgts in groups:
                names = [_terminal(t) for t in tgts if _terminal(t)]
                filled = sorted({nm for nm in names if nm in item_stored})
                if len(filled) >= 2:
                    found = True
                    r.bad(m, qualname(st), f"tables {filled} are one object",
                          f"`{norm(st)[:100]}` binds ONE mutable object to {filled}, which are filled separately by item stores: "
                          f"an entry written through one name overwrites the other's (e.g. the no_synthesis flag replaces every "
                          f"explicit module name before the definition is emitted, so the instantiated name is defined nowhere)",
                          st.lineno)
    if n_chk < 20:
        raise AnalysisError(f"R-C13-state: only {n_chk} table initialisations found")
    if not found:
        r.ok(scope[0], '<scope>', f"{n_chk} mutable table initialisations: none shared between two filled names")


# ---------------------------------------------------------------------------------------------
def _self_paths(repo, m, cls, meth, depth=3, expand=False, _seen=None):
    """access paths of `self` read by a method: tuples of attribute names (`s.cls.__name__` -> ('cls', '__name__')); a call
    of a method of the same class is the atom ('name()',) or, with expand=True, the paths of that method"""
    me = meth.args.args[0].arg
    out = set()
    _seen = _seen or set()
    for n in ast.walk(meth):
        if not isinstance(n, ast.Attribute) or isinstance(parent(n), ast.Attribute):
            continue
        chain, cur = [], n
        while isinstance(cur, ast.Attribute):
            chain.append(cur.attr)
            cur = cur.value
        if not (isinstance(cur, ast.Name) and cur.id == me):
            continue
        chain.reverse()
        is_call = isinstance(parent(n), ast.Call) and parent(n).func is n
        if is_call and len(chain) == 1:
            hit = None
            try:
                hit = repo.lookup_method(m, cls, chain[0])
            except AnalysisError:
                hit = None
            if hit is not None and expand and depth > 0 and (hit[1].name, chain[0]) not in _seen:
                out |= _self_paths(repo, hit[0], cls, hit[2], depth - 1, True, _seen | {(hit[1].name, chain[0])})
            else:
                out.add((chain[0] + '()',))
            continue
        if is_call:
            chain = chain[:-1]             # s.properties.items() reads s.properties
        if chain and chain[0] not in ('__class__',):
            out.add(tuple(chain))
    return out


def rule_eqhash(repo):
    r = RuleResult('R-C13-eqhash', "classes used as keys of the de-duplication tables: __hash__ is a function of what __eq__ "
                                   "compares (equal type objects fall into one table slot, so a typedef is emitted once)")
    files = [RDTYPE, RTYPE, RTLIR + 'structural/StructuralRTLIRSignalExpr.py']
    # key classes: the RTLIR data types (keys of the typedef tables) and whatever an isinstance() guard of a
    # first-writer-wins table names
    key_classes = set(repo.mod(RDTYPE).classes)
    for rel in [f for f in scope_files(repo) if f not in DEBUG_ONLY]:
        m = repo.mod(rel)
        for func in [n for n in ast.walk(m.tree) if isinstance(n, ast.FunctionDef)]:
            for ifn, K, D, V, hit in _dedup_sites(func):
                if not isinstance(K, ast.Name):
                    continue
                for g in guards_of(ifn):
                    for c in ast.walk(g.test) if g.test is not None else []:
                        if isinstance(c, ast.Call) and norm(c.func) == 'isinstance' and len(c.args) == 2 and norm(c.args[0]) == K.id:
                            for t in ast.walk(c.args[1]):
                                if isinstance(t, ast.Attribute):
                                    key_classes.add(t.attr)
                                elif isinstance(t, ast.Name):
                                    key_classes.add(t.id)
    n_checked = 0
    for rel in files:
        m = repo.mod(rel)
        for cname, cls in sorted(m.classes.items()):
            own = {x.name: x for x in cls.body if isinstance(x, ast.FunctionDef)}
            if '__hash__' not in own and '__eq__' not in own:
                continue
            try:
                h = repo.lookup_method(m, cls, '__hash__')
                e = repo.lookup_method(m, cls, '__eq__')
            except AnalysisError:
                h = e = None
            if h is None or e is None:
                continue
            n_checked += 1
            hp = _self_paths(repo, h[0], cls, h[2])
            ep = _self_paths(repo, e[0], cls, e[2])

            def unmatched(hs, es):
                return sorted(x for x in hs if not any(x[:len(y)] == y for y in es))
            bad = unmatched(hp, ep)
            if bad:
                hp2 = _self_paths(repo, h[0], cls, h[2], expand=True)
                ep2 = _self_paths(repo, e[0], cls, e[2], expand=True)
                bad = unmatched(hp2, ep2 | ep)
                r.evaluations += 1
            cons = f"{cname}: __hash__ over {sorted('.'.join(x) for x in hp)} vs __eq__ over {sorted('.'.join(x) for x in ep)}"
            if not bad:
                r.ok(m, cname, cons[:200], nontrivial=bool(hp))
            elif cname in key_classes:
                r.bad(m, f"{cname}.__hash__", f"{cname}: __hash__ reads {['.'.join(x) for x in bad]} which __eq__ does not compare",
                      f"{cname} objects are keys of the translators' first-writer-wins tables; __hash__ depends on "
                      f"{['self.' + '.'.join(x) for x in bad]} while __eq__ compares {sorted('self.' + '.'.join(x) for x in ep)}: "
                      f"two EQUAL types (e.g. same struct name and fields, distinct Python classes) hash differently, occupy two "
                      f"slots, and the same definition (typedef) is emitted twice", h[2].lineno)
            else:
                r.ok(m, cname, cons[:200], nontrivial=False,
                     note="hash/eq mismatch on a class that is not a key of any de-duplication table")
                r.observations.append(f"{rel}: {cname}.__hash__ reads {['.'.join(x) for x in bad]} which __eq__ does not compare "
                                      f"(not a de-duplication key in the translators today)")
    if 'Struct' not in key_classes or 'Vector' not in key_classes:
        raise AnalysisError("R-C13-eqhash: the RTLIR data type classes were not found")
    r.require_floor(18)
    return r


# ---------------------------------------------------------------------------------------------
DECL_ENTRIES = ('rtlir_tr_port_decl', 'rtlir_tr_wire_decl', 'rtlir_tr_const_decl')


class _Reserved:
    """must-analysis: is the identifier parameter of a declaration generator passed through the reserved-word check on
    every path on which it is used un-suffixed?  (a name with an appended `__<idx>` / `__<field>` cannot be a keyword)"""
    def __init__(self, repo, files, own_files):
        self.defs = {}
        self.own = []
        for rel in files:
            m = repo.mod(rel)
            for c in ast.walk(m.tree):
                if isinstance(c, ast.ClassDef):
                    for f in c.body:
                        if isinstance(f, ast.FunctionDef):
                            self.defs.setdefault(f.name, []).append((m, c, f))
                            if rel in own_files:
                                self.own.append((m, c, f))
        self.memo = {}
        self.why = {}

    def aliases(self, f, p):
        """p and the helper locals that are plain copies of it (`name = id_`)"""
        out = {p}
        la = _local_assignments(f)
        changed = True
        while changed:
            changed = False
            for nm, vs in la.items():
                if nm not in out and len(vs) == 1 and isinstance(vs[0], ast.Name) and vs[0].id in out:
                    out.add(nm)
                    changed = True
        return out

    def covered(self, f, p):
        key = (id(f), p)
        if key in self.memo:
            return self.memo[key]
        self.memo[key] = False           # least fixpoint
        ok, state = self.walk(f.body, f, p, (False, False))
        res = ok and (state is None or state[0] or not state[1])
        self.memo[key] = res
        return res

    def event(self, node, f, p):
        me = f.args.args[0].arg if f.args.args else None
        al = self.aliases(f, p)
        for c in ast.walk(node):
            if not isinstance(c, ast.Call) or not isinstance(c.func, ast.Attribute):
                continue
            if c.func.attr in ('check_decl',) and (
                    (c.args and isinstance(c.args[0], ast.Name) and c.args[0].id in al) or
                    any(isinstance(k.value, ast.Name) and k.value.id in al and k.arg in ('name', 'id_') for k in c.keywords)):
                return True
            recv = c.func.value
            is_super = isinstance(recv, ast.Call) and norm(recv.func) == 'super'
            if not (is_super or (isinstance(recv, ast.Name) and recv.id == me)):
                continue
            cands = self.defs.get(c.func.attr, [])
            if is_super:
                cands = [x for x in cands if x[2] is not f and x[1] is not enclosing(f, (ast.ClassDef,))]
            if not cands:
                continue
            passed = [(i, None) for i, a in enumerate(c.args) if isinstance(a, ast.Name) and a.id in al] + \
                     [(None, k.arg) for k in c.keywords if k.arg and isinstance(k.value, ast.Name) and k.value.id in al]
            for i, kwname in passed:
                good = True
                for m2, c2, g in cands:
                    params = [x.arg for x in g.args.args][1:]
                    q = kwname if kwname is not None else (params[i] if i < len(params) else None)
                    if q is None or q not in params or not self.covered(g, q):
                        good = False
                        self.why[(id(f), p)] = f"{c.func.attr}"
                if good:
                    return True
        return False

    def used(self, node, p, f=None):
        al = self.aliases(f, p) if f is not None else {p}
        for n in ast.walk(node):
            if isinstance(n, ast.Name) and n.id in al and isinstance(n.ctx, ast.Load):
                par = parent(n)
                if isinstance(par, ast.Assign) and len(par.targets) == 1 and isinstance(par.targets[0], ast.Name) and \
                        par.targets[0].id in al:
                    continue             # the alias definition itself
                if isinstance(par, (ast.Call, ast.keyword, ast.Return, ast.Dict, ast.List, ast.Tuple, ast.Assign, ast.Starred)):
                    return True
        return False

    scalar_only = False       # analyse only the paths on which the declared object is NOT an array (n_dim empty)

    def decide(self, test, f):
        """truth of a test under the assumption `<array type>['n_dim']` is empty, or None when it does not follow"""
        if not self.scalar_only:
            return None
        params = {a.arg for a in f.args.args}

        def is_ndim(ie):
            return isinstance(ie, ast.Subscript) and isinstance(ie.slice, ast.Constant) and ie.slice.value == 'n_dim' and \
                isinstance(ie.value, ast.Name) and ie.value.id in params

        def leaf(e):
            if isinstance(e, ast.Name):
                vals = _local_assignments(f).get(e.id, [])
                if vals and all(v is not None and is_ndim(_inline(v, f)) for v in vals):
                    return []              # every assignment of this local is the array type's n_dim
                return NotImplemented
            if isinstance(e, ast.Subscript) and is_ndim(_inline(e, f)):
                return []
            return NotImplemented
        try:
            return bool(Evaluator({}, arith=False, leaf=leaf, funcs={'len': len, 'bool': bool}).ev(test))
        except AnalysisError:
            return None

    def inline_check(self, st, f, p):
        """`if <...>.is_verilog_reserved(p): raise ...` written out instead of check_decl"""
        al = self.aliases(f, p)
        if not isinstance(st, ast.If):
            return False
        t, pos = st.test, True
        if isinstance(t, ast.BoolOp) and isinstance(t.op, ast.And):
            rest = [v for v in t.values if self.decide(v, f) is not True]
            if len(rest) == 1:
                t = rest[0]            # the other conjuncts hold on the analysed (scalar) paths
        while isinstance(t, ast.UnaryOp) and isinstance(t.op, ast.Not):
            t, pos = t.operand, not pos
        if not (isinstance(t, ast.Call) and norm(t.func).split('.')[-1] in ('is_verilog_reserved', '_is_verilog_reserved')
                and t.args and isinstance(t.args[0], ast.Name) and t.args[0].id in al):
            if not (isinstance(t, ast.Compare) and len(t.ops) == 1 and isinstance(t.ops[0], (ast.In, ast.NotIn)) and
                    isinstance(t.left, ast.Name) and t.left.id in al and 'reserved' in norm(t.comparators[0])):
                return False
            if isinstance(t.ops[0], ast.NotIn):
                pos = not pos
        blk = st.body if pos else st.orelse
        return bool(blk) and always_exits(blk) and any(isinstance(x, ast.Raise) for b in blk for x in ast.walk(b))

    def walk(self, stmts, f, p, state):
        """-> (no path returned un-checked while using p, state at the end or None when every path left)"""
        cov, used = state
        for st in stmts:
            if isinstance(st, ast.If) and self.inline_check(st, f, p):
                cov = True
                continue
            if isinstance(st, ast.If) and self.decide(st.test, f) is not None:
                ok1, s1 = self.walk(st.body if self.decide(st.test, f) else st.orelse, f, p, (cov, used))
                if not ok1:
                    return False, None
                if s1 is None:
                    return True, None
                cov, used = s1
                continue
            if isinstance(st, ast.If):
                used = used or self.used(st.test, p, f)
                ok1, s1 = self.walk(st.body, f, p, (cov, used))
                ok2, s2 = self.walk(st.orelse, f, p, (cov, used))
                if not (ok1 and ok2):
                    return False, None
                if s1 is None and s2 is None:
                    return True, None
                if s1 is None:
                    cov, used = s2
                elif s2 is None:
                    cov, used = s1
                else:
                    cov, used = s1[0] and s2[0], s1[1] or s2[1]
            elif isinstance(st, ast.Return):
                if st.value is not None:
                    cov = cov or self.event(st.value, f, p)
                    used = used or self.used(st, p, f)
                return (cov or not used), None
            elif isinstance(st, ast.Raise):
                return True, None
            elif isinstance(st, (ast.For, ast.While)):
                ok, s_ = self.walk(st.body, f, p, (cov, used))
                if not ok:
                    return False, None
                used = used or (s_ is not None and s_[1]) or self.used(st.iter if isinstance(st, ast.For) else st.test, p, f)
            elif isinstance(st, ast.Try):
                ok, s_ = self.walk(st.body, f, p, (cov, used))
                if not ok:
                    return False, None
                for h in st.handlers:
                    okh, _ = self.walk(h.body, f, p, (cov, used))
                    if not okh:
                        return False, None
                if s_ is not None:
                    cov, used = s_
            elif isinstance(st, ast.With):
                ok, s_ = self.walk(st.body, f, p, (cov, used))
                if not ok:
                    return False, None
                if s_ is None:
                    return True, None
                cov, used = s_
            elif isinstance(st, (ast.FunctionDef, ast.ClassDef)):
                continue
            else:
                if not cov and self.event(st, f, p):
                    cov = True
                used = used or self.used(st, p, f)
        return True, (cov, used)


class _ReservedVisitor(_Reserved):
    """the same must-analysis for the behavioural visitors: the user-chosen `node.name` (update-block label, loop
    variable, temporary) that reaches the text BARE (not glued to a generated prefix / suffix) must pass check_res"""
    def aliases(self, f, p):
        nodep = f.args.args[1].arg if len(f.args.args) > 1 else None
        out = set()
        for nm, vs in _local_assignments(f).items():
            if len(vs) == 1 and isinstance(vs[0], ast.Attribute) and vs[0].attr == p and norm(vs[0].value) == nodep:
                out.add(nm)
        return out

    def is_ident(self, e, f, p):
        nodep = f.args.args[1].arg if len(f.args.args) > 1 else None
        if isinstance(e, ast.Attribute) and e.attr == p and norm(e.value) == nodep:
            return True
        return isinstance(e, ast.Name) and e.id in self.aliases(f, p)

    def event(self, node, f, p):
        nodep = f.args.args[1].arg if len(f.args.args) > 1 else None
        for c in ast.walk(node):
            if not isinstance(c, ast.Call) or not isinstance(c.func, ast.Attribute):
                continue
            if c.func.attr == 'check_res' and any(self.is_ident(a, f, p) for a in c.args):
                return True
            recv = c.func.value
            if isinstance(recv, ast.Call) and norm(recv.func) == 'super' and c.func.attr == f.name and \
                    any(isinstance(a, ast.Name) and a.id == nodep for a in c.args):
                cands = [x for x in self.defs.get(f.name, []) if x[2] is not f and x[1] is not enclosing(f, (ast.ClassDef,))]
                if cands and all(self.covered(g, p) for _, _, g in cands):
                    return True
        return False

    @staticmethod
    def _idch(ch):
        return ch.isalnum() or ch in '_$'

    def used(self, node, p, f=None):
        for n in ast.walk(node):
            if isinstance(n, ast.Raise):
                continue
            if not self.is_ident(n, f, p):
                continue
            if enclosing(n, (ast.Raise, ast.Assert)) is not None and any(x is n for x in ast.walk(enclosing(n, (ast.Raise, ast.Assert)))):
                continue
            par = parent(n)
            if isinstance(par, ast.FormattedValue):
                js = parent(par)
                if isinstance(js, ast.JoinedStr):
                    i = [k for k, v in enumerate(js.values) if v is par][0]
                    before = js.values[i - 1] if i > 0 else None
                    after = js.values[i + 1] if i + 1 < len(js.values) else None
                    glued = (isinstance(before, ast.Constant) and str(before.value) and self._idch(str(before.value)[-1])) or \
                            (isinstance(after, ast.Constant) and str(after.value) and self._idch(str(after.value)[0])) or \
                            isinstance(before, ast.FormattedValue) or isinstance(after, ast.FormattedValue)
                    if not glued:
                        return True
                continue
            if isinstance(par, ast.Return):
                return True
            if isinstance(par, ast.BinOp) and isinstance(par.op, ast.Add):
                other = par.right if par.left is n else par.left
                gl = isinstance(other, ast.Constant) and isinstance(other.value, str) and other.value and \
                    self._idch(other.value[-1] if par.right is n else other.value[0])
                if not gl:
                    return True
                continue
            if isinstance(par, ast.Call) and isinstance(par.func, ast.Attribute) and par.func.attr in ('append', 'add', 'format'):
                if par.func.attr == 'format' or any(a is n for a in par.args):
                    if par.func.attr == 'add':
                        continue            # bookkeeping sets
                    return True
        return False


VERILOG_2005_KEYWORDS = """always and assign automatic begin buf bufif0 bufif1 case casex casez cell cmos config deassign default
defparam design disable edge else end endcase endconfig endfunction endgenerate endmodule endprimitive endspecify endtable
endtask event for force forever fork function generate genvar highz0 highz1 if ifnone incdir include initial inout input
instance integer join large liblist library localparam macromodule medium module nand negedge nmos nor noshowcancelled not
notif0 notif1 or output parameter pmos posedge primitive pull0 pull1 pulldown pullup pulsestyle_ondetect pulsestyle_onevent
rcmos real realtime reg release repeat rnmos rpmos rtran rtranif0 rtranif1 scalared showcancelled signed small specify
specparam strong0 strong1 supply0 supply1 table task time tran tranif0 tranif1 tri tri0 tri1 triand trior trireg unsigned use
uwire vectored wait wand weak0 weak1 while wire wor xnor xor""".split()
SV_CORE_KEYWORDS = """alias always_comb always_ff always_latch assert assume bit break byte chandle class clocking const constraint
context continue cover do endclass endinterface endpackage endprogram enum export extends extern final foreach iff import
inside int interface local logic longint modport new null package packed priority program pure rand ref return shortint
static string struct super this type typedef union unique var virtual void""".split()


def _keyword_table(r, repo):
    """the reserved-word table: every element is ONE string literal (two adjacent literals without a comma are silently
    concatenated into a word that reserves nothing) and it contains the Verilog-2005 keywords and the core SystemVerilog ones"""
    import io
    import tokenize
    m = repo.mod(VUTIL)
    tbl = m.assigns.get('verilog_keyword')
    if tbl is None or not isinstance(tbl, (ast.List, ast.Tuple, ast.Set)):
        raise AnalysisError("anchor vanished: verilog_keyword table")
    merged = []
    words = set()
    for e in tbl.elts:
        if not (isinstance(e, ast.Constant) and isinstance(e.value, str)):
            try:
                val = _GuardEval({}, arith=True).ev(e)      # an explicit constant expression such as "real" + "time"
            except AnalysisError:
                val = None
            if not isinstance(val, str):
                raise AnalysisError(f"verilog_keyword: element that is not a string constant: {norm(e)[:40]}")
            words.add(val)
            continue
        words.add(e.value)
        seg = ast.get_source_segment(m.src, e)
        toks = [t for t in tokenize.generate_tokens(io.StringIO(seg).readline) if t.type == tokenize.STRING] if seg else []
        if len(toks) > 1:
            merged.append((e.value, [ast.literal_eval(t.string) for t in toks]))
    cons = "verilog_keyword: one literal per element"
    if merged:
        w, parts = merged[0]
        r.bad(m, '<module>', cons,
              f"adjacent string literals {parts} are implicitly concatenated into the single entry {w!r} (missing comma): "
              f"{' and '.join(repr(x) for x in parts)} are no longer reserved, so a signal called `{parts[-1]}` is emitted as is",
              tbl.elts[0].lineno)
    else:
        r.ok(m, '<module>', cons + f" ({len(tbl.elts)} entries)")
    missing = sorted((set(VERILOG_2005_KEYWORDS) | set(SV_CORE_KEYWORDS)) - words)
    cons = "verilog_keyword covers the Verilog-2005 and core SystemVerilog keywords"
    if missing:
        r.bad(m, '<module>', cons, f"not reserved: {missing[:8]}{' ...' if len(missing) > 8 else ''}: a port / wire / block of that "
              f"name is emitted unchanged", tbl.lineno)
    else:
        r.ok(m, '<module>', cons)
    res = m.assigns.get('verilog_reserved')
    if res is not None and isinstance(res, ast.Call) and norm(res.func) in ('set', 'frozenset') and \
            [norm(a) for a in res.args] == ['verilog_keyword']:
        r.ok(m, '<module>', 'verilog_reserved = set(verilog_keyword)', nontrivial=False)
    else:
        r.bad(m, '<module>', 'verilog_reserved', "the set consulted by is_verilog_reserved is no longer built from the whole table")


def rule_reserved(repo):
    r = RuleResult('R-C13-reserved', "every generator of a port / wire / constant declaration passes the user-chosen identifier "
                                     "through the reserved-word check on every path (SystemVerilog and Yosys back-ends)")
    scope = scope_files(repo)
    vs = [f for f in scope if f.startswith(VTRANS + 'structural/')]
    ys = [f for f in scope if f.startswith(YTRANS + 'structural/')]
    for backend, files, own in (('verilog', vs, vs), ('yosys', ys + vs, ys)):
        ra = _Reserved(repo, files, own)
        if 'check_decl' not in ra.defs:
            raise AnalysisError("anchor vanished: check_decl")
        for m2, c2, cd in ra.defs['check_decl']:
            raises = [x for x in ast.walk(cd) if isinstance(x, ast.Raise)]
            tests = [g for x in raises for g in guards_of(x) if g.kind == 'if']
            p0 = cd.args.args[1].arg
            if raises and tests and all('reserved' in norm(g.test) and p0 in _names_of_raw(g.test) and g.polarity for g in tests):
                r.ok(m2, qualname(cd), f"{backend}: check_decl raises for reserved words", nontrivial=False)
            else:
                r.bad(m2, qualname(cd), f"{backend}: check_decl", "check_decl no longer raises when the identifier is a reserved "
                      "word", cd.lineno)
        n = 0
        for m, c, f in ra.own:
            if f.name not in DECL_ENTRIES:
                continue
            body = [s_ for s_ in f.body if not (isinstance(s_, ast.Expr) and isinstance(s_.value, ast.Constant))]
            if len(body) == 1 and (isinstance(body[0], ast.Raise) or
                                   (isinstance(body[0], ast.Return) and isinstance(body[0].value, ast.Constant))):
                continue          # emits nothing
            n += 1
            p = f.args.args[1].arg
            cons = f"{backend}: {f.name} checks its identifier"
            if ra.covered(f, p):
                r.ok(m, qualname(f), cons)
            else:
                via = ra.why.get((id(f), p))
                r.bad(m, qualname(f), cons,
                      f"the identifier `{p}` reaches the emitted declaration on a path without the reserved-word check"
                      f"{' (through ' + via + ', which no longer checks on every path)' if via else ''}: a signal named like a "
                      f"SystemVerilog keyword (e.g. a wire called `reg`) is declared as `logic [7:0] reg;`", f.lineno)
        if n == 0:
            raise AnalysisError(f"anchor vanished: no declaration generators in the {backend} back-end")
        # the instance name of a scalar sub-component is its own attribute name (arrays are instantiated as <id>__<idx>,
        # port wires as <id>__<port>: suffixed, cannot be keywords)
        rs = _Reserved(repo, files, own)
        rs.scalar_only = True
        subs = [(m, c, f) for m, c, f in rs.own if f.name == 'rtlir_tr_subcomp_decl']
        if len(subs) != 1:
            raise AnalysisError(f"anchor vanished: rtlir_tr_subcomp_decl of the {backend} back-end")
        m, c, f = subs[0]
        if len(f.args.args) < 3:
            raise AnalysisError("rtlir_tr_subcomp_decl: signature changed")
        p = f.args.args[2].arg
        cons = f"{backend}: rtlir_tr_subcomp_decl checks the instance name of a scalar sub-component"
        # arrays really are suffixed: the per-element recursion extends the id / index parameter by `__<idx>`
        rec_ok = False
        for g in [x for x in ast.walk(f) if isinstance(x, ast.FunctionDef) and x is not f]:
            lvs = {y.id for x in ast.walk(g) if isinstance(x, (ast.For, ast.comprehension)) for y in ast.walk(x.target)
                   if isinstance(y, ast.Name)}
            for call in [x for x in ast.walk(g) if isinstance(x, ast.Call) and isinstance(x.func, ast.Name) and x.func.id == g.name]:
                for a in call.args:
                    if _names_of_raw(a) & lvs and any(isinstance(k, ast.Constant) and isinstance(k.value, str) and '_' in k.value
                                                      for k in ast.walk(a)):
                        rec_ok = True
        if not rec_ok:
            r.bad(m, qualname(f), cons, "the per-element recursion no longer appends `__<index>` to the instance name of an array "
                  "element: element names are not provably suffixed", f.lineno)
        elif rs.covered(f, p):
            r.ok(m, qualname(f), cons)
        else:
            r.bad(m, qualname(f), cons,
                  f"for a single (non-array) sub-component the attribute name `{p}` becomes the instance name un-suffixed and no "
                  f"path checks it against the reserved words: `s.buf = Child()` is emitted as `Child_noparam buf ( ... );`, "
                  f"`buf` being a Verilog keyword", f.lineno)
    _keyword_table(r, repo)
    # ---- behavioural visitors: block labels, loop variables, temporaries
    vb = [f for f in scope if f.startswith(VTRANS + 'behavioral/')]
    yb = [f for f in scope if f.startswith(YTRANS + 'behavioral/')]
    for backend, files, own in (('verilog', vb, vb), ('yosys', yb + vb, yb)):
        rv = _ReservedVisitor(repo, files, own)
        if 'check_res' not in rv.defs:
            raise AnalysisError("anchor vanished: check_res")
        n = 0
        for m, c, f in rv.own:
            if not f.name.startswith('visit_') or len(f.args.args) < 2:
                continue
            if not rv.used(f, 'name', f):
                continue
            n += 1
            cons = f"{backend}: {f.name} emits node.name"
            if rv.covered(f, 'name'):
                r.ok(m, qualname(f), cons)
            else:
                sib = sorted({g.name for _, _, g in rv.own + [x for v in rv.defs.values() for x in v]
                              if g.name.startswith('visit_') and g is not f and rv.used(g, 'name', g) and rv.covered(g, 'name')})[:3]
                r.bad(m, qualname(f), cons,
                      f"`node.name` reaches the emitted text bare (e.g. as a block label / loop variable) on a path without "
                      f"check_res, while the sibling visitors {sib} check it: an update block or variable called like a "
                      f"SystemVerilog keyword (e.g. `reg`) is emitted as `begin : reg`", f.lineno)
        if backend == 'verilog' and n < 2:
            raise AnalysisError("anchor vanished: no visitor emitting node.name found in the SystemVerilog behavioural translator")
    r.require_floor(16)
    return r


RULES = [rule_unordered, rule_dedup, rule_name, rule_once, rule_instname, rule_defname, rule_instchain, rule_defaults, rule_state,
         rule_eqhash, rule_reserved]


# ---------------------------------------------------------------------------------------------
def _m(name, file, old, new, rule, count=1):
    return dict(name=name, file=file, old=old, new=new, rule=rule, count=count)


def _m2(name, edits, rule):
    return dict(name=name, edits=[dict(file=f, old=o, new=n, count=c) for f, o, n, c in edits], rule=rule,
                file=edits[0][0], old=edits[0][1], new=edits[0][2])


CHILD = "m.get_child_components(repr)"
NOKEY = "m.get_child_components()"

MUTANTS = [
    dict(name='yosys-explicit-name-top-only', file=YTRANS + 'YosysTranslator.py', old="    if structural.component_explicit_module_name:\n      module_name = \\\n", new="    if structural.component_is_top and structural.component_explicit_module_name:\n      module_name = \\\n", rule='R-C13-defname', count=1),
    dict(name='defaults-index-shifted', file=RTYPE, old="defaults[idx-len(arg_names)]", new="defaults[idx-num_supplied]", rule='R-C13-defaults', count=1),
    # --- R-C13-unordered: a sort key dropped / a sorted removed / an ordered list replaced by a set
    _m('translate_component-children-unsorted', TRANSLATOR, CHILD, NOKEY, 'R-C13-unordered'),
    _m('structural-L4-children-unsorted', SL4, CHILD, NOKEY, 'R-C13-unordered'),
    _m('structural-L1-noclk-children-unsorted', SL1, CHILD, NOKEY, 'R-C13-unordered'),
    _m('behavioral-L5-metadata-children-unsorted', BL5, CHILD, NOKEY, 'R-C13-unordered', count='first'),
    _m('base-translator-children-unsorted', BASE, CHILD, NOKEY, 'R-C13-unordered'),
    _m('structural-rtlir-gen-children-unsorted', SGEN4, CHILD, NOKEY, 'R-C13-unordered'),
    _m('translation-pass-cfgs-children-unsorted', VPASS, "for _m in m.get_child_components(repr):",
       "for _m in m.get_child_components():", 'R-C13-unordered'),
    _m('translation-pass-hierarchy-children-unsorted', VPASS, "for child in m.get_child_components(repr):",
       "for child in m.get_child_components():", 'R-C13-unordered'),
    _m('children-sort-key-none', TRANSLATOR, CHILD, "m.get_child_components(None)", 'R-C13-unordered'),
    _m('children-sorted-by-address', SL4, CHILD, "m.get_child_components(id)", 'R-C13-unordered'),
    _m('yosys-loopvars-sorted-removed', YBL1, "loopvars = sorted(list( s.loopvars ))", "loopvars = list( s.loopvars )",
       'R-C13-unordered'),
    _m('connections-from-the-set', SGEN1, "ordered_conns = [ *m.get_connect_order() ]", "ordered_conns = list( m_conns_set )",
       'R-C13-unordered'),
    _m('collect-objs-dedup-through-set', RUTIL, "        ret.append( ( name, obj ) )\n  return ret",
       "        ret.append( ( name, obj ) )\n  return list( set( ret ) )", 'R-C13-unordered'),
    _m2('upblks-from-set-and-unsorted',
        [(RUTIL, "return [ x for x in m.get_update_block_order() if x in upblks ]", "return list( upblks )", 1),
         (BL1, "    upblks['CombUpblk'].sort( key = lambda x: x.__name__ )\n", "", 1)], 'R-C13-unordered'),
    _m2('rtlir-gen-upblks-from-set-and-unsorted',
        [(RUTIL, "return [ x for x in m.get_update_block_order() if x in upblks ]", "return list( upblks )", 1),
         (BGEN1, "    upblks[bir.CombUpblk].sort( key = lambda x: x.__name__ )\n", "", 1)], 'R-C13-unordered'),
    _m2('update-ff-iterated-directly-and-unsorted',
        [(RUTIL, "return [ x for x in m.get_update_block_order() if x in m.get_update_ff() ]",
          "return [ x for x in m.get_update_ff() ]", 1),
         (BL1, "    upblks['SeqUpblk'].sort( key = lambda x: x.__name__ )\n", "", 1)], 'R-C13-unordered'),
    _m('dsl-sort-key-ignored', COMPONENT, "      return sorted( ret, key = sort_key )", "      return list( ret )",
       'R-C13-unordered'),
    _m('ports-packed-returned-as-set', RTYPE,
       "  def get_ports_packed( s ):\n    return sorted([id__t4 for id__t4 in s.properties.items()",
       "  def get_ports_packed( s ):\n    return set([id__t4 for id__t4 in s.properties.items()", 'R-C13-unordered'),
    _m('special-chars-list-shortened', VUTIL, "special_chars = [' ', '<', '>', '.', '[', ']']",
       "special_chars = [' ', '<', '>', '.']", 'R-C13-name'),
    _m('special-chars-only-first-checked', VUTIL, "not any([c in full_name for c in special_chars])",
       "not special_chars[0] in full_name", 'R-C13-name'),
    _m('struct-names-set-emitted', VTRANSLATOR, "for struct_dtype, tplt in hierarchy.decl_type_struct.items():",
       "for struct_dtype, tplt in set( hierarchy.decl_type_struct.items() ):", 'R-C13-unordered'),
    _m('components-through-set', VTRANSLATOR, 'return "\\n\\n".join( components.values() )',
       'return "\\n\\n".join( set( components.values() ) )', 'R-C13'),
    _m('module-name-from-builtin-hash', VUTIL, "  param_name = param_hash.hexdigest()",
       "  param_name = hex( hash( full_name ) )[3:]", 'R-C13'),
    _m('tmpvars-keys-as-set', GENERIC + 'behavioral/BehavioralTranslatorL2.py',
       "for (id_, upblk_id), rtype in s.behavioral.tmpvars[m].items():",
       "for (id_, upblk_id), rtype in set( s.behavioral.tmpvars[m].items() ):", 'R-C13-unordered'),
    # --- R-C13-dedup
    _m('struct-typedef-keyed-by-name', GENERIC + 'structural/StructuralTranslatorL2.py',
       "      if dtype not in s.structural.decl_type_struct:\n        recurse_struct_dtype_translation( dtype )\n"
       "        s.structural.decl_type_struct[ dtype ] = ret",
       "      if dtype.get_name() not in s.structural.decl_type_struct:\n        recurse_struct_dtype_translation( dtype )\n"
       "        s.structural.decl_type_struct[ dtype.get_name() ] = ret", 'R-C13-dedup'),
    _m('freevar-table-keyed-by-lossy-name', RTLIR + 'behavioral/BehavioralRTLIRTypeCheckL1Pass.py',
       "    if node.name not in s.freevars:\n      s.freevars[ node.name ] = ( node.obj, t )",
       "    key = node.name.split('_at_')[0]\n    if key not in s.freevars:\n      s.freevars[ key ] = ( node.obj, t )",
       'R-C13-dedup'),
    # --- R-C13-name
    _m('full-name-skips-default-looking-params', RUTIL,
       "    comp_name += '__' + arg_name + '_' + get_string(arg_value)",
       "    if arg_value is None: continue\n    comp_name += '__' + arg_name + '_' + get_string(arg_value)", 'R-C13-name'),
    _m('full-name-drops-values', RUTIL, "comp_name += '__' + arg_name + '_' + get_string(arg_value)",
       "comp_name += '__' + arg_name", 'R-C13-name'),
    _m('full-name-no-marker', RUTIL, "  if not comp_params:\n    comp_name += '_noparam'\n", "", 'R-C13-name'),
    _m('get-string-constant-for-types', RUTIL, "      return obj.__name__", "      return 'type'", 'R-C13-name'),
    _m('gen-parameters-skips-first-arg', RTYPE, "arg_names = argspec.args[1:]", "arg_names = argspec.args[2:]", 'R-C13-name'),
    _m('gen-parameters-defaults-not-recorded', RTYPE,
       "        ret.append((arg_name, defaults[idx-len(arg_names)]))", "        pass", 'R-C13-name'),
    _m('unique-name-hash-covers-prefix-only', VUTIL, "param_hash.update(full_name[len(comp_name):].encode('ascii'))",
       "param_hash.update(full_name[len(comp_name):len(comp_name)+16].encode('ascii'))", 'R-C13-name'),
    _m('unique-name-drops-class-name', VUTIL, '  return comp_name + "__" + param_name', '  return "M__" + param_name',
       'R-C13-name'),
    _m('unique-name-one-byte-digest', VUTIL, "param_hash = blake2b(digest_size = 8)\n  param_hash.update(full_name",
       "param_hash = blake2b(digest_size = 1)\n  param_hash.update(full_name", 'R-C13-name'),
    _m('struct-name-ignores-field-types', RDTYPE, "'__'.join(f'{field_name}_{field_type.get_full_name()}' \\",
       "'__'.join(f'{field_name}' \\", 'R-C13-name'),
    _m('struct-eq-by-hashed-name', RDTYPE, "return isinstance(u, Struct) and s.get_full_name() == u.get_full_name()",
       "return isinstance(u, Struct) and s.get_name() == u.get_name()", 'R-C13-name'),
    _m('struct-name-memo-keyed-by-class-name', RUTIL,
       "        return get_rtlir_dtype( obj() ).get_name()\n",
       "        if obj.__name__ not in _struct_name_cache:\n"
       "          _struct_name_cache[ obj.__name__ ] = get_rtlir_dtype( obj() ).get_name()\n"
       "        return _struct_name_cache[ obj.__name__ ]\n", 'R-C13-dedup'),
    _m('struct-name-memo-setdefault-by-class-name', RUTIL,
       "        return get_rtlir_dtype( obj() ).get_name()\n",
       "        return get_string.__dict__.setdefault( obj.__name__, get_rtlir_dtype( obj() ).get_name() )\n", 'R-C13-dedup'),
    _m('placeholder-name-ignores-construct-params', VPLACEHOLDER,
       "has_params = bool( irepr.get_params() ) or bool( cfg.params )", "has_params = bool( cfg.params )", 'R-C13-name'),
    _m('placeholder-name-needs-both-param-kinds', VPLACEHOLDER,
       "has_params = bool( irepr.get_params() ) or bool( cfg.params )",
       "has_params = bool( irepr.get_params() ) and bool( cfg.params )", 'R-C13-name'),
    _m('set-param-values-not-in-the-name', COMPONENT,
       "      else:\n        kwargs = s._dsl.kwargs\n        if \"construct\" in s._dsl.param_tree.leaf:",
       "      else:\n        kwargs = s._dsl.kwargs.copy()\n        if \"construct\" in s._dsl.param_tree.leaf:", 'R-C13-name'),
    _m('set-param-values-merged-into-new-dict', COMPONENT,
       "          kwargs.update( more_args )\n\n      s._handle_decorated_methods()",
       "          kwargs = { **kwargs, **more_args }\n\n      s._handle_decorated_methods()", 'R-C13-name'),
    _m('wrapper-name-guard-only-for-derived-name', VSL1,
       """          s._mangled_placeholder_top_module_name = module_name

        if module_name == ph_cfg.top_module:
          raise VerilogPlaceholderError(m,""",
       """          s._mangled_placeholder_top_module_name = module_name

        if module_name == ph_cfg.top_module and not s.tr_cfgs[m].explicit_module_name:
          raise VerilogPlaceholderError(m,""", 'R-C13-once'),
    _m('wrapper-name-guard-removed', VSL1, "        if module_name == ph_cfg.top_module:\n          raise VerilogPlaceholderError(m,",
       "        if False:\n          raise VerilogPlaceholderError(m,", 'R-C13-once'),
    # --- R-C13-eqhash / truncation / R-C13-reserved / process dependent values
    _m('struct-hash-on-python-class', RDTYPE, "    return hash((type(s), s.get_full_name()))", "    return hash((type(s), s.cls))",
       'R-C13-eqhash'),
    _m('vector-hash-includes-explicit-flag', RDTYPE, "    return hash((type(s), s.nbits))",
       "    return hash((type(s), s.nbits, s._is_explicit))", 'R-C13-eqhash'),
    _m('packed-array-hash-on-list-identity', RDTYPE, "    return hash((type(s), tuple(s.dim_sizes), s.sub_dtype))",
       "    return hash((type(s), tuple(s.dim_sizes), s.sub_dtype, s._cache_key))", 'R-C13-eqhash'),
    _m('unique-name-class-name-truncated', VUTIL, '  return comp_name + "__" + param_name',
       '  max_name_len = 64 - len( param_name ) - len( "__" )\n  return comp_name[:max_name_len] + "__" + param_name',
       'R-C13-name'),
    _m('yosys-vector-wire-not-checked', YTRANS + 'structural/YosysStructuralTranslatorL1.py',
       '    assert isinstance( dtype, rdt.Vector )\n    s.check_decl( id_, "" )\n    return s.wire_vector_gen( id_, dtype, n_dim )',
       '    assert isinstance( dtype, rdt.Vector )\n    return s.wire_vector_gen( id_, dtype, n_dim )', 'R-C13-reserved'),
    _m('verilog-wire-check-only-for-arrays', VSL1,
       "      template = \"Note: {n_dim} array of wires {id_} has data type {_dtype}\"\n    s.check_decl( id_, template.format( **locals() ) )",
       "      template = \"Note: {n_dim} array of wires {id_} has data type {_dtype}\"\n      s.check_decl( id_, template.format( **locals() ) )",
       'R-C13-reserved'),
    _m('placeholder-guard-from-builtin-hash', VPLACEHOLDER,
       '        f"`ifndef {cfg.dependency_guard_symbol}\\n"',
       '        f"`ifndef {cfg.dependency_guard_symbol}_{hash(cfg.pickled_orig_file) & 0xffffffff:08X}\\n"', 'R-C13-unordered'),
    _m('placeholder-guard-from-pid', VPLACEHOLDER,
       '        f"`ifndef {cfg.dependency_guard_symbol}\\n"',
       '        f"`ifndef {cfg.dependency_guard_symbol}_{os.getpid()}\\n"', 'R-C13-unordered'),
    # --- round 5: instantiation / definition agreement, element order, argspec kinds, block labels
    _m('yosys-explicit-name-before-placeholder', YSL4,
       """        if isinstance(obj, VerilogPlaceholder):
          c_name = obj.get_metadata( s._placeholder_pass.placeholder_config ).pickled_top_module
        elif subcomp_explicit_name:
          # If someone sets explicit_module_name, we need to honor that config
          c_name = subcomp_explicit_name
""", """        if subcomp_explicit_name:
          # If someone sets explicit_module_name, we need to honor that config
          c_name = subcomp_explicit_name
        elif isinstance(obj, VerilogPlaceholder):
          c_name = obj.get_metadata( s._placeholder_pass.placeholder_config ).pickled_top_module
""", 'R-C13-defname'),
    _m('verilog-instantiation-ignores-explicit-name', VSL4, "        elif subcomp_explicit_name:\n", "        elif False:\n",
       'R-C13-defname'),
    _m('verilog-element-indices-innermost-first', VSL4,
       "        attr = c_id + ''.join(f'[{dim}]' for dim in _n_dim)\n        obj = eval(f'm.{attr}')\n",
       "        obj, dims = getattr( m, c_id ), list( _n_dim )\n        while dims:\n          obj = obj[ dims.pop() ]\n",
       'R-C13-instname'),
    _m('verilog-element-indices-reversed-string', VSL4, "        attr = c_id + ''.join(f'[{dim}]' for dim in _n_dim)\n",
       "        attr = c_id + ''.join(f'[{dim}]' for dim in reversed(_n_dim))\n", 'R-C13-instname'),
    _m('yosys-element-not-indexed-by-loop-variable', YSL4,
       '          ret += _subcomp_port_gen( obj[i], c_id+"__"+str(i), n_dim[1:], port_decls )',
       '          ret += _subcomp_port_gen( obj[0], c_id+"__"+str(i), n_dim[1:], port_decls )', 'R-C13-instname'),
    _m('kwonly-construct-args-silently-ignored', RTYPE,
       '      assert not argspec.kwonlyargs, "keyword args are not allowed for construct!"\n', '', 'R-C13-name'),
    _m('varargs-construct-args-silently-ignored', RTYPE,
       '    assert not argspec.varargs, "varargs are not allowed for construct!"\n', '', 'R-C13-name'),
    _m('seq-block-label-not-checked', VTRANS + 'behavioral/VBehavioralTranslatorL1.py',
       "    s.upblk_type = s.SEQUENTIAL\n\n    s.check_res( node, blk_name )\n", "    s.upblk_type = s.SEQUENTIAL\n",
       'R-C13-reserved'),
    _m('loop-variable-not-checked', VTRANS + 'behavioral/VBehavioralTranslatorL2.py',
       "  def visit_LoopVarDecl( s, node ):\n    s.check_res( node, node.name )\n", "  def visit_LoopVarDecl( s, node ):\n",
       'R-C13-reserved'),
    # --- round 6: parameter kinds, generated block names, output file names
    _m('callable-parameter-by-bare-name', RUTIL, "    if isinstance(obj, type):", "    if hasattr(obj, '__name__'):", 'R-C13-name'),
    _m('callable-parameter-by-bare-name-callable-test', RUTIL, "    if isinstance(obj, type):", "    if callable(obj):", 'R-C13-name'),
    _m('lambda-block-name-keeps-colon', LEVEL3,
       'replace("]", "_").replace(":", "_") )', 'replace("]", "_") )', 'R-C13-name'),
    _m('lambda-block-name-keeps-brackets', LEVEL3,
       'repr(o).replace(".","_").replace("[", "_").replace("]", "_").replace(":", "_")',
       'repr(o).replace(".","_").replace(":", "_")', 'R-C13-name'),
    _m('output-file-named-by-class', VPASS, '        filename = f"{module_name}__pickled"',
       '        filename = f"{s.translator._top_module_name}__pickled"', 'R-C13-name'),
    _m('module-name-for-file-from-class-name', VPASS, "      module_name = s.translator._top_module_full_name",
       "      module_name = s.translator._top_module_name", 'R-C13-name'),
    _m('verilog-scalar-instance-name-not-checked', VSL4,
       "    if not c_array_type['n_dim']:\n      s.check_decl( c_id, f\"Note: {c_id} is a sub-component of {m}\" )\n", "",
       'R-C13-reserved'),
    _m('yosys-scalar-instance-name-not-checked', YSL4,
       "    if not c_n_dim:\n      s.check_decl( c_id, f\"Note: {c_id} is a sub-component of {m}\" )\n", "", 'R-C13-reserved'),
    _m('verilog-instance-name-checked-only-for-arrays', VSL4,
       "    if not c_array_type['n_dim']:\n      s.check_decl( c_id,", "    if c_array_type['n_dim']:\n      s.check_decl( c_id,",
       'R-C13-reserved'),
    # --- round 7
    _m('configs-built-from-the-translation-top', VPASS,
       "    def traverse( m ):\n      nonlocal tr_cfgs\n      tr_cfgs[m] = s.get_translation_config()( m )\n"
       "      for _m in m.get_child_components(repr):\n        traverse( _m )",
       "    def traverse( _m ):\n      nonlocal tr_cfgs\n      tr_cfgs[_m] = s.get_translation_config()( m )\n"
       "      for child in _m.get_child_components(repr):\n        traverse( child )", 'R-C13-defname'),
    _m('configs-only-for-the-top', VPASS, "      for _m in m.get_child_components(repr):\n        traverse( _m )",
       "      for _m in m.get_child_components(repr):\n        traverse( m )", 'R-C13'),
    _m('nested-interface-prefix-not-extended', VSL4, "                  f'{ifc_id}__{port_id}', port_rtype, combined_ifc_array_type,",
       "                  ifc_id, port_rtype, combined_ifc_array_type,", 'R-C13-once'),
    _m('yosys-port-array-index-not-appended', YTRANS + 'structural/YosysStructuralTranslatorL1.py',
       'ret += s.port_gen(d, f"{id_}__{idx}", n_dim[1:], dtype)', 'ret += s.port_gen(d, f"{d}__{idx}", n_dim[1:], dtype)',
       'R-C13-once'),
    _m('wrapper-reset-port-tested-as-clk', VPLACEHOLDER, "    if 'reset' not in all_port_names:", "    if 'clk' not in all_port_names:",
       'R-C13-once'),
    _m('special-characters-tested-on-class-name', VUTIL,
       "  full_name = get_component_full_name( c_rtype )\n  special_chars = [' ', '<', '>', '.', '[', ']']\n\n"
       "  if len( full_name ) < 64 and not any([c in full_name for c in special_chars]):\n    return full_name\n\n"
       "  comp_name = c_rtype.get_name()\n",
       "  full_name = get_component_full_name( c_rtype )\n  comp_name = c_rtype.get_name()\n"
       "  special_chars = [' ', '<', '>', '.', '[', ']']\n\n"
       "  if len( full_name ) < 64 and not any([c in comp_name for c in special_chars]):\n    return full_name\n\n", 'R-C13-name'),
    # --- round 8
    _m('special-character-loop-else-on-the-if', VUTIL,
       "  if len( full_name ) < 64 and not any([c in full_name for c in special_chars]):\n    return full_name\n",
       "  if len( full_name ) < 64:\n    for c in special_chars:\n      if c in full_name:\n        break\n"
       "      else:\n        return full_name\n", 'R-C13-name'),
    _m('verilog-cmp-last-line-wins', VUTIL,
       "  is_same_len = len(tmp_v) == len(out_v)\n  if is_same_len:\n    for i in range(len(out_v)):\n"
       "      if out_v[i] != tmp_v[i]:\n        return False\n  return is_same_len",
       "  is_same = len(tmp_v) == len(out_v)\n  if is_same:\n    for tmp_line, out_line in zip( tmp_v, out_v ):\n"
       "      is_same = tmp_line == out_line\n  return is_same", 'R-C13-once'),
    _m('verilog-cmp-skips-first-line', VUTIL, "    for i in range(len(out_v)):", "    for i in range(1, len(out_v)):", 'R-C13-once'),
    _m('keyword-table-missing-comma', VUTIL, '"rcmos", "real", "realtime",\n', '"rcmos", "real", "realtime"\n', 'R-C13-reserved'),
    _m('keyword-table-drops-logic', VUTIL, '"intersect", "join_any", "join_none", "local", "logic", "longint",',
       '"intersect", "join_any", "join_none", "local", "longint",', 'R-C13-reserved'),
    _m('two-tables-one-dict', SL1,
       "    s.structural.component_explicit_module_name = {}\n    s.structural.component_no_synthesis = {}\n",
       "    s.structural.component_explicit_module_name = \\\n    s.structural.component_no_synthesis = {}\n", 'R-C13-state'),
    _m('two-tables-through-one-local', SL1,
       "    s.structural.decl_ports  = {}\n    s.structural.decl_wires  = {}\n",
       "    empty = {}\n    s.structural.decl_ports  = empty\n    s.structural.decl_wires  = empty\n", 'R-C13-state'),
    _m('definitions-keyed-by-unique-name-only', TRANSLATOR,
       "        name = s.structural.component_explicit_module_name[m] or \\\n               s.structural.component_unique_name[m]\n",
       "        name = s.structural.component_unique_name[m]\n", 'R-C13-once'),
    _m('loopvars-sorted-by-suffix-only', YBL1, "loopvars = sorted(list( s.loopvars ))",
       "loopvars = sorted(list( s.loopvars ), key = lambda v: v.rsplit('_', 1)[-1])", 'R-C13-unordered'),
    _m('loopvars-sorted-by-length', YBL1, "loopvars = sorted(list( s.loopvars ))",
       "loopvars = sorted(list( s.loopvars ), key = len)", 'R-C13-unordered'),
    _m('clear-chain-runs-before-the-configs-are-stored', TRANSLATOR,
       "      s.tr_cfgs = tr_cfgs\n      s.hierarchy = TranslatorMetadata()\n      super().clear( tr_top )\n",
       "      super().clear( tr_top )\n      s.tr_cfgs = tr_cfgs\n      s.hierarchy = TranslatorMetadata()\n", 'R-C13-state'),
    _m('base-clear-generates-before-storing-top', BASE,
       "    s.tr_top = tr_top\n    s.component = {}\n    s.hierarchy = TranslatorMetadata()\n    s.gen_base_rtlir_trans_metadata( s.tr_top )",
       "    s.component = {}\n    s.hierarchy = TranslatorMetadata()\n    s.gen_base_rtlir_trans_metadata( s.tr_top )\n    s.tr_top = tr_top",
       'R-C13-state'),
    # --- R-C13-state
    _m('translator-state-initialised-once', VTRANSLATOR,
       "      s._mangled_placeholder_top_module_name = ''\n      s._included_pickled_files = set()\n",
       "      if not hasattr( s, '_included_pickled_files' ):\n        s._mangled_placeholder_top_module_name = ''\n"
       "        s._included_pickled_files = set()\n", 'R-C13-state'),
    _m('mangled-top-name-not-reset', VTRANSLATOR, "      s._mangled_placeholder_top_module_name = ''\n", "", 'R-C13-state'),
    # --- R-C13-once
    _m('components-filtered', VTRANSLATOR, 'return "\\n\\n".join( components.values() )',
       'return "\\n\\n".join( c for c in components.values() if c )', 'R-C13-once'),
    _m('translate-component-skips-some-children', TRANSLATOR,
       "          translate_component( child, components )",
       "          if child.get_update_blocks(): translate_component( child, components )", 'R-C13-once'),
    _m('module-header-named-by-class', VTRANSLATOR, "        module_name = structural.component_unique_name",
       "        module_name = structural.component_name", 'R-C13-once'),
    _m('yosys-header-ignores-explicit-name', YTRANSLATOR,
       "    if structural.component_explicit_module_name:\n      module_name = \\\n          structural.component_explicit_module_name\n    elif",
       "    if False:\n      module_name = \\\n          structural.component_explicit_module_name\n    elif", 'R-C13-once'),
    _m('instantiation-named-by-class', VSL4, "          c_name = _c_name", "          c_name = obj_c_rtype.get_name()",
       'R-C13'),
    _m('backend-unique-name-is-full-name', VSL1, "    return get_component_unique_name( c_rtype )",
       "    return get_component_full_name( c_rtype )", 'R-C13-once'),
    _m('namespace-of-the-top', TRANSLATOR, "            setattr( ns, name, metadata_d[m] )",
       "            setattr( ns, name, metadata_d[s.tr_top] )", 'R-C13-once'),
    # --- R-C13-instname
    _m('verilog-instantiation-name-from-array-type', VSL4,
       "        _c_name = s.rtlir_tr_component_unique_name(obj_c_rtype)",
       "        _c_name = s.rtlir_tr_component_unique_name(c_rtype)", 'R-C13-instname'),
]

EQUIV = [
    _m('children-sorted-by-keyword', TRANSLATOR, CHILD, "m.get_child_components( sort_key = repr )", None),
    _m('children-sorted-outside', SL4, CHILD, "sorted( m.get_child_components(), key = repr )", None),
    _m('loopvars-sorted-without-list', YBL1, "sorted(list( s.loopvars ))", "sorted( s.loopvars )", None),
    _m('connect-order-copied-with-list', SGEN1, "[ *m.get_connect_order() ]", "list( m.get_connect_order() )", None),
    _m('upblk-difference-method', RUTIL, "upblks = m.get_update_blocks() - m.get_update_ff()",
       "upblks = m.get_update_blocks().difference( m.get_update_ff() )", None),
    _m('upblks-from-set-but-sorted-by-name', RUTIL, "return [ x for x in m.get_update_block_order() if x in upblks ]",
       "return list( upblks )", None),
    _m('struct-name-set-as-frozenset', VTRANSLATOR, "all_struct_names = { x.cls.__name__ for x in hierarchy.decl_type_struct }",
       "all_struct_names = frozenset( x.cls.__name__ for x in hierarchy.decl_type_struct )", None),
    _m('components-values-listed', VTRANSLATOR, 'return "\\n\\n".join( components.values() )',
       'return "\\n\\n".join( list( components.values() ) )', None),
    _m('components-values-comprehension', VTRANSLATOR, 'return "\\n\\n".join( components.values() )',
       'return "\\n\\n".join( src for src in components.values() )', None),
    _m('typedef-dedup-as-in', GENERIC + 'structural/StructuralTranslatorL1.py',
       "      if dtype not in s.structural.decl_type_vector:\n        s.structural.decl_type_vector[ dtype ] = ret",
       "      if dtype in s.structural.decl_type_vector:\n        pass\n      else:\n        s.structural.decl_type_vector[ dtype ] = ret",
       None),
    _m('full-name-fstring', RUTIL, "comp_name += '__' + arg_name + '_' + get_string(arg_value)",
       "comp_name += f'__{arg_name}_{get_string(arg_value)}'", None),
    _m('update-ff-iterated-directly-but-sorted', RUTIL,
       "return [ x for x in m.get_update_block_order() if x in m.get_update_ff() ]",
       "return [ x for x in m.get_update_ff() ]", None),
    _m('special-chars-as-string', VUTIL, "special_chars = [' ', '<', '>', '.', '[', ']']", "special_chars = ' <>.[]'", None),
    _m('special-chars-guard-generator', VUTIL, "not any([c in full_name for c in special_chars])",
       "all( c not in full_name for c in special_chars )", None),
    _m('special-chars-guard-set-intersection', VUTIL, "not any([c in full_name for c in special_chars])",
       "not ( set( full_name ) & set( special_chars ) )", None),
    _m('translate-component-locals-renamed', TRANSLATOR,
       "        name = s.structural.component_explicit_module_name[m] or \\\n               s.structural.component_unique_name[m]\n"
       "        if name not in components:\n          components[name] = s.rtlir_tr_component(",
       "        uname = s.structural.component_explicit_module_name[m] or \\\n               s.structural.component_unique_name[m]\n"
       "        if not uname in components:\n          components[uname] = s.rtlir_tr_component(",
       None),
    _m('struct-name-memo-keyed-by-class', RUTIL,
       "        return get_rtlir_dtype( obj() ).get_name()\n",
       "        if obj not in get_string.__dict__:\n"
       "          get_string.__dict__[ obj ] = get_rtlir_dtype( obj() ).get_name()\n"
       "        return get_string.__dict__[ obj ]\n", None),
    _m('placeholder-has-params-inlined', VPLACEHOLDER,
       "      has_params = bool( irepr.get_params() ) or bool( cfg.params )\n      if has_params:",
       "      if irepr.get_params() or cfg.params:", None),
    _m('initialise-hook-reordered', VTRANSLATOR,
       "      s._mangled_placeholder_top_module_name = ''\n      s._included_pickled_files = set()\n",
       "      s._included_pickled_files = set()\n      s._mangled_placeholder_top_module_name = ''\n", None),
    _m('set-param-merge-stored-back', COMPONENT,
       "        kwargs = s._dsl.kwargs\n        if \"construct\" in s._dsl.param_tree.leaf:\n"
       "          more_args = s._dsl.param_tree.leaf[ \"construct\" ]\n          kwargs.update( more_args )\n",
       "        kwargs = dict( s._dsl.kwargs )\n        if \"construct\" in s._dsl.param_tree.leaf:\n"
       "          more_args = s._dsl.param_tree.leaf[ \"construct\" ]\n          kwargs.update( more_args )\n"
       "        s._dsl.kwargs = kwargs\n", None),
    _m('wrapper-name-guard-reversed-operands', VSL1, "        if module_name == ph_cfg.top_module:\n          raise VerilogPlaceholderError(m,",
       "        if not ( ph_cfg.top_module != module_name ):\n          raise VerilogPlaceholderError(m,", None),
    _m('struct-hash-on-name-parts', RDTYPE, "    return hash((type(s), s.get_full_name()))",
       "    return hash((type(s), s.cls.__name__, s.get_field_str()))", None),
    _m('unique-name-truncated-but-fully-hashed', VUTIL,
       "  param_hash.update(full_name[len(comp_name):].encode('ascii'))\n  param_name = param_hash.hexdigest()\n"
       '  return comp_name + "__" + param_name',
       "  param_hash.update(full_name.encode('ascii'))\n  param_name = param_hash.hexdigest()\n"
       '  return comp_name[:40] + "__" + param_name', None),
    _m('yosys-wire-check-after-assert-reordered', YTRANS + 'structural/YosysStructuralTranslatorL1.py',
       '    assert isinstance( dtype, rdt.Vector )\n    s.check_decl( id_, "" )\n    return s.wire_vector_gen( id_, dtype, n_dim )',
       '    s.check_decl( id_, "" )\n    assert isinstance( dtype, rdt.Vector )\n    wires = s.wire_vector_gen( id_, dtype, n_dim )\n    return wires',
       None),
    _m('placeholder-guard-from-crc32', VPLACEHOLDER,
       '        f"`ifndef {cfg.dependency_guard_symbol}\\n"',
       '        f"`ifndef {cfg.dependency_guard_symbol}_{__import__(\'zlib\').crc32(cfg.pickled_orig_file.encode()) & 0xffffffff:08X}\\n"',
       None),
    _m('digest-input-through-helper-local', VUTIL, "  param_hash.update(full_name[len(comp_name):].encode('ascii'))",
       "  param_str = full_name[len(comp_name):]\n  param_hash.update(param_str.encode('ascii'))", None),
    _m('digest-input-through-two-helper-locals', VUTIL, "  param_hash.update(full_name[len(comp_name):].encode('ascii'))",
       "  n_cls = len(comp_name)\n  param_str = full_name[n_cls:]\n  raw = param_str.encode('ascii')\n  param_hash.update(raw)", None),
    _m('hashed-name-through-helper-locals', VUTIL, '  return comp_name + "__" + param_name',
       '  sep = "__"\n  mangled = comp_name + sep + param_name\n  return mangled', None),
    _m('struct-eq-early-return', RDTYPE, "    return isinstance(u, Struct) and s.get_full_name() == u.get_full_name()",
       "    if not isinstance(u, Struct):\n      return False\n    mine = s.get_full_name()\n    return mine == u.get_full_name()", None),
    _m('struct-hash-through-helper-local', RDTYPE, "    return hash((type(s), s.get_full_name()))",
       "    key = (type(s), s.get_full_name())\n    return hash(key)", None),
    _m('yosys-wire-check-on-alias-flipped-if', YTRANS + 'structural/YosysStructuralTranslatorL2.py',
       """    if isinstance( dtype, rdt.Struct ):
      s.check_decl( id_, "" )
      return s.wire_struct_gen( id_, dtype, n_dim )
    elif isinstance( dtype, rdt.PackedArray ):""",
       """    name = id_
    if not isinstance( dtype, ( rdt.Struct, rdt.PackedArray ) ):
      return super().wire_dtype_gen( name, dtype, n_dim )
    if isinstance( dtype, rdt.Struct ):
      s.check_decl( name, "" )
      return s.wire_struct_gen( name, dtype, n_dim )
    elif isinstance( dtype, rdt.PackedArray ):""", None),
    _m('verilog-wire-check-written-out', VSL1,
       "      template = \"Note: {n_dim} array of wires {id_} has data type {_dtype}\"\n    s.check_decl( id_, template.format( **locals() ) )",
       "      template = \"Note: {n_dim} array of wires {id_} has data type {_dtype}\"\n"
       "    if s.is_verilog_reserved( id_ ):\n      raise VerilogReservedKeywordError( id_, template.format( **locals() ) )", None),
    _m('wrapper-name-guard-through-helper-local', VSL1,
       "        if module_name == ph_cfg.top_module:\n          raise VerilogPlaceholderError(m,",
       "        clash = module_name == ph_cfg.top_module\n        if clash:\n          raise VerilogPlaceholderError(m,", None),
    _m('construct-kwargs-through-helper-local', COMPONENT,
       "      else:\n        kwargs = s._dsl.kwargs\n        if \"construct\" in s._dsl.param_tree.leaf:",
       "      else:\n        recorded = s._dsl.kwargs\n        kwargs = recorded\n        if \"construct\" in s._dsl.param_tree.leaf:", None),
    _m('placeholder-decision-flipped', VPLACEHOLDER,
       "      if has_params:\n        cfg.pickled_top_module = get_component_unique_name( irepr )\n      else:\n"
       "        cfg.pickled_top_module = f\"{irepr.get_name()}_noparam\"",
       "      if not has_params:\n        cfg.pickled_top_module = f\"{irepr.get_name()}_noparam\"\n      else:\n"
       "        cfg.pickled_top_module = get_component_unique_name( irepr )", None),
    _m('verilog-element-lookup-by-walk-in-order', VSL4,
       "        attr = c_id + ''.join(f'[{dim}]' for dim in _n_dim)\n        obj = eval(f'm.{attr}')\n",
       "        obj = getattr( m, c_id )\n        for dim in _n_dim:\n          obj = obj[ dim ]\n", None),
    _m('yosys-instantiation-chain-nested-ifs', YSL4,
       """        elif subcomp_explicit_name:
          # If someone sets explicit_module_name, we need to honor that config
          c_name = subcomp_explicit_name
        else:
          obj_c_rtype = s.tr_top.get_metadata( RTLIRPass.rtlir_getter ).get_rtlir( obj )
          c_name = s.rtlir_tr_component_unique_name( obj_c_rtype )
""", """        elif not subcomp_explicit_name:
          obj_c_rtype = s.tr_top.get_metadata( RTLIRPass.rtlir_getter ).get_rtlir( obj )
          c_name = s.rtlir_tr_component_unique_name( obj_c_rtype )
        else:
          # If someone sets explicit_module_name, we need to honor that config
          c_name = subcomp_explicit_name
""", None),
    _m('kwonly-guard-as-if-raise', RTYPE,
       '      assert not argspec.kwonlyargs, "keyword args are not allowed for construct!"\n',
       '      if argspec.kwonlyargs:\n        raise AssertionError( "keyword args are not allowed for construct!" )\n', None),
    _m('seq-block-label-checked-on-attribute', VTRANS + 'behavioral/VBehavioralTranslatorL1.py',
       "    s.upblk_type = s.SEQUENTIAL\n\n    s.check_res( node, blk_name )\n",
       "    s.check_res( node, node.name )\n    s.upblk_type = s.SEQUENTIAL\n", None),
    _m('lambda-block-name-by-regex', LEVEL3,
       '"_lambda__{}".format( repr(o).replace(".","_").replace("[", "_").replace("]", "_").replace(":", "_") )',
       '"_lambda__" + re.sub( r"[^A-Za-z0-9_]", "_", repr(o) )', None),
    _m('output-file-name-via-helper-local', VPASS, '        filename = f"{module_name}__pickled"',
       '        stem = module_name\n        filename = stem + "__pickled"', None),
    _m('class-test-with-inspect', RUTIL, "    if isinstance(obj, type):", "    if inspect.isclass(obj):", None),
    _m('verilog-scalar-instance-check-written-out', VSL4,
       "    if not c_array_type['n_dim']:\n      s.check_decl( c_id, f\"Note: {c_id} is a sub-component of {m}\" )\n",
       "    n_dim = c_array_type['n_dim']\n    if not n_dim and s.is_verilog_reserved( c_id ):\n"
       "      raise VerilogReservedKeywordError( c_id, f\"Note: {c_id} is a sub-component of {m}\" )\n", None),
    _m('yosys-scalar-instance-check-len-form', YSL4,
       "    if not c_n_dim:\n      s.check_decl( c_id,", "    if len( c_n_dim ) == 0:\n      s.check_decl( c_id,", None),
    _m('verilog-scalar-instance-check-unconditional', VSL4,
       "    if not c_array_type['n_dim']:\n      s.check_decl( c_id, f\"Note: {c_id} is a sub-component of {m}\" )\n",
       "    s.check_decl( c_id, f\"Note: {c_id} is a sub-component of {m}\" )\n", None),
    _m('config-traversal-renamed', VPASS,
       "    def traverse( m ):\n      nonlocal tr_cfgs\n      tr_cfgs[m] = s.get_translation_config()( m )\n"
       "      for _m in m.get_child_components(repr):\n        traverse( _m )",
       "    def traverse( comp ):\n      nonlocal tr_cfgs\n      mk_cfg = s.get_translation_config()\n      tr_cfgs[comp] = mk_cfg( comp )\n"
       "      for child in comp.get_child_components(repr):\n        traverse( child )", None),
    _m('nested-interface-prefix-via-helper-local', VSL4,
       "        ret += s.rtlir_tr_subcomp_ifc_port_decl( m,",
       "        nested_prefix = ifc_id + '__' + port_id\n        ret += s.rtlir_tr_subcomp_ifc_port_decl( m,", None),
    _m('wrapper-reset-test-positive-form', VPLACEHOLDER, "    if 'reset' not in all_port_names:\n      ports.insert( 0, '  input logic reset,' )",
       "    if 'reset' in all_port_names:\n      pass\n    else:\n      ports.insert( 0, '  input logic reset,' )", None),
    _m('comp-name-hoisted-in-unique-name', VUTIL,
       "  special_chars = [' ', '<', '>', '.', '[', ']']\n\n"
       "  if len( full_name ) < 64 and not any([c in full_name for c in special_chars]):\n    return full_name\n\n"
       "  comp_name = c_rtype.get_name()\n",
       "  comp_name = c_rtype.get_name()\n  special_chars = [' ', '<', '>', '.', '[', ']']\n\n"
       "  if len( full_name ) < 64 and not any([c in full_name for c in special_chars]):\n    return full_name\n\n", None),
    _m('special-character-loop-with-for-else', VUTIL,
       "  if len( full_name ) < 64 and not any([c in full_name for c in special_chars]):\n    return full_name\n",
       "  if len( full_name ) < 64:\n    for c in special_chars:\n      if c in full_name:\n        break\n"
       "    else:\n      return full_name\n", None),
    _m('verilog-cmp-conjunction-with-zip', VUTIL,
       "  is_same_len = len(tmp_v) == len(out_v)\n  if is_same_len:\n    for i in range(len(out_v)):\n"
       "      if out_v[i] != tmp_v[i]:\n        return False\n  return is_same_len",
       "  is_same = len(tmp_v) == len(out_v)\n  if is_same:\n    for tmp_line, out_line in zip( tmp_v, out_v ):\n"
       "      is_same = is_same and tmp_line == out_line\n  return is_same", None),
    _m('keyword-table-explicit-concatenation', VUTIL, '"rcmos", "real", "realtime",\n', '"rcmos", "real", "real" + "time",\n', None),
    _m('two-tables-separate-dict-calls', SL1,
       "    s.structural.component_explicit_module_name = {}\n    s.structural.component_no_synthesis = {}\n",
       "    s.structural.component_explicit_module_name = dict()\n    s.structural.component_no_synthesis = dict()\n", None),
    _m('component-namespaces-through-helper-locals', TRANSLATOR,
       "          components[name] = s.rtlir_tr_component(\n              get_component_nspace( s.behavioral, m ),\n"
       "              get_component_nspace( s.structural, m ),\n          )\n",
       "          behavioral_ns = get_component_nspace( s.behavioral, m )\n"
       "          structural_ns = get_component_nspace( s.structural, m )\n"
       "          components[name] = s.rtlir_tr_component( behavioral_ns, structural_ns )\n", None),
    _m('dsl-namespace-through-alias', 'pymtl3/dsl/ComponentLevel2.py',
       "    inst._dsl.update_ff = set()\n", "    dsl = inst._dsl\n    dsl.update_ff = set()\n", None),
    _m('dsl-upblks-through-alias', 'pymtl3/dsl/ComponentLevel1.py',
       "    inst._dsl.upblks      = set()\n", "    ns = inst._dsl\n    ns.upblks      = set()\n", None),
    _m('loopvars-sorted-key-str', YBL1, "loopvars = sorted(list( s.loopvars ))", "loopvars = sorted(list( s.loopvars ), key = str)", None),
    _m('loopvars-sorted-by-suffix-then-name', YBL1, "loopvars = sorted(list( s.loopvars ))",
       "loopvars = sorted(list( s.loopvars ), key = lambda v: (v.rsplit('_', 1)[-1], v))", None),
    _m('clear-stores-hierarchy-first', TRANSLATOR,
       "      s.tr_cfgs = tr_cfgs\n      s.hierarchy = TranslatorMetadata()\n      super().clear( tr_top )\n",
       "      s.hierarchy = TranslatorMetadata()\n      s.tr_cfgs = tr_cfgs\n      super().clear( tr_top )\n", None),
    _m('local-renamed-in-unique-name', VUTIL, "  param_name = param_hash.hexdigest()\n  return comp_name + \"__\" + param_name",
       "  digest = param_hash.hexdigest()\n  return comp_name + \"__\" + digest", None),
]

LEVEL_TEXT = ("Whole-program static orderedness (hash-seed taint) analysis of the translation code and the dsl getters it "
              "calls -- every iteration, join and text formatting in the translators is classified, and any order-observing "
              "consumption of a set-derived value is a finding -- plus structural rules on the naming / deduplication / "
              "emission code: first-writer-wins tables need an identity check, the module-name functions encode every "
              "parameter and hash completely, the identifier-character guard is evaluated for every printable ASCII "
              "character, definitions are emitted exactly once and instantiation names are computed per instance. "
              "Decides these necessary conditions for all designs (which golden-text tests in one process cannot); does not "
              "execute a translation.")
LEVEL_NOTE = ("Trusted: Python ordering semantics (dict/list ordered, set/str-hash seed dependent), sort keys injective, "
              "name-based merging of fields (over-approximation), functions outside the analysed file set order-preserving. "
              "Not decided: equal names implying equal bodies for same-class instances whose construct() depends on "
              "non-parameter state; separator ambiguity inside parameter strings.")
TECHNIQUE = ("interprocedural abstract interpretation over Python ast (orderedness lattice with element tracking, "
             "context-sensitive return summaries, field / metadata / parameter maps, effect summaries), structural "
             "dominance, exhaustive evaluation of the extracted identifier-character guard, sibling agreement")
