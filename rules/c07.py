"""C07 -- Flip-flop updates are atomic at the clock edge.  (DESIGN.md section 4, C07)"""
import ast
import re

from sa.astutil import (inline_locals, norm, guards_of, walk_no_nested, always_exits, parent, enclosing, stmt_of,
                        preceding_stmts, body_walk, qualname, enclosing_func)
from sa.bitsdom import self_name
from sa.errors import AnalysisError
from sa.report import RuleResult
from sa.seqdom import SeqEval, Item

PID = 'C07'
BITS = 'pymtl3/datatypes/PythonBits.py'
STRUCTS = 'pymtl3/datatypes/bitstructs.py'
L2 = 'pymtl3/dsl/ComponentLevel2.py'
CONN = 'pymtl3/dsl/Connectable.py'
SIMPLE = 'pymtl3/passes/sim/SimpleSchedulePass.py'
PREP = 'pymtl3/passes/sim/PrepareSimPass.py'
TICK = 'pymtl3/passes/sim/SimpleTickPass.py'
UNROLL = 'pymtl3/passes/mamba/UnrollSimPass.py'
MAMBA = 'pymtl3/passes/mamba/Mamba2020Pass.py'

EXPLANATION = (
    "Static analysis, no execution. R-C07-effects: field-effect analysis of Bits (<<= writes only _next and returns "
    "self; _flip is the only reader of _next and the only copy into _uint; @=/slice-assign write only _uint) and of the "
    "generated bitstruct __ilshift__/_flip (leaf-wise delegation) => a <<= is invisible until the flip. R-tick-order: "
    "symbolic evaluation (SeqDom) of every tick/reset builder: all ff blocks precede the flip, no combinational block "
    "between the first ff block and the flip, tracing before the flip, a full combinational pass after the flip; reset "
    "alternates comb and edge. R-C07-dbuf-set / -flip-cover / -init / -ffset: every <<=-written signal is marked, every "
    "marked signal gets exactly one _flip() line, gets its _next initialised, and every update_ff block is scheduled once. "
    "Decides the ordering/coverage structure that makes the edge atomic for every design; does not decide user code that "
    "keeps references to Bits objects across cycles.")
ASSUMPTIONS = [
    "ff blocks commute given invisibility of <<= until _flip (follows from R-C07-effects)",
    "Python augmented-assignment semantics (x <<= v rebinds x to the return value of __ilshift__)",
    "operator checks (<<= vs @=) are not applied by pymtl3 inside helper functions; only the double-buffer marking of their writes is checked",
]


def _methods(repo):
    m = repo.mod(BITS)
    return m, m.methods('Bits')


def _attr_accesses(func, attr):
    loads, stores = [], []
    for n in body_walk(func):
        if isinstance(n, ast.Attribute) and n.attr == attr:
            (stores if isinstance(n.ctx, ast.Store) else loads).append(n)
    return loads, stores


def rule_effects(repo):
    r = RuleResult('R-C07-effects', "a value assigned with <<= is invisible to every reader until _flip copies it")
    m, meths = _methods(repo)
    for need in ('__ilshift__', '_flip', '__imatmul__', '__setitem__'):
        if need not in meths:
            raise AnalysisError(f"anchor vanished: Bits.{need}")
    for name, f in sorted(meths.items()):
        nl, ns = _attr_accesses(f, '_next')
        ul, us = _attr_accesses(f, '_uint')
        if name == '__ilshift__':
            if us:
                r.bad(m, 'Bits.__ilshift__', norm(stmt_of(us[0])), "<<= writes the visible value (_uint): the new value is "
                      "seen by blocks that run later in the same cycle", us[0].lineno)
            elif len(ns) < 2:
                r.bad(m, 'Bits.__ilshift__', 'stores to _next', "<<= must store the new value into _next on both the Bits and "
                      "the int path", f.lineno)
            else:
                r.ok(m, 'Bits.__ilshift__', f"writes only _next ({len(ns)} stores)")
            rets = [x for x in walk_no_nested(f) if isinstance(x, ast.Return)]
            me = self_name(f)
            if rets and all(x.value is not None and norm(x.value) == me for x in rets) and isinstance(f.body[-1], ast.Return):
                r.ok(m, 'Bits.__ilshift__', 'returns self', nontrivial=False)
            else:
                r.bad(m, 'Bits.__ilshift__', 'return value', "<<= must return self (x <<= v rebinds x to the result; a new "
                      "object would detach the signal from its net)", f.lineno)
            if nl:
                r.bad(m, 'Bits.__ilshift__', norm(stmt_of(nl[0])), "<<= reads the pending value", nl[0].lineno)
        elif name == '_flip':
            body = [s for s in f.body if not (isinstance(s, ast.Expr) and isinstance(s.value, ast.Constant))
                    and not isinstance(s, ast.Pass)]
            me = self_name(f)
            if len(body) == 1 and norm(body[0]) == f"{me}._uint = {me}._next":
                r.ok(m, 'Bits._flip', norm(body[0]))
            else:
                r.bad(m, 'Bits._flip', norm(body), "_flip must copy _next into _uint and do nothing else", f.lineno)
        else:
            if nl:
                r.bad(m, f'Bits.{name}', norm(stmt_of(nl[0])), "reads the pending (_next) value before the clock edge", nl[0].lineno)
            if ns:
                r.bad(m, f'Bits.{name}', norm(stmt_of(ns[0])), "writes the pending (_next) value outside <<=", ns[0].lineno)
            if not nl and not ns:
                r.ok(m, f'Bits.{name}', 'does not touch _next', nontrivial=False)
            if name in ('__imatmul__',):
                rets = [x for x in walk_no_nested(f) if isinstance(x, ast.Return)]
                me = self_name(f)
                if rets and all(x.value is not None and norm(x.value) == me for x in rets) and us:
                    r.ok(m, f'Bits.{name}', 'writes _uint, returns self')
                else:
                    r.bad(m, f'Bits.{name}', 'return value / store', "@= must update _uint in place and return self", f.lineno)
    # the generated bitstruct __ilshift__ / _flip (leaf-wise staging and commit, binding to the class) are decided semantically by
    # C06's R-C06-leaf / -grid / -wiring, which this module runs by dependency (rule_struct_registers*): an earlier shape match
    # of the generator's templates here fired on behaviour-preserving rewrites of the generator (emitted loops, enumerate)
    r.require_floor(30)
    return r


# ---------------------------------------------------------------------------
def _resolver(repo, mod, cls):
    def res(call):
        f = call.func
        if isinstance(f, ast.Attribute) and isinstance(f.value, ast.Name) and f.value.id in ('self', 's'):
            hit = repo.lookup_method(mod, cls, f.attr)
            if hit is not None and f.attr.startswith('collect_'):
                return hit[2]
        return None
    return res


def _classify(label):
    l = label
    if 'schedule_posedge_flip' in l:
        return 'flip'
    if 'schedule_ff' in l:
        return 'ff'
    if 'update_schedule' in l:
        return 'comb'
    if 'vcd_func' in l:
        return 'vcd'
    if 'textwave_func' in l:
        return 'textwave'
    if 'print_line_trace' in l:
        return 'linetrace'
    if 'advance_sim_cycle' in l:
        return 'advance'
    if 'check_top_level_inports' in l:
        return 'checkin'
    if 'clear_cl_trace_func' in l:
        return 'clearcl'
    if 'vtbgen_hooks' in l:
        return 'vtb'
    return 'other:' + l


def tick_sequences(repo):
    """{(file, class): {'tick': seq, 'ff': seq}} for every class that builds a tick"""
    out = {}
    for rel, cname in ((PREP, 'PrepareSimPass'), (UNROLL, 'UnrollSimPass'), (MAMBA, 'Mamba2020Pass'),
                       ('pymtl3/passes/mamba/HeuristicTopoPass.py', 'HeuristicTopoPass')):
        m = repo.mod(rel)
        c = m.get_class(cname)
        d = {}
        for meth in ('create_sim_tick', 'collect_ff_funcs'):
            hit = repo.lookup_method(m, c, meth)
            if hit is None:
                raise AnalysisError(f"{cname} has no {meth} in its MRO")
            hm, hc, hf = hit
            se = SeqEval(_resolver(repo, m, c))
            env, ret = se.eval_function(hf)
            if meth == 'collect_ff_funcs':
                if ret is None:
                    raise AnalysisError(f"{hc.name}.collect_ff_funcs does not return a list")
                d['ff'] = (hm, hc, hf, ret, se.evals)
            else:
                # the list handed to gen_tick_function and stored as top.sim_tick
                tgt = None
                for s in hf.body:
                    if isinstance(s, ast.Assign) and norm(s.targets[0]) == 'top.sim_tick' and isinstance(s.value, ast.Call) \
                            and len(s.value.args) == 1 and isinstance(s.value.args[0], ast.Name):
                        tgt = s.value.args[0].id
                        gen = norm(s.value.func)
                if tgt is None or tgt not in env:
                    raise AnalysisError(f"{hc.name}.create_sim_tick: cannot find the schedule handed to gen_tick_function")
                d['tick'] = (hm, hc, hf, env[tgt], se.evals, gen)
        out[(rel, cname)] = d
    return out


def _atoms(test, at, negate=False):
    """normalised conjuncts of a condition (of its negation with negate=True) with helper locals inlined:
    `len(E) == 0` / `not len(E)` / `not E` are one form, as are their negations `len(E) != 0` / `len(E) > 0` / `E`"""
    from sa.astutil import canon_atom
    t = inline_locals(test, at)
    while isinstance(t, ast.UnaryOp) and isinstance(t.op, ast.Not):
        t, negate = t.operand, not negate
    if not negate:
        parts = [(v, True) for v in t.values] if isinstance(t, ast.BoolOp) and isinstance(t.op, ast.And) else [(t, True)]
    else:
        parts = [(v, False) for v in t.values] if isinstance(t, ast.BoolOp) and isinstance(t.op, ast.Or) else [(t, False)]
    out = set()
    for p, pol in parts:
        x, pol = canon_atom(p, pol)
        mm = re.fullmatch(r'len\((.*)\) == 0', x) or re.fullmatch(r'not len\((.*)\)', x) or re.fullmatch(r'0 == len\((.*)\)', x) \
            or re.fullmatch(r'len\((.*)\) <= 0', x) or re.fullmatch(r'len\((.*)\) < 1', x)
        nn = re.fullmatch(r'len\((.*)\) != 0', x) or re.fullmatch(r'len\((.*)\) > 0', x) or re.fullmatch(r'len\((.*)\) >= 1', x) \
            or re.fullmatch(r'len\((.*)\)', x)
        if mm:
            a, pol = 'not ' + mm.group(1), pol
        elif nn:
            a, pol = 'not ' + nn.group(1), not pol
        elif x.startswith('not '):
            a, pol = x, pol
        else:
            a, pol = 'not ' + x, not pol
        # a is always of the form `not E`; polarity False means E itself holds
        out.add(a if pol else a[4:])
    return out


def _extra_pre_edge_conditions(repo, hm, hc, hf, cond_tuples):
    """atoms guarding the pre-edge combinational pass of create_sim_tick that do not occur in the 'pure RTL' test of the
    create_sim_eval_comb that the same class resolves to"""
    hit = repo.lookup_method(hm, hc, 'create_sim_eval_comb')
    if hit is None:
        return []
    em, ec, ef = hit
    ifs = [n for n in ef.body if isinstance(n, ast.If)]
    if not ifs:
        return []
    # the 'pure RTL' branch is the one that builds the combinational function (the other one only reports why it cannot)
    builds = lambda body: any(isinstance(c, ast.Call) and norm(c.func).endswith('gen_tick_function') for st in body for c in ast.walk(st))
    if builds(ifs[0].body) == builds(ifs[0].orelse):
        raise AnalysisError(f"{ec}.create_sim_eval_comb: the branch that builds the combinational function was not identified")
    allowed = _atoms(ifs[0].test, ifs[0], negate=not builds(ifs[0].body))
    extra = []
    for conds in cond_tuples:
        for c in conds:
            if c.startswith('not ('):
                continue          # negated condition of an overwritten alternative (SeqDom bookkeeping)
            node = [n for n in ast.walk(hf) if isinstance(n, ast.If) and norm(n.test) == c]
            atoms = _atoms(node[0].test, node[0]) if node else {c}
            extra += sorted(a for a in atoms if a not in allowed)
    return extra


def rule_tick_order(repo):
    r = RuleResult('R-tick-order', "in every tick builder all ff blocks precede the flip, nothing combinational runs between "
                                   "the first ff block and the flip, tracing samples before the flip, a full comb pass follows the flip")
    # the edge / tick sequences are assembled per (pass application, design): a builder that hands out a list kept on the pass
    # object gives the second design the first design's ff blocks and flips
    memo = False
    for rel, cname in ((PREP, 'PrepareSimPass'), (UNROLL, 'UnrollSimPass')):
        mm = repo.mod(rel)
        for fname, fn in mm.methods(cname).items():
            if fname not in ('collect_ff_funcs', 'create_sim_tick', 'create_sim_reset', 'create_sim_eval_comb'):
                continue
            me = fn.args.args[0].arg
            for n in walk_no_nested(fn):
                if isinstance(n, ast.Return) and n.value is not None and isinstance(n.value, ast.Attribute) and norm(n.value).startswith(me + '.'):
                    memo = True
                    r.bad(mm, f"{cname}.{fname}", f"returns `{norm(n.value)}`", "the schedule is memoised on the pass object and never invalidated: "
                          "applying the same pass instance to a second design runs the first design's update_ff blocks and flips "
                          "(the second design's registers never change)", n.lineno)
    if memo:
        return r
    seqs = tick_sequences(repo)
    seen = set()
    for (rel, cname), d in seqs.items():
        hm, hc, hf, seq, ev = d['ff']
        r.evaluations += ev
        key = (hm.rel, hc.name, 'ff')
        kinds = [_classify(i.label) for i in seq]
        if key not in seen:
            seen.add(key)
            fn = f"{hc.name}.collect_ff_funcs"
            cons = ' ; '.join(repr(i) for i in seq)
            ff = [i for i, k in enumerate(kinds) if k == 'ff']
            fl = [i for i, k in enumerate(kinds) if k == 'flip']
            if len(ff) != 1 or len(fl) != 1:
                r.bad(hm, fn, cons, "the clock-edge sequence must contain the ff blocks and the flip exactly once", hf.lineno)
            elif seq[ff[0]].cond or seq[fl[0]].cond:
                r.bad(hm, fn, cons, "ff blocks / flip are only conditionally scheduled", hf.lineno)
            elif not ff[0] < fl[0]:
                r.bad(hm, fn, cons, "the flip runs before the ff blocks: registers commit the previous cycle's <<= values / ff "
                      "blocks observe post-edge values", hf.lineno)
            elif any(k == 'comb' for k in kinds[ff[0]:fl[0] + 1]):
                r.bad(hm, fn, cons, "a combinational pass runs between the ff blocks and the flip", hf.lineno)
            else:
                late = [k for k in kinds[fl[0] + 1:] if k in ('vcd', 'textwave', 'vtb')]
                if late:
                    r.bad(hm, fn, cons, f"tracing ({late[0]}) samples after the flip: dumps show post-edge values one cycle early", hf.lineno)
                elif 'advance' not in kinds[fl[0]:]:
                    r.bad(hm, fn, cons, "cycle counter is not advanced at the edge", hf.lineno)
                else:
                    r.ok(hm, fn, cons)
        hm, hc, hf, seq, ev, gen = d['tick']
        r.evaluations += ev
        key = (hm.rel, hc.name, 'tick')
        if key in seen:
            continue
        seen.add(key)
        kinds = [_classify(i.label) for i in seq]
        fn = f"{hc.name}.create_sim_tick"
        cons = ' ; '.join(repr(i) for i in seq)
        ff = [i for i, k in enumerate(kinds) if k == 'ff']
        fl = [i for i, k in enumerate(kinds) if k == 'flip']
        if len(ff) != 1 or len(fl) != 1 or not ff[0] < fl[0]:
            r.bad(hm, fn, cons, "sim_tick must run the ff blocks once and then the flip once", hf.lineno)
            continue
        after = [(k, seq[i].cond) for i, k in enumerate(kinds) if i > fl[0]]
        before = [(k, seq[i].cond) for i, k in enumerate(kinds) if i < ff[0]]
        if not any(k == 'comb' and not c for k, c in after):
            r.bad(hm, fn, cons, "no unconditional combinational pass after the flip: outputs are stale after the edge", hf.lineno)
        elif not any(k == 'comb' for k, c in before):
            r.bad(hm, fn, cons, "pure-RTL designs need a combinational pass before the edge (inputs written since the last tick)", hf.lineno)
        elif any(k == 'comb' for k in kinds[ff[0]:fl[0]]):
            r.bad(hm, fn, cons, "combinational blocks run between ff blocks and flip", hf.lineno)
        elif not any(k == 'comb' and not any(re.search(r'\b%s\.' % re.escape(hf.args.args[0].arg), x) for x in c) for k, c in before):
            r.bad(hm, fn, cons, "the combinational pass before the edge depends on an option of the pass (tracing on/off): "
                  "with it the ff blocks sample values computed from the previous inputs", hf.lineno)
        elif _extra_pre_edge_conditions(repo, hm, hc, hf, [c for k, c in before if k == 'comb']):
            extra = _extra_pre_edge_conditions(repo, hm, hc, hf, [c for k, c in before if k == 'comb'])
            r.bad(hm, fn, cons, f"the combinational pass before the edge is skipped under an extra condition `{extra[0]}` that is not part of the "
                  f"'pure RTL design' test which makes sim_eval_combinational available: for designs where it fails (e.g. inputs inside a "
                  f"top-level interface) the ff blocks sample values computed from the previous cycle's inputs", hf.lineno)
        else:
            # line trace (if any) must print settled pre-edge values: after the leading comb pass, before ff
            lt = [i for i, k in enumerate(kinds) if k == 'linetrace']
            if lt and not (lt[0] < ff[0]):
                r.bad(hm, fn, cons, "line trace is printed after the edge", hf.lineno)
            else:
                r.ok(hm, fn, cons)
    # sibling agreement of the two create_sim_tick implementations
    a = seqs[(PREP, 'PrepareSimPass')]['tick']
    b = seqs[(UNROLL, 'UnrollSimPass')]['tick']
    ka, kb = [_classify(i.label) for i in a[3]], [_classify(i.label) for i in b[3]]
    if ka == kb:
        r.ok(b[0], 'UnrollSimPass.create_sim_tick', 'same segment order as PrepareSimPass.create_sim_tick')
    else:
        r.bad(b[0], 'UnrollSimPass.create_sim_tick', ' ; '.join(kb), f"tick composition differs from PrepareSimPass ({' ; '.join(ka)})", b[2].lineno)
    # sim_reset: alternate comb / edge
    m = repo.mod(PREP)
    f = m.get_func('PrepareSimPass.create_sim_reset')
    defs = {}
    for s in f.body:
        if isinstance(s, ast.Assign) and isinstance(s.targets[0], ast.Name) and isinstance(s.value, ast.Call) \
                and norm(s.value.func).endswith('gen_tick_function'):
            a0 = norm(s.value.args[0])
            defs[s.targets[0].id] = 'edge' if 'collect_ff_funcs' in a0 else ('comb' if 'update_schedule' in a0 else 'other')
    inner = [n for n in f.body if isinstance(n, ast.FunctionDef)]
    if len(inner) != 1 or set(defs.values()) != {'edge', 'comb'}:
        raise AnalysisError("create_sim_reset: expected ff/up closures and one inner function")
    seq = []
    for s in inner[0].body:
        if isinstance(s, ast.Expr) and isinstance(s.value, ast.Call) and isinstance(s.value.func, ast.Name) and s.value.func.id in defs:
            seq.append(defs[s.value.func.id])
        elif isinstance(s, ast.AugAssign) and norm(s.target) == 'top.reset':
            seq.append('reset=' + norm(s.value))
        elif isinstance(s, ast.If):
            cond_calls = [n for n in ast.walk(s) if isinstance(n, ast.Call) and isinstance(n.func, ast.Name) and n.func.id in defs]
            if cond_calls:
                r.bad(m, 'PrepareSimPass.create_sim_reset.sim_reset', f"`{norm(cond_calls[0])}` under `{norm(s.test)}`",
                      f"a {defs[cond_calls[0].func.id]} pass of the reset sequence runs only under `{norm(s.test)}` (e.g. only when a line trace is "
                      f"printed): otherwise consecutive reset edges sample combinational values computed before the previous edge", s.lineno)
                seq.append('conditional')
    cons = ' ; '.join(seq)
    ticks = [x for x in seq if x in ('edge', 'comb')]
    resets = [i for i, x in enumerate(seq) if x.startswith('reset=')]
    ok = len(resets) == 2 and seq and seq[-1] == 'comb' and ticks.count('edge') >= 2 and 'conditional' not in seq
    if ok:
        # every edge is preceded (since the previous edge / reset write) by a comb pass, and followed by one
        last = None
        for i, x in enumerate(seq):
            if x == 'edge':
                if last != 'comb':
                    ok = False
                last = 'edge'
            elif x == 'comb':
                last = 'comb'
            elif x.startswith('reset='):
                last = 'write'
        ok = ok and seq[resets[0] + 1] == 'comb' and 'not' not in seq[resets[0]] and 'not' in seq[resets[1]] \
            and all(x != 'edge' for x in seq[resets[1]:]) and 'edge' in seq[resets[0]:resets[1]]
    (r.ok if ok else r.bad)(m, 'PrepareSimPass.create_sim_reset.sim_reset', cons,
                            *([] if ok else ["reset must assert reset, settle comb logic before every edge and after the last one, "
                                             "then de-assert and settle", inner[0].lineno]))
    # gen_tick_function variants call every element once, in order
    tm = repo.mod(TICK)
    g = tm.get_func('SimpleTickPass.gen_tick_function')
    arg = g.args.args[0].arg
    loops = [n for n in ast.walk(g) if isinstance(n, ast.For)]
    ok = len(loops) == 1 and norm(loops[0].iter) == arg and len(loops[0].body) == 1 and \
        norm(loops[0].body[0]) == f"{norm(loops[0].target)}()" and not loops[0].orelse
    (r.ok if ok else r.bad)(tm, 'SimpleTickPass.gen_tick_function', norm(loops[0]) if loops else '',
                            *([] if ok else ["the tick function must call every scheduled block once, in list order", g.lineno]))
    um = repo.mod(UNROLL)
    g = um.get_func('UnrollSimPass.gen_tick_function')
    arg = g.args.args[0].arg
    comps = [n for n in ast.walk(g) if isinstance(n, ast.ListComp)]
    ok = len(comps) == 2
    for c in comps:
        gen = c.generators[0]
        ok = ok and len(c.generators) == 1 and not gen.ifs and norm(gen.iter) == f"enumerate({arg})" and isinstance(c.elt, ast.JoinedStr)
    if ok:
        idx = norm(comps[0].generators[0].target.elts[0])

        def tm_(js):
            out = ''
            for v in js.values:
                out += v.value if isinstance(v, ast.Constant) else ('{' + norm(v.value) + '}')
            return out
        t = sorted(tm_(c.elt) for c in comps)
        calls = [x for x in t if x.endswith('()')]
        binds = [x for x in t if '=schedule[' in x]
        ok = len(calls) == 1 and len(binds) == 1 and binds[0].split('=')[0] + '()' == calls[0] and binds[0].endswith('=schedule[{' + idx + '}]') \
            and ('{' + idx + '}') in calls[0]
        rets = [n for n in ast.walk(g) if isinstance(n, ast.Return)]
        ok = ok and rets and isinstance(rets[-1].value, ast.Call) and [norm(a) for a in rets[-1].value.args] == [arg]
    (r.ok if ok else r.bad)(um, 'UnrollSimPass.gen_tick_function', 'unrolled calls _i_name() bound to schedule[i] over enumerate(funclist)',
                            *([] if ok else ["the unrolled tick must bind name_i = schedule[i] and call every name_i once in index order", g.lineno]))
    r.require_floor(7)
    return r


# ---------------------------------------------------------------------------
def rule_dbuf_set(repo):
    r = RuleResult('R-C07-dbuf-set', "every signal written with <<= in an update_ff block is marked for double buffering; "
                                     "the mark is never cleared")
    sets = []
    for rel in repo.py_files('pymtl3'):
        if 'needs_double_buffer' not in repo.src(rel):
            continue
        m = repo.mod(rel)
        for n in ast.walk(m.tree):
            if isinstance(n, ast.Assign):
                for t in n.targets:
                    if isinstance(t, ast.Attribute) and t.attr == 'needs_double_buffer':
                        sets.append((m, n))
            elif isinstance(n, ast.AugAssign) and isinstance(n.target, ast.Attribute) and n.target.attr == 'needs_double_buffer':
                sets.append((m, n))
    from sa.astutil import qualname
    trues = [(m, n) for m, n in sets if isinstance(n, ast.Assign) and norm(n.value) == 'True']
    others = [(m, n) for m, n in sets if (m, n) not in trues]
    for m, n in others:
        q = qualname(n)
        if m.rel == CONN and q == 'Signal.__init__' and isinstance(n, ast.Assign) and norm(n.value) == 'False':
            r.ok(m, q, norm(n), nontrivial=False)
        else:
            r.bad(m, q, norm(n), "the double-buffer mark is cleared/overwritten after construction: the register's <<= value "
                  "is never committed (no _flip is generated for it)", n.lineno)
    if not any(m.rel == CONN for m, n in others):
        raise AnalysisError("anchor vanished: Signal.__init__ default of needs_double_buffer")
    l2 = repo.mod(L2)
    f = l2.get_func('ComponentLevel2._elaborate_read_write_func.extract_obj_from_names')
    mine = [(m, n) for m, n in trues if m.rel == L2 and any(x is n for x in ast.walk(f))]
    if len(mine) != 1:
        r.bad(l2, 'ComponentLevel2._elaborate_read_write_func.extract_obj_from_names', 'x._dsl.needs_double_buffer = True',
              "written signals of update_ff blocks are not marked for double buffering exactly once", f.lineno)
    else:
        m, n = mine[0]
        gs = guards_of(n)
        g_ff = [g for g in gs if g.kind == 'if' and norm(g.test) == 'update_ff' and g.polarity]
        loops = [g for g in gs if g.kind == 'loop']
        var = norm(n.targets[0].value.value) if isinstance(n.targets[0].value, ast.Attribute) else None
        # the innermost loop iterates over all objects of the written name
        inner = loops[0].node if loops else None
        cons = norm(n)
        extra = [g for g in gs if g.kind in ('if', 'exit') and g not in g_ff and
                 inner is not None and any(x is g.node for x in ast.walk(inner))]
        # exit guards inside the loop must be raising ones (errors), not `continue` filters
        def other_arm_raises(g):
            # `if c: mark else: raise` -- the objects that fail the test are rejected with an error, not silently skipped
            arm = g.node.orelse if g.polarity else g.node.body
            return bool(arm) and always_exits(arm) and all(isinstance(x, ast.Raise) for x in arm if not isinstance(x, ast.Expr)) and \
                any(isinstance(x, ast.Raise) for x in arm)
        filt = [g for g in extra if (g.kind == 'if' and not other_arm_raises(g)) or
                (g.kind != 'if' and not all(isinstance(s, ast.Raise) for s in g.exit_block))]
        if not g_ff:
            r.bad(m, 'ComponentLevel2._elaborate_read_write_func.extract_obj_from_names', cons,
                  "the mark is not set on the update_ff path", n.lineno)
        elif inner is None or norm(inner.target) != var or norm(inner.iter) != 'objs':
            r.bad(m, 'ComponentLevel2._elaborate_read_write_func.extract_obj_from_names', cons,
                  "the mark is not set for every object the written name expands to", n.lineno)
        elif filt:
            r.bad(m, 'ComponentLevel2._elaborate_read_write_func.extract_obj_from_names', cons,
                  f"some written signals are skipped by `{norm(filt[0].test)}` and never double-buffered", n.lineno)
        else:
            # the enclosing name loop must not skip writes either: is_write / signal checks only raise
            r.ok(m, 'ComponentLevel2._elaborate_read_write_func.extract_obj_from_names', cons)
        # caller passes update_ff = blk in s._dsl.update_ff for the write set
        top = l2.get_func('ComponentLevel2._elaborate_read_write_func')
        calls = [c for c in ast.walk(top) if isinstance(c, ast.Call) and norm(c.func) == 'extract_obj_from_names'
                 and any(k.arg == 'update_ff' for k in c.keywords)]
        okc = [c for c in calls if any(k.arg == 'update_ff' and norm(k.value) == 'blk in s._dsl.update_ff' for k in c.keywords)
               and 'name_wr' in norm(c.args[1])]
        if okc:
            r.ok(m, 'ComponentLevel2._elaborate_read_write_func', norm(okc[0]))
        else:
            r.bad(m, 'ComponentLevel2._elaborate_read_write_func', 'extract_obj_from_names(..., update_ff=...)',
                  "write sets of update_ff blocks are not analysed with update_ff=True", top.lineno)
    # writes hidden in helper functions (@s.func) called from an update_ff block: the fold in _collect_vars.dfs must mark them too
    cv = l2.get_func('ComponentLevel2._collect_vars')
    dfs = [x for x in ast.walk(cv) if isinstance(x, ast.FunctionDef) and x.name == 'dfs']
    if len(dfs) != 1:
        raise AnalysisError("anchor vanished: ComponentLevel2._collect_vars.dfs")
    helper = [(m, n) for m, n in trues if m.rel == L2 and any(x is n for x in ast.walk(dfs[0]))]
    cons = "signals written by a function called from an update_ff block are marked"
    FNH = 'ComponentLevel2._collect_vars.dfs'
    if len(helper) != 1:
        r.bad(l2, FNH, cons, "a `<<=` inside an @s.func helper called from an update_ff block is never committed: the written signal is "
              "not marked for double buffering, so it gets no _flip()", dfs[0].lineno)
    else:
        m, n = helper[0]
        gs = guards_of(n, stop=dfs[0])
        loops = [g for g in gs if g.kind == 'loop']
        u = dfs[0].args.args[0].arg
        ok_loop = loops and norm(loops[0].node.iter) == f"m._dsl.func_writes[{u}]"
        ok_ff = any(g.kind == 'if' and g.polarity and norm(g.test) in ('blk in m._dsl.update_ff', 'blk in s._dsl.all_update_ff') for g in gs)
        others = [g for g in gs if g.kind in ('if', 'exit') and norm(g.test) not in ('blk in m._dsl.update_ff', 'blk in s._dsl.all_update_ff',
                                                                                   f"{u} not in m._dsl.func_reads")]
        xs = norm(n.targets[0].value.value)
        allowed = {f"isinstance({xs}, Signal) and {xs}.is_top_level_signal()", f"isinstance({xs}, Signal)", f"{xs}.is_top_level_signal()"}
        extra = [g for g in others if not (g.polarity and norm(g.test) in allowed)]
        if ok_loop and ok_ff and not extra:
            r.ok(l2, FNH, cons)
        else:
            r.bad(l2, FNH, cons, "the marking of helper-function writes does not cover every top-level signal written by a function reachable "
                  "from an update_ff block", n.lineno)
    for m, n in trues:
        if (m, n) not in mine and (m, n) not in helper:
            r.ok(m, qualname(n), norm(n), nontrivial=False, note="additional marker")
    r.require_floor(2)
    return r


def _covers_all(loop, action_pred):
    """every iteration of `loop` executes a statement satisfying action_pred on every path"""
    def escapes(s, in_loop=False):
        if isinstance(s, (ast.FunctionDef, ast.ClassDef, ast.Lambda)):
            return False
        if isinstance(s, ast.Return):
            return True
        if isinstance(s, (ast.Continue, ast.Break)):
            return not in_loop          # inside a nested loop they only leave that loop
        nested = in_loop or isinstance(s, (ast.For, ast.While))
        return any(escapes(ch, nested) for ch in ast.iter_child_nodes(s))

    def must(stmts):
        for s in stmts:
            if action_pred(s):
                return True
            if isinstance(s, ast.If) and s.orelse and must(s.body) and must(s.orelse):
                return True
            if escapes(s):
                return False        # some path leaves the iteration before the action
        return False
    return must(loop.body)


def rule_flip_cover(repo):
    r = RuleResult('R-C07-flip-cover', "every double-buffered signal gets exactly one _flip() call in the edge function")
    m = repo.mod(SIMPLE)
    f = m.get_func('SimpleSchedulePass.schedule_posedge_flip')
    loops = [s for s in f.body if isinstance(s, ast.For)]
    if len(loops) < 2:
        raise AnalysisError("schedule_posedge_flip: expected the collecting and the emitting loop")
    first, emit = loops[0], loops[-1]
    # (a) collecting loop: all signals, only filter needs_double_buffer
    it = first.iter
    while isinstance(it, ast.Call) and norm(it.func) in ('reversed', 'sorted', 'list'):
        it = it.args[0]
    ok = norm(it) == 'top._dsl.all_signals'
    body = first.body
    cons = norm(first)[:120]
    if ok and len(body) == 1 and isinstance(body[0], ast.If) and not body[0].orelse and \
            norm(body[0].test) == f"{norm(first.target)}._dsl.needs_double_buffer" and len(body[0].body) == 1 and \
            norm(body[0].body[0]).endswith(f".append({norm(first.target)})"):
        r.ok(m, 'SimpleSchedulePass.schedule_posedge_flip', cons)
    else:
        r.bad(m, 'SimpleSchedulePass.schedule_posedge_flip', cons, "the flip list must be built from ALL signals filtered only by "
              "needs_double_buffer: a marked signal that is skipped never commits its <<= value", first.lineno)
    # (b) regrouping loop
    wh = [s for s in f.body if isinstance(s, ast.While)]
    if len(wh) != 1:
        raise AnalysisError("schedule_posedge_flip: regrouping loop not found")
    inner = [n for n in wh[0].body if isinstance(n, ast.For)]
    if len(inner) != 1:
        raise AnalysisError("schedule_posedge_flip: regrouping loop shape")
    lp = inner[0]
    yv = norm(lp.target.elts[1])

    def moves_all(s):
        if isinstance(s, ast.Expr) and isinstance(s.value, ast.Call) and isinstance(s.value.func, ast.Attribute):
            a = [norm(x) for x in s.value.args]
            if s.value.func.attr == 'extend' and a == [yv]:
                return True
            if s.value.func.attr == 'append' and a == [f"{yv}[0]"]:
                # only sound where len(y) == 1 (buckets are non-empty): the guards of this statement, evaluated over
                # len(y) in {1,2,3} and every valuation of the other atoms, must imply len(y) == 1
                from sa.minieval import Evaluator
                gs = [g for g in guards_of(s) if g.kind == 'if' and any(x is g.node for x in ast.walk(lp))]
                if not gs:
                    return False
                atoms = sorted({norm(n) for g in gs for n in ast.walk(g.test) if isinstance(n, ast.Compare) and f"len({yv})" not in norm(n)})
                import itertools
                for n_len in (1, 2, 3):
                    for vals in itertools.product((False, True), repeat=len(atoms)):
                        val = dict(zip(atoms, vals))

                        def leaf(e, n_len=n_len, val=val):
                            if isinstance(e, ast.Call) and norm(e) == f"len({yv})":
                                return n_len
                            if isinstance(e, ast.Compare) and norm(e) in val:
                                return val[norm(e)]
                            return NotImplemented
                        holds = all(bool(Evaluator({}, arith=False, leaf=leaf).ev(g.test)) == g.polarity for g in gs)
                        if holds and n_len != 1:
                            return False
                return True
        return False
    if _covers_all(lp, moves_all) and norm(lp.iter).endswith('.items()'):
        r.ok(m, 'SimpleSchedulePass.schedule_posedge_flip', 'regrouping moves every bucket completely')
    else:
        r.bad(m, 'SimpleSchedulePass.schedule_posedge_flip', norm(lp)[:120], "regrouping drops signals from a bucket", lp.lineno)
    # (c) emission of the `_flip()` lines: decided by R-C07-flip-codegen, which runs the emitting code and parses its output (the
    #     shape-matching clause that used to sit here flagged a loop rewritten as `extend(comprehension)`, RF37-1)
    # (d) the emitted lines are compiled and installed as the flip schedule
    txt = norm(f)
    lines = [s for s in ast.walk(f) if isinstance(s, ast.Assign) and norm(s.targets[0]) == 'lines']
    ok = bool(lines) and 'strs' in norm(lines[0].value)
    inst = [s for s in ast.walk(f) if isinstance(s, ast.Assign) and norm(s.targets[0]) == 'top._sched.schedule_posedge_flip']
    ok = ok and len(inst) == 2 and any("compile_double_buffer" in norm(s.value) for s in inst)
    gs = [g for s in inst for g in guards_of(s) if g.kind == 'if'] if ok else []
    ok = ok and all(norm(g.test) == 'strs' for g in gs)
    (r.ok if ok else r.bad)(m, 'SimpleSchedulePass.schedule_posedge_flip', 'compiled double_buffer() installed as schedule_posedge_flip',
                            *([] if ok else ["the generated flip function is not installed as the flip schedule", f.lineno]))
    # (e) reuse by the other schedulers
    mm = repo.mod(MAMBA)
    call = mm.get_func('Mamba2020Pass.__call__')
    reuse = [n for n in ast.walk(call) if isinstance(n, ast.Call) and norm(n.func).endswith('.schedule_posedge_flip') and [norm(a) for a in n.args] == ['top']]
    (r.ok if reuse else r.bad)(mm, 'Mamba2020Pass.__call__', 'simple.schedule_posedge_flip(top)',
                               *([] if reuse else ["Mamba2020Pass no longer builds the flip schedule", call.lineno]))
    sc = m.get_func('SimpleSchedulePass.__call__')
    order = [norm(n.func).split('.')[-1] for n in ast.walk(sc) if isinstance(n, ast.Call) and norm(n.func).startswith('self.schedule_')]
    ok = {'schedule_intra_cycle', 'schedule_ff', 'schedule_posedge_flip'} <= set(order)
    (r.ok if ok else r.bad)(m, 'SimpleSchedulePass.__call__', ', '.join(order),
                            *([] if ok else ["the pass must build the comb schedule, the ff schedule and the flip schedule", sc.lineno]))
    for drel, dname in (('pymtl3/passes/sim/DynamicSchedulePass.py', 'DynamicSchedulePass'),
                        ('pymtl3/passes/mamba/HeuristicTopoPass.py', 'HeuristicTopoPass')):
      dm = repo.mod(drel)
      dc = dm.get_class(dname)
      dcall = repo.lookup_method(dm, dc, '__call__')
      for meth in ('schedule_ff', 'schedule_posedge_flip'):
          hit = repo.lookup_method(dm, dc, meth)
          okk = hit is not None and hit[0].rel == SIMPLE and any(
              isinstance(n, ast.Call) and norm(n.func) == f'self.{meth}' for n in ast.walk(dcall[2]))
          if not okk:
              # or: called on a SimpleSchedulePass instance created in __call__
              inst = {norm(s.targets[0]) for s in ast.walk(dcall[2]) if isinstance(s, ast.Assign) and isinstance(s.value, ast.Call)
                      and norm(s.value.func) == 'SimpleSchedulePass'}
              okk = any(isinstance(n, ast.Call) and isinstance(n.func, ast.Attribute) and n.func.attr == meth and
                        norm(n.func.value) in inst and [norm(a) for a in n.args] == ['top'] and
                        not [g for g in guards_of(n) if g.kind in ('if', 'loop', 'except')]
                        for n in ast.walk(dcall[2]))
          (r.ok if okk else r.bad)(dm, f'{dname}.__call__', f"{meth} of SimpleSchedulePass is applied",
                                   *([] if okk else [f"{dname} does not build {meth} with SimpleSchedulePass", dc.lineno]))
    r.require_floor(9)
    return r


def rule_flip_codegen(repo):
    """the flip function is generated text: the generator is run (concretely, sa/listwalk.py) on small register layouts with
    adversarial names, the text it produces is parsed, and the parsed function is interpreted symbolically: which object does
    every `<...>._flip()` line reach?"""
    r = RuleResult('R-C07-flip-codegen', "the generated flip function flips every double-buffered signal of the design exactly once, through names that "
                                         "denote that signal's own host; the design it works on is bound per generated function (a closure "
                                         "parameter), never stored in a namespace shared by all simulators of the process")
    from sa.listwalk import ListWalk
    m = repo.mod(SIMPLE)
    fq = 'SimpleSchedulePass.schedule_posedge_flip'
    f = m.get_func(fq)
    wh = [i for i, st in enumerate(f.body) if isinstance(st, ast.While)]
    if len(wh) != 1:
        raise AnalysisError(f"{fq}: regrouping loop not found")
    tail = f.body[wh[0] + 1:]
    top_param = f.args.args[1].arg

    from sa.listwalk import Model

    class Obj_(Model):
        def __init__(self, name, parent=None):
            self.name, self.parent = name, parent
        def __repr__(self):
            return self.name
        def get_parent_object(self):
            return self.parent

    layouts = {
        'one host with two registers, top with two': lambda T: {('s.a',): ['s.a.r0', 's.a.r1'], (): ['s.p', 's.q']},
        'two hosts whose names differ only in . / _ (s.a.b and s.a_b)': lambda T: {('s.a.b',): ['s.a.b.r0', 's.a.b.r1'], ('s.a_b',): ['s.a_b.r0', 's.a_b.r1']},
        'list element hosts s.c[0], s.c[1] and s.c_0': lambda T: {('s.c[0]',): ['s.c[0].x', 's.c[0].y'], ('s.c[1]',): ['s.c[1].x', 's.c[1].y'],
                                                                ('s.c_0',): ['s.c_0.x', 's.c_0.y']},
        'single registers bubbled up to top': lambda T: {(): ['s.u.r', 's.v.w.r', 's.z']},
        'a host with one register (kept by the regrouping when it is top only)': lambda T: {('s.h',): ['s.h.only', 's.h.other'], (): ['s.t']},
    }
    for label, mk in layouts.items():
        T = Obj_('s')
        groups = mk(T)
        hs = {}
        want = []
        for hk, sigs in groups.items():
            host = T if hk == () else Obj_(hk[0], T)
            hs[host] = [Obj_(n, host) for n in sigs]
            want += sigs
        captured = {}

        def custom_exec(src, g, l, captured=captured):
            captured['src'], captured['g'], captured['l'] = src, g, l
            try:
                tree = ast.parse(src)
            except SyntaxError as e:
                captured['syntax'] = str(e)
                return
            for st in tree.body:
                if isinstance(st, ast.FunctionDef):
                    l[st.name] = (lambda *a, _n=st.name: ('call', _n, a))
        G = {'__shared_module_globals__': True}
        env = {'hostobj_signals': hs, top_param: T, f"{top_param}._sched.schedule_posedge_flip": None, 'linecache.cache': {}}
        w = ListWalk(set(), env=env, budget=20000,
                     funcs={'locals': lambda: {}, 'globals': lambda: G, 'custom_exec': custom_exec,
                            'compile': lambda src, *a, **k: src, 'exec': custom_exec})
        try:
            w.block(tail)
        except AnalysisError as e:
            raise AnalysisError(f"{fq}: {e}")
        except Exception as e:          # noqa: BLE001
            r.bad(m, fq, f"generator run on: {label}", f"the generator raises {e.__class__.__name__}: {e}", f.lineno)
            continue
        r.evaluations += 1
        cons = f"generated flip function for: {label}"
        if 'src' not in captured:
            r.bad(m, fq, cons, "no source text was compiled although registers exist", f.lineno)
            continue
        if 'syntax' in captured:
            r.bad(m, fq, cons, f"the generated text does not parse: {captured['syntax']}", f.lineno)
            continue
        leaked = [k for k, v in G.items() if v is T]
        if leaked:
            r.bad(m, fq, cons, f"the design is stored as `{leaked[0]}` in the module globals handed to exec: that dict is shared by every simulator of the "
                  f"process, so each flip function flips the registers of the design scheduled LAST and the earlier designs never commit", f.lineno)
            continue
        installed = w.env[f"{top_param}._sched.schedule_posedge_flip"]
        tree = ast.parse(captured['src'])
        # symbolic interpretation of the generated module: def F(params): <bindings>; def inner(): <bindings / flips>; return inner
        flips, problems = [], []

        def run(body, env_, params_bound):
            for st in body:
                if isinstance(st, ast.FunctionDef):
                    run(st.body, dict(env_), params_bound | {a.arg for a in st.args.args})
                elif isinstance(st, ast.Assign) and len(st.targets) == 1 and isinstance(st.targets[0], ast.Name):
                    env_[st.targets[0].id] = resolve(st.value, env_, params_bound)
                elif isinstance(st, ast.Expr) and isinstance(st.value, ast.Call) and isinstance(st.value.func, ast.Attribute) \
                        and st.value.func.attr == '_flip' and not st.value.args:
                    flips.append(resolve(st.value.func.value, env_, params_bound))
                elif isinstance(st, (ast.Return, ast.Pass)):
                    pass
                else:
                    problems.append(f"statement `{norm(st)[:60]}` in the generated text")

        def resolve(e, env_, params_bound):
            t = norm(e)
            root = t.split('.')[0].split('[')[0]
            if root in env_:
                return env_[root] + t[len(root):]
            if root in params_bound:
                return 's' + t[len(root):]       # the closure parameter stands for the design
            problems.append(f"`{root}` is neither a parameter of an enclosing generated function nor assigned in the generated text "
                            f"(a global: shared by all simulators)")
            return t
        # two-phase: hoisted bindings of the outer function are all executed before the inner function runs
        outer = [st for st in tree.body if isinstance(st, ast.FunctionDef)]
        if len(outer) != 1:
            problems.append(f"{len(outer)} top-level functions in the generated text")
        else:
            o = outer[0]
            pb = {a.arg for a in o.args.args}
            env_o = {}
            for st in o.body:
                if isinstance(st, ast.Assign) and len(st.targets) == 1 and isinstance(st.targets[0], ast.Name):
                    env_o[st.targets[0].id] = resolve(st.value, env_o, pb)
            inner = [st for st in o.body if isinstance(st, ast.FunctionDef)]
            if inner:
                for st in inner:
                    run(st.body, dict(env_o), pb | {a.arg for a in st.args.args})
            else:
                run([st for st in o.body if not isinstance(st, ast.Assign)], dict(env_o), pb)
            called_with_design = isinstance(installed, list) and len(installed) == 1 and (
                (isinstance(installed[0], tuple) and installed[0][0] == 'call' and any(a is T for a in installed[0][2])) or callable(installed[0]))
            if pb and not (isinstance(installed, list) and len(installed) == 1 and isinstance(installed[0], tuple) and any(a is T for a in installed[0][2])):
                problems.append("the generated outer function takes the design as a parameter but is not called with it")
            if not pb and not problems and any(x.startswith('s') for x in flips) is False:
                pass
        if problems:
            r.bad(m, fq, cons, problems[0], f.lineno)
            continue
        if sorted(flips) != sorted(want):
            missing = sorted(set(want) - set(flips))
            extra = sorted(x for x in flips if flips.count(x) > 1 or x not in want)
            r.bad(m, fq, cons, f"the generated function flips {sorted(flips)}; the registers are {sorted(want)}"
                  + (f": {missing} never commit their <<= value" if missing else '')
                  + (f"; {sorted(set(extra))} flipped twice / not a register" if extra else '')
                  + " (two hosts whose names map to the same generated identifier share one variable)", f.lineno)
            continue
        r.ok(m, fq, cons)
    r.require_floor(5)
    return r


def rule_init(repo):
    r = RuleResult('R-C07-init', "a double-buffered signal's pending value exists (equals its initial value) before the first edge")
    m = repo.mod(PREP)
    f = m.get_func('PrepareSimPass.create_lock_unlock_simulation.lock_in_simulation')
    sites = [n for n in ast.walk(f) if isinstance(n, ast.Assign) and isinstance(n.value, ast.Call)
             and norm(n.value.func).endswith('.default_value')]
    if len(sites) < 2:
        raise AnalysisError("lock_in_simulation: expected the list-element and the attribute branch")
    for a in sites:
        val = norm(a.targets[0])
        obj = norm(a.value.func.value)
        blk = parent(a)
        sibs = getattr(blk, 'body', [])
        idx = [i for i, x in enumerate(sibs) if x is a]
        after = sibs[idx[0] + 1:] if idx else []
        init = [s for s in after if isinstance(s, ast.If) and norm(s.test) == f"{obj}._dsl.needs_double_buffer" and
                any(isinstance(x, ast.AugAssign) and isinstance(x.op, ast.LShift) and norm(x.target) == val and norm(x.value) == val
                    for x in s.body)]
        # the value must be installed after the init, in the same branch
        t = enclosing(a, (ast.Try,))
        follow = preceding_stmts(a)  # unused
        branch = enclosing(a, (ast.If,))
        inst = [s for s in ast.walk(branch) if (isinstance(s, ast.Assign) and norm(s.value) == val and 'signal_object_mapping' not in norm(s.targets[0]))
                or (isinstance(s, ast.Expr) and isinstance(s.value, ast.Call) and norm(s.value.func) == 'setattr' and norm(s.value.args[-1]) == val)]
        cons = f"{val} = {obj}.default_value(); if needs_double_buffer: {val} <<= {val}"
        if init and inst:
            r.ok(m, 'PrepareSimPass.create_lock_unlock_simulation.lock_in_simulation', cons)
        else:
            r.bad(m, 'PrepareSimPass.create_lock_unlock_simulation.lock_in_simulation', norm(a),
                  "a register's _next is not initialised (value <<= value) before the value object is installed: the first "
                  "_flip raises AttributeError / commits garbage for registers not assigned in the first cycle", a.lineno)
    r.require_floor(2)
    return r


def rule_ffset(repo):
    r = RuleResult('R-C07-ffset', "every update_ff block is scheduled exactly once per edge")
    m = repo.mod(SIMPLE)
    f = m.get_func('SimpleSchedulePass.schedule_ff')
    a = [s for s in ast.walk(f) if isinstance(s, ast.Assign) and norm(s.targets[0]) == 'top._sched.schedule_ff']
    ok = len(a) == 1 and norm(a[0].value) in ('list(top.get_all_update_ff().copy())', 'list(top.get_all_update_ff())',
                                              'sorted(top.get_all_update_ff(), key=repr)')
    (r.ok if ok else r.bad)(m, 'SimpleSchedulePass.schedule_ff', norm(a[0]) if a else '',
                            *([] if ok else ["schedule_ff must contain all update_ff blocks once", f.lineno]))
    mm = repo.mod(MAMBA)
    f = mm.get_func('Mamba2020Pass.schedule_ff')
    loops = [s for s in f.body if isinstance(s, ast.For)]
    comp = [s for s in f.body if isinstance(s, ast.Assign) and norm(s.targets[0]) == 'ffs' and isinstance(s.value, ast.ListComp)]
    if len(loops) == 2 and not comp:
        col, part = loops
        ok = norm(col.iter) == 'top.get_all_update_ff()' and _covers_all(
            col, lambda s: isinstance(s, ast.Expr) and isinstance(s.value, ast.Call) and norm(s.value.func) == 'ffs.append'
            and norm(col.target) in norm(s.value.args[0]))
        at = col
    elif len(loops) == 1 and len(comp) == 1:
        # the collection written as one comprehension: every block of the design-wide set, no filter, the block in the tuple
        part, lc = loops[0], comp[0].value
        g = lc.generators
        ok = len(g) == 1 and not g[0].ifs and norm(g[0].iter) == 'top.get_all_update_ff()' and \
            any(isinstance(e, ast.Name) and e.id == norm(g[0].target) for e in ast.walk(lc.elt))
        at = comp[0]
    else:
        raise AnalysisError("Mamba2020Pass.schedule_ff: expected the collection of the ff blocks (loop or comprehension) and the partition loop")
    (r.ok if ok else r.bad)(mm, 'Mamba2020Pass.schedule_ff', 'collect all update_ff blocks',
                            *([] if ok else ["some update_ff blocks are not collected", at.lineno]))
    it = part.iter
    if isinstance(it, ast.Call) and norm(it.func) == 'enumerate':
        it = it.args[0]
    blkv = [norm(e) for e in ast.walk(part.target) if isinstance(e, ast.Name)][-1]
    ok = norm(it) == 'ffs' and _covers_all(
        part, lambda s: isinstance(s, ast.Expr) and isinstance(s.value, ast.Call) and norm(s.value.func) == 'cur_meta.append'
        and [norm(x) for x in s.value.args] == [blkv])
    # flush: schedule.append(compile_meta_block(cur_meta)) precedes every reset of cur_meta; tail flush exists
    resets = [s for s in ast.walk(part) if isinstance(s, ast.Assign) and any(norm(t) == 'cur_meta' for t in s.targets)]
    for rs in resets:
        prev = preceding_stmts(rs)
        if not any('schedule.append(self.compile_meta_block(cur_meta))' == norm(p) for p in prev[-3:]):
            ok = False
    tail = [s for s in f.body if isinstance(s, ast.If) and norm(s.test) == 'cur_meta' and
            any(norm(x) == 'schedule.append(self.compile_meta_block(cur_meta))' for x in s.body)]
    ok = ok and bool(tail) and f.body.index(tail[0]) > f.body.index(part)
    srt = [s for s in f.body if isinstance(s, ast.Assign) and norm(s.targets[0]) == 'ffs' and 'sorted(ffs' in norm(s.value)]
    (r.ok if ok else r.bad)(mm, 'Mamba2020Pass.schedule_ff', 'partition into meta blocks (every block appended, every meta block flushed, tail flushed)',
                            *([] if ok else ["an update_ff block can be dropped from the ff schedule (not appended / meta block not flushed)", part.lineno]))
    bind = [s for s in ast.walk(f) if isinstance(s, ast.Assign) and any(norm(t) == 'top._sched.schedule_ff' for t in s.targets)]
    ok = len(bind) == 1 and any(norm(t) == 'schedule' for t in bind[0].targets)
    (r.ok if ok else r.bad)(mm, 'Mamba2020Pass.schedule_ff', 'top._sched.schedule_ff is the list being filled',
                            *([] if ok else ["the filled list is not installed as schedule_ff", f.lineno]))
    # compile_meta_block calls every block once, in order
    g = mm.get_func('Mamba2020Pass.compile_meta_block')
    lp = [s for s in g.body if isinstance(s, ast.For)]
    ok = len(lp) == 1 and norm(lp[0].iter) == 'enumerate(blocks)'
    if ok:
        iv = norm(lp[0].target.elts[0])
        ok = _covers_all(lp[0], lambda s: isinstance(s, ast.Expr) and isinstance(s.value, ast.Call) and norm(s.value.func) == 'blk_srcs.append'
                         and isinstance(s.value.args[0], ast.JoinedStr) and
                         ''.join(v.value if isinstance(v, ast.Constant) else '{' + norm(v.value) + '}' for v in s.value.args[0].values).startswith('blk{' + iv + '}()'))
        gl = [s for s in g.body if isinstance(s, ast.Assign) and norm(s.targets[0]) == '_globals']
        ok = ok and gl and isinstance(gl[0].value, ast.DictComp) and norm(gl[0].value.generators[0].iter) == 'enumerate(blocks)' \
            and not gl[0].value.generators[0].ifs
    (r.ok if ok else r.bad)(mm, 'Mamba2020Pass.compile_meta_block', 'blk{i}() for i, b in enumerate(blocks)',
                            *([] if ok else ["a meta block must call each of its blocks once, in order", g.lineno]))
    r.require_floor(5)
    return r


def rule_design_wide(repo):
    r = RuleResult('R-C07-design-wide', "whatever is decided once for the whole design (scheduling of the ff blocks, the checks run at the "
                                        "elaborated top) reads the design-wide tables, never the top component's own")
    # a simulation pass sees the design through the design-wide accessors of the top component: the component-local sibling of
    # such an accessor (same table without the all_ prefix) only holds the top component's own blocks.  The sibling pairs are
    # derived from Component.py (get_X returns s._dsl.T, get_all_X returns s._dsl.all_T).
    cm = repo.mod('pymtl3/dsl/Component.py')
    ret_tab = {}
    for name, g in cm.methods('Component').items():
        rets = [x for x in ast.walk(g) if isinstance(x, ast.Return) and x.value is not None]
        tabs = set()
        for x in rets:
            for e in (x.value.elts if isinstance(x.value, ast.Tuple) else [x.value]):
                if isinstance(e, ast.Attribute) and norm(e.value) == 's._dsl':
                    tabs.add(e.attr)
        if tabs:
            ret_tab[name] = tabs
    local_of = {}
    for name, tabs in ret_tab.items():
        if all(t.startswith('all_') for t in tabs):
            for other, otabs in ret_tab.items():
                if otabs == {t[4:] for t in tabs}:
                    local_of[other] = name
    if not {'get_update_ff', 'get_update_blocks'} <= set(local_of):
        raise AnalysisError(f"Component.py: local / design-wide accessor pairs were not derived ({sorted(local_of)})")
    n_calls = 0
    for rel in sorted(x for sub in ('pymtl3/passes/sim', 'pymtl3/passes/mamba', 'pymtl3/passes/autotick', 'pymtl3/passes/tracing')
                      for x in repo.py_files(sub)):
        pm = repo.mod(rel)
        for c in ast.walk(pm.tree):
            if isinstance(c, ast.Call) and isinstance(c.func, ast.Attribute) and norm(c.func.value) == 'top' and \
                    (c.func.attr in local_of or c.func.attr in local_of.values()):
                n_calls += 1
                fq = qualname(enclosing_func(c)) if enclosing_func(c) is not None else '<module>'
                cons = f"top.{c.func.attr}() in {fq}"
                if c.func.attr in local_of:
                    r.bad(pm, fq, cons, f"`top.{c.func.attr}()` only returns the blocks the top component defines itself; the pass must ask for the whole "
                          f"design (`top.{local_of[c.func.attr]}()`): with a structural top whose registers / blocks live in sub-components the "
                          f"test or loop built on it sees nothing", c.lineno)
                else:
                    r.ok(pm, fq, cons)
    if n_calls < 8:
        raise AnalysisError(f"accessor calls on `top` in the simulation passes: found {n_calls}, expected at least 8")
    # the checks elaborate() runs once at the top (_check_valid_dsl_code and what it calls) must look at every block of the design:
    # a table s._dsl.T that has a design-wide sibling s._dsl.all_T must not be what they iterate / look up
    n_chk = 0
    levels = [(f'pymtl3/dsl/ComponentLevel{k}.py', f'ComponentLevel{k}') for k in range(1, 8)]
    levels = [(rel, cls) for rel, cls in levels if repo.exists(rel)]
    all_wide = {t.attr for rel, cls in levels for g in repo.mod(rel).methods(cls).values() for a_ in ast.walk(g) if isinstance(a_, ast.Assign)
                for t in a_.targets if isinstance(t, ast.Attribute) and norm(t.value) == 's._dsl' and t.attr.startswith('all_')}
    for rel, cls in levels:
        dm = repo.mod(rel)
        meths = dm.methods(cls)
        if '_check_valid_dsl_code' not in meths:
            continue
        todo, seen = ['_check_valid_dsl_code'], set()
        while todo:
            nm = todo.pop()
            if nm in seen or nm not in meths:
                continue
            seen.add(nm)
            for c in ast.walk(meths[nm]):
                if isinstance(c, ast.Call) and isinstance(c.func, ast.Attribute) and norm(c.func.value) == 's' and c.func.attr in meths:
                    todo.append(c.func.attr)
        for nm in sorted(seen - {'_check_valid_dsl_code'}):
            g = meths[nm]
            for a_ in ast.walk(g):
                if isinstance(a_, ast.Attribute) and norm(a_.value) == 's._dsl' and isinstance(a_.ctx, ast.Load):
                    if a_.attr.startswith('all_'):
                        n_chk += 1
                        r.ok(dm, f"{cls}.{nm}", f"{nm} reads s._dsl.{a_.attr}", nontrivial=False)
                    elif 'all_' + a_.attr in all_wide:
                        n_chk += 1
                        r.bad(dm, f"{cls}.{nm}", f"{nm} reads s._dsl.{a_.attr}",
                              f"`s._dsl.{a_.attr}` holds only what the top component defines itself; the check runs once at the elaborated top and "
                              f"must read `s._dsl.all_{a_.attr}`: a violation inside a sub-component (two update_ff blocks writing one register, "
                              f"a write to another component's wire) is otherwise never reported", a_.lineno)
    if n_chk < 3:
        raise AnalysisError(f"design-wide tables read by the elaboration checks: found {n_chk}, expected at least 3")
    r.require_floor(11)
    return r


OPENLOOP = 'pymtl3/passes/autotick/OpenLoopCLPass.py'


def rule_openloop_advance(repo):
    """open-loop (method-driven) simulation: a method call that belongs to a later cycle first finishes the current one.  The
    wrapper is evaluated concretely on small schedules: finishing the cycle runs EVERY remaining entry (the update_ff blocks and
    the register flip are the last ones), then the new cycle runs up to the method's own position."""
    r = RuleResult('R-C07-openloop-advance', "a wrapped top-level method finishes the current cycle completely (every remaining schedule entry, "
                                             "flip included), counts it, then runs the new cycle up to its own position -- each entry exactly once")
    from sa.listwalk import ListWalk
    m = repo.mod(OPENLOOP)
    outer = m.get_func('OpenLoopCLPass.schedule_with_top_level_callee')
    wraps = [n for n in ast.walk(outer) if isinstance(n, ast.FunctionDef) and n.name == 'wrap_method']
    if len(wraps) != 1:
        raise AnalysisError("anchor vanished: OpenLoopCLPass wrap_method")
    inner = [n for n in wraps[0].body if isinstance(n, ast.FunctionDef)]
    if len(inner) != 1:
        raise AnalysisError("wrap_method: expected one nested function")
    act = inner[0]
    params = [a.arg for a in wraps[0].args.args]
    if params != ['top', 'method', 'my_idx_new', 'schedule_no_method', 'my_idx_orig']:
        raise AnalysisError(f"wrap_method: unexpected parameters {params}")
    fq = 'OpenLoopCLPass.schedule_with_top_level_callee.wrap_method.actual_method'
    for K in (2, 3, 4):
        for my_new in range(K):
            for my_orig in (0, 2):
                for i0 in range(K + 1):
                    for j0 in (0, my_orig, my_orig + 1, my_orig + 3):
                        advance = j0 > my_orig
                        if not advance and i0 > my_new:
                            continue            # not reachable: within one cycle the position never passes a method still to come
                        log = []
                        mk = lambda k: (lambda: log.append(k))
                        env = {'schedule_no_method': [mk(k) for k in range(K)], 'my_idx_new': my_new, 'my_idx_orig': my_orig,
                               'method': (lambda *a: log.append('M')), 'top._sched.new_schedule_index': i0,
                               'top._sched.orig_schedule_index': j0, 'top._sim.simulated_cycles': 0}
                        w = ListWalk(set(), env=env, budget=5000)
                        try:
                            w.block([s_ for s_ in act.body if not (isinstance(s_, ast.Expr) and isinstance(s_.value, ast.Constant))])
                        except Exception as e:       # noqa: BLE001
                            if e.__class__.__name__ == '_Return':
                                pass
                            elif isinstance(e, AnalysisError):
                                raise AnalysisError(f"{fq}: {e}")
                            else:
                                log.append(f"raises {e.__class__.__name__}")
                        want = (list(range(i0, K)) + list(range(0, my_new)) if advance else list(range(i0, my_new))) + ['M']
                        cyc = w.env['top._sim.simulated_cycles']
                        ok = log == want and cyc == (1 if advance else 0) and w.env['top._sched.new_schedule_index'] == my_new \
                            and w.env['top._sched.orig_schedule_index'] == my_orig + 1
                        cons = f"schedule of {K}, method before entry {my_new} (original position {my_orig}), called at position {i0} / original {j0}"
                        if ok:
                            r.ok(m, fq, cons)
                            r.evaluations += 1
                        elif len(r.findings) < 2:          # the first two failing configurations tell the story
                            r.bad(m, fq, cons, f"runs {log} and counts {cyc} cycle(s); expected {want} and {1 if advance else 0}: "
                                  + ("the current cycle is not finished completely -- its last entries are the update_ff blocks and the register "
                                     "flip, so registers never take their value when a method call advances the cycle" if advance and len(log) < len(want)
                                     else "an entry is run twice, skipped or run out of order"), act.lineno)
    r.require_floor(100)
    return r


def rule_meta_block_codegen(repo):
    """a Mamba meta block is generated text: run the generator on small block lists, parse what it emits and see which blocks the
    emitted function calls"""
    r = RuleResult('R-C07-meta-block-codegen', "the function generated for a meta block calls every block of the meta block exactly once, in order "
                                               "(whatever comments or separators the generator puts into the text)")
    from sa.listwalk import ListWalk, Model
    mm = repo.mod(MAMBA)
    fq = 'Mamba2020Pass.compile_meta_block'
    g = mm.get_func(fq)
    params = [a.arg for a in g.args.args]
    if len(params) != 2:
        raise AnalysisError(f"{fq}: expected (self, blocks)")
    me, BL = params
    for n_blk in (1, 2, 3):
        for scc_pos in [None] + sorted({0, n_blk - 1}):
            blocks = [Model(__name__=f"up_{k}") for k in range(n_blk)]
            plain = [b for k, b in enumerate(blocks) if k != scc_pos]
            captured = {}

            def custom_exec(code, gl, lo, captured=captured):
                captured['src'], captured['g'] = code, dict(gl)
                try:
                    tree = ast.parse(code)
                except SyntaxError as e:
                    captured['syntax'] = str(e)
                    return
                for st in tree.body:
                    if isinstance(st, ast.FunctionDef):
                        lo[st.name] = Model(__code__=None, tree=st)
            env = {BL: blocks, f"{me}.meta_block_id": 7, f"{me}.branchiness": {b: 3 for b in plain}, f"{me}.only_loop_at_top": {b: False for b in plain},
                   '_DEBUG': False, 'py.code.Source': (lambda src: Model(compile=lambda: src))}
            w = ListWalk(set(), env=env, budget=5000, funcs={'custom_exec': custom_exec, 'exec': custom_exec, 'compile': lambda src, *a, **k: src})
            ret = None
            try:
                w.block([st for st in g.body if not (isinstance(st, ast.Expr) and isinstance(st.value, ast.Constant))])
            except AnalysisError as e:
                raise AnalysisError(f"{fq}: {e}")
            except Exception as e:          # noqa: BLE001
                if e.__class__.__name__ == '_Return':
                    ret = e.v
                else:
                    r.bad(mm, fq, f"meta block of {n_blk} block(s)", f"the generator raises {e.__class__.__name__}: {e}", g.lineno)
                    continue
            r.evaluations += 1
            cons = f"meta block of {n_blk} block(s)" + ('' if scc_pos is None else f", block {scc_pos} a compiled SCC")
            if 'src' not in captured:
                r.bad(mm, fq, cons, "nothing was compiled", g.lineno)
                continue
            if 'syntax' in captured:
                r.bad(mm, fq, cons, f"the generated text does not parse: {captured['syntax']}", g.lineno)
                continue
            fn = ret.tree if isinstance(ret, Model) and hasattr(ret, 'tree') else None
            if fn is None:
                r.bad(mm, fq, cons, "the compiled function is not what is returned", g.lineno)
                continue
            called = []
            odd = [norm(st)[:50] for st in fn.body if not (isinstance(st, ast.Expr) and isinstance(st.value, ast.Call) and isinstance(st.value.func, ast.Name)
                                                        and not st.value.args) and not isinstance(st, ast.Pass)]
            for st in fn.body:
                if isinstance(st, ast.Expr) and isinstance(st.value, ast.Call) and isinstance(st.value.func, ast.Name):
                    called.append(captured['g'].get(st.value.func.id))
            ok = not odd and len(called) == len(blocks) and all(a is b for a, b in zip(called, blocks))
            if ok:
                r.ok(mm, fq, cons)
            elif len(r.findings) < 2:
                names = [getattr(c, '__name__', '?') for c in called]
                r.bad(mm, fq, cons, f"the generated function calls {names}; the meta block is {[b.__name__ for b in blocks]}: the blocks that are not called never "
                      f"run (for update_ff meta blocks: those registers are never clocked or reset). Generated text: {captured['src']!r}", g.lineno)
    r.require_floor(8)
    return r


def rule_next_in_range(repo):
    """the pending value committed at the edge is a valid value of the register's width (shared with C04: R-C04-range covers
    every writer of _next)"""
    from rules.c04 import rule_range
    return rule_range(repo)


def rule_writes_detected(repo):
    """needs_double_buffer is set from the detected write set of the update_ff block: writes must be detected wherever they
    occur (shared with C02: R-C02-visitor)"""
    from rules.c02 import rule_visitor
    return rule_visitor(repo)


def rule_ff_not_comb(repo):
    r = RuleResult('R-C07-ff-not-comb', "update_ff blocks of the whole design are excluded from every combinational schedule")
    for rel, q in ((SIMPLE, 'SimpleSchedulePass.schedule_intra_cycle'), ('pymtl3/passes/mamba/HeuristicTopoPass.py', 'HeuristicTopoPass.schedule_intra_cycle'),
                   ('pymtl3/passes/sim/DynamicSchedulePass.py', 'DynamicSchedulePass.schedule_intra_cycle'), (MAMBA, 'Mamba2020Pass.schedule_intra_cycle')):
        m = repo.mod(rel)
        f = m.get_func(q)
        vdef = [s for s in f.body if isinstance(s, ast.Assign) and norm(s.targets[0]) == 'V']
        ok = len(vdef) == 1 and isinstance(vdef[0].value, ast.BinOp) and isinstance(vdef[0].value.op, ast.Sub) and \
            norm(vdef[0].value.right) in ('top.get_all_update_ff()', 'top._dsl.all_update_ff') and norm(vdef[0].value.left) == 'top._dag.final_upblks'
        (r.ok if ok else r.bad)(m, q, norm(vdef[0]) if vdef else 'V = ...',
                                *([] if ok else ["the combinational vertex set must exclude ALL update_ff blocks of the design (get_all_update_ff): "
                                                 "a child's ff block left in the comb schedule runs before and after the edge too", f.lineno]))
    r.require_floor(4)
    return r


def rule_meta_cache(repo):
    """the double-buffer mark is derived from the cached write set of the block: the cache must belong to the exact class and must
    not go stale (shared with C02: R-C02-cache-scope, R-C02-index-scope)"""
    from rules.c02 import rule_cache_scope, rule_index_scope
    return [rule_cache_scope(repo), rule_index_scope(repo)]


def rule_replace_marks_registers(repo):
    """a port of a swapped-in component that a parent update_ff block writes is a register: replace_component must mark it for double
    buffering like elaboration does.  Shared with C15 (R-C15-saved; C15's known finding D22 about constraint tables is not a C07 matter)."""
    from rules.c15 import rule_saved
    res = rule_saved(repo)
    drop = lambda c: 'constraint tables' in c
    res.findings = [f for f in res.findings if not drop(f.construct)]
    res.instances = [i for i in res.instances if i['verdict'] != 'VIOLATED' or not drop(i['construct'])]
    return res


def rule_operator_table(repo):
    """only <<= may write a signal in an update_ff block: a blocking @= there would change the wire during the edge and make other
    update_ff blocks see same-edge values.  Shared with C09 (R-C09-optable)."""
    from rules.c09 import rule_optable
    return rule_optable(repo)


def rule_register_index(repo):
    """which element of a list of registers is marked for double buffering is the element the block really writes: constant indices
    (negative ones included) resolve like Python indexing.  Shared with C02 (R-C02-const-index)."""
    from rules.c02 import rule_const_index
    return rule_const_index(repo)


def rule_struct_registers(repo):
    """a struct-typed register commits what was assigned: the generated bitstruct __ilshift__ / _flip stage and commit every leaf
    exactly once and convert a foreign right-hand side the way @= does.  Shared with C06 (R-C06-leaf, R-C06-grid)."""
    from rules.c06 import rule_leaf
    return rule_leaf(repo)


def rule_struct_registers_grid(repo):
    from rules.c06 import rule_grid
    return rule_grid(repo)


def rule_struct_registers_wiring(repo):
    from rules.c06 import rule_wiring
    return rule_wiring(repo)


def rule_helper_writes_folded(repo):
    """a register written only inside a (nested) @s.func helper is double-buffered and checked for a second writer only if the
    helper's write set is folded into every block that reaches it through the call graph -- decided by C02 (R-C02-funcfold)"""
    from rules.c02 import rule_funcfold
    return rule_funcfold(repo)


def rule_struct_register_defaults(repo):
    """every register of a struct type owns its value object, nested structs included: the generated __init__ must build nested
    struct defaults per call (a default evaluated once is one object shared by all registers: values written with <<= into one
    register show up in another before the edge) -- decided by C06 (R-C06-init)"""
    from rules.c06 import rule_init
    return rule_init(repo)


def rule_late_registers_are_registers(repo):
    """a register that arrives with add_component / replace_component after elaboration is clocked only if its update_ff
    blocks reach the design-wide update_ff set on that path too: what _collect_vars adds is what the add path relies on, and
    what _uncollect_vars removes -- decided by C15 (R-C15-inverse)"""
    from rules.c15 import rule_inverse
    return rule_inverse(repo)


RULES = [rule_late_registers_are_registers, rule_struct_register_defaults, rule_helper_writes_folded, rule_design_wide, rule_openloop_advance, rule_flip_codegen, rule_meta_block_codegen, rule_effects, rule_tick_order, rule_dbuf_set, rule_flip_cover, rule_init, rule_ffset, rule_ff_not_comb,
         rule_next_in_range, rule_writes_detected, rule_meta_cache, rule_struct_registers, rule_struct_registers_grid, rule_struct_registers_wiring, rule_replace_marks_registers, rule_operator_table, rule_register_index]


def _m(name, file, old, new, rule=None, count=1):
    return dict(name=name, file=file, old=old, new=new, rule=rule, count=count)


MUTANTS = [
    dict(name='mamba-meta-block-one-liner-with-trailing-comments', rule='R-C07-meta-block-codegen', edits=[
        dict(file=MAMBA, old="    gen_src = f\"def meta_block{meta_id}():\\n  \"\n    gen_src += \"\\n  \".join( blk_srcs )\n", new="    gen_src = f\"def meta_block{meta_id}(): \"\n    gen_src += \"; \".join( blk_srcs )\n", count=1)]),
    dict(name='flip-hosts-hoisted-under-sanitised-names', rule='R-C07-flip-codegen', edits=[
        dict(file=SIMPLE, old="    strs = []\n    for x,y in hostobj_signals.items():\n", new="    hosts = []\n    strs  = []\n    for x,y in hostobj_signals.items():\n", count=1),
        dict(file=SIMPLE, old="        strs.append( f\"    x = {repr_x}\" )\n", new="        host = repr_x.replace( \".\", \"_\" ).replace( \"[\", \"_\" ).replace( \"]\", \"\" )\n        hosts.append( f\"  {host} = {repr_x}\" )\n", count=1),
        dict(file=SIMPLE, old="          strs.append(f\"    x.{repr(z)[pos:]}._flip()\")\n", new="          strs.append(f\"    {host}.{repr(z)[pos:]}._flip()\")\n", count=1),
        dict(file=SIMPLE, old="      lines = ['def compile_double_buffer( s ):'] + \\\n              ['  def double_buffer():'] + \\\n", new="      lines = ['def compile_double_buffer( s ):'] + \\\n                hosts + \\\n              ['  def double_buffer():'] + \\\n", count=1)]),
    dict(name='flip-design-handed-over-in-module-globals', rule='R-C07-flip-codegen', edits=[
        dict(file=SIMPLE, old="      lines = ['def compile_double_buffer( s ):'] + \\\n              ['  def double_buffer():'] + \\\n                strs + \\\n              ['  return double_buffer']\n", new="      lines = ['def double_buffer():'] + [ x[2:] for x in strs ]\n", count=1),
        dict(file=SIMPLE, old="      l = locals()\n      custom_exec( compile( '\\n'.join(lines), filename='ff_flips', mode='exec' ), globals(), l)\n", new="      g, l = globals(), {}\n      g['s'] = top\n      custom_exec( compile( '\\n'.join(lines), filename='ff_flips', mode='exec' ), g, l)\n", count=1),
        dict(file=SIMPLE, old="      top._sched.schedule_posedge_flip = [ l['compile_double_buffer']( top ) ]\n", new="      top._sched.schedule_posedge_flip = [ l['double_buffer'] ]\n", count=1)]),
    _m('flip-relative-name-off-by-one', SIMPLE, "        pos = len(repr_x) + 1\n", "        pos = len(repr_x)\n", 'R-C07-flip-codegen'),
    _m('openloop-advance-stops-one-early', OPENLOOP, "          while i < len(schedule_no_method):\n", "          while i < len(schedule_no_method) - 1:\n", 'R-C07-openloop-advance'),
    _m('openloop-advance-does-not-count-cycle', OPENLOOP, "          i = j = 0\n          top._sim.simulated_cycles += 1\n", "          i = j = 0\n", 'R-C07-openloop-advance'),
    _m('openloop-runs-own-position-too', OPENLOOP, "        while i < my_idx_new:\n", "        while i <= my_idx_new:\n", 'R-C07-openloop-advance'),
    _m('mamba-ff-early-exit-asks-top-only', MAMBA, "    if not top.get_all_update_ff():\n      return\n", "    if not top.get_update_ff():\n      return\n", 'R-C07-design-wide'),
    _m('multi-writer-check-over-top-blocks-only', 'pymtl3/dsl/ComponentLevel2.py', "    for blk, writes in s._dsl.all_upblk_writes.items():\n", "    for blk, writes in s._dsl.upblk_writes.items():\n", 'R-C07-design-wide', count='first'),
    _m('tick-pre-edge-comb-needs-top-inports', PREP, "       len( top.get_all_update_once() ) == 0:\n      final_schedule = top._sched.update_schedule[::]", "       len( top.get_all_update_once() ) == 0 and len( top.get_input_value_ports() ) > 2:\n      final_schedule = top._sched.update_schedule[::]", 'R-tick-order'),
    _m('reset-comb-only-with-linetrace', PREP, "      ff()\n      # cycle 1\n      up()\n      if print_line_trace:\n", "      ff()\n      # cycle 1\n      if print_line_trace:\n        up()\n", 'R-tick-order'),
    _m('ff-funcs-memoised-on-pass', PREP, "  def collect_ff_funcs( self, top ):\n", "  def collect_ff_funcs( self, top ):\n    if getattr( self, '_ff_funcs', None ) is not None:\n      return self._ff_funcs\n", 'R-tick-order'),
    _m('tick-pre-edge-comb-replaced-by-linetrace', PREP, "      final_schedule.append( top.print_line_trace )\n    final_schedule += self.collect_ff_funcs( top )\n    final_schedule += top._sched.update_schedule\n    final_schedule.append( top._sim.check_top_level_inports )\n    top.sim_tick = SimpleTickPass",
       "      final_schedule = [ top.print_line_trace ]\n    final_schedule += self.collect_ff_funcs( top )\n    final_schedule += top._sched.update_schedule\n    final_schedule.append( top._sim.check_top_level_inports )\n    top.sim_tick = SimpleTickPass", 'R-tick-order'),
    _m('D19-helper-writes-not-marked', L2, "            if blk in m._dsl.update_ff:\n              for x in m._dsl.func_writes[u]:\n                if isinstance( x, Signal ) and x.is_top_level_signal():\n                  x._dsl.needs_double_buffer = True\n", "", 'R-C07-dbuf-set'),
    _m('helper-marking-only-outports', L2, "                if isinstance( x, Signal ) and x.is_top_level_signal():\n                  x._dsl.needs_double_buffer = True", "                if isinstance( x, OutPort ) and x.is_top_level_signal():\n                  x._dsl.needs_double_buffer = True", 'R-C07-dbuf-set'),
    _m('ilshift-writes-uint', BITS, "      self._next = v.to_bits()._uint\n", "      self._next = self._uint = v.to_bits()._uint\n", 'R-C07-effects'),
    _m('ilshift-int-writes-uint', BITS, "      self._next = v & up", "      self._uint = v & up", 'R-C07-effects'),
    _m('flip-noop', BITS, "    self._uint = self._next\n", "    self._uint = self._uint\n", 'R-C07-effects'),
    _m('clone-copies-next', BITS, "  def clone( self ):\n    return _new_valid_bits( self._nbits, self._uint )", "  def clone( self ):\n    return _new_valid_bits( self._nbits, self._next )", 'R-C07-effects'),
    _m('int-reads-next', BITS, "  def uint( self ):\n    return self._uint", "  def uint( self ):\n    return self._next", 'R-C07-effects'),
    _m('imatmul-touches-next', BITS, "      self._uint = v.to_bits()._uint\n", "      self._uint = self._next = v.to_bits()._uint\n", 'R-C07-effects'),
    _m('struct-ilshift-aliases', STRUCTS, 'return [ f"self.{prefix} <<= other.{prefix}" ]', 'return [ f"self.{prefix} = other.{prefix}" ]', 'R-C06-leaf'),
    _m('struct-flip-skips-list', STRUCTS, "        ilshift_strs.extend( ils )\n        flip_strs.extend( fls )\n      return ilshift_strs, flip_strs", "        ilshift_strs.extend( ils )\n      return ilshift_strs, flip_strs", 'R-C06-grid'),
    _m('struct-flip-swapped', STRUCTS, "  cls.__ilshift__, cls._flip = _mk_ff_fn( fields )", "  cls._flip, cls.__ilshift__ = _mk_ff_fn( fields )", 'R-C06-wiring'),
    _m('flip-before-ff', PREP, "    ret.extend( top._sched.schedule_ff )\n    ret.extend( top._sched.schedule_posedge_flip )", "    ret.extend( top._sched.schedule_posedge_flip )\n    ret.extend( top._sched.schedule_ff )", 'R-tick-order'),
    _m('vcd-after-flip', PREP, "    if top.has_metadata( VcdGenerationPass.vcd_func ):\n      ret.append( top.get_metadata( VcdGenerationPass.vcd_func ) )\n\n", "", 'R-tick-order') if False else
    _m('no-comb-after-edge', PREP, "    final_schedule += self.collect_ff_funcs( top )\n    final_schedule += top._sched.update_schedule\n", "    final_schedule += self.collect_ff_funcs( top )\n", 'R-tick-order'),
    _m('comb-between-ff-and-flip', PREP, "    ret.extend( top._sched.schedule_ff )\n", "    ret.extend( top._sched.schedule_ff )\n    ret.extend( top._sched.update_schedule )\n", 'R-tick-order'),
    _m('textwave-after-flip', PREP, "    ret.append( self.create_advance_sim_cycle( top ) )\n", "    ret.append( self.create_advance_sim_cycle( top ) )\n    if top.has_metadata( PrintTextWavePass.textwave_func ):\n      ret.append( top.get_metadata( PrintTextWavePass.textwave_func ) )\n", 'R-tick-order'),
    _m('unroll-tick-differs', UNROLL, "    final_schedule += self.collect_ff_funcs( top )\n    final_schedule += top._sched.update_schedule\n", "    final_schedule += top._sched.update_schedule\n    final_schedule += self.collect_ff_funcs( top )\n", 'R-tick-order'),
    _m('reset-no-settle', PREP, "      ff()\n      # cycle 3\n      top.reset @= b1( not active_high )\n      up()", "      ff()\n      # cycle 3\n      top.reset @= b1( not active_high )", 'R-tick-order'),
    _m('reset-two-edges', PREP, "      ff()\n      # cycle 1\n      up()\n", "      ff()\n      # cycle 1\n", 'R-tick-order'),
    _m('tick-skips-first', TICK, "      for blk in schedule:", "      for blk in schedule[1:]:", 'R-tick-order'),
    _m('unroll-wrong-index', UNROLL, '[ f"_{idx}_{x.__name__}=schedule[{idx}]"', '[ f"_{idx}_{x.__name__}=schedule[{idx}-1]"', 'R-tick-order'),
    _m('dbuf-not-set', L2, "                raise UpdateFFNonTopLevelSignalError( s, func, nodelist[0].lineno )\n\n              x._dsl.needs_double_buffer = True\n", "                raise UpdateFFNonTopLevelSignalError( s, func, nodelist[0].lineno )\n\n              pass\n", 'R-C07-dbuf-set'),
    _m('dbuf-set-filtered', L2, "                raise UpdateFFNonTopLevelSignalError( s, func, nodelist[0].lineno )\n\n              x._dsl.needs_double_buffer = True\n", "                raise UpdateFFNonTopLevelSignalError( s, func, nodelist[0].lineno )\n\n              if x.is_output_value_port(): continue\n              x._dsl.needs_double_buffer = True\n", 'R-C07-dbuf-set'),
    _m('dbuf-cleared', SIMPLE, "      if x._dsl.needs_double_buffer:\n        hostobj_signals[ x.get_host_component() ].append( x )", "      if x._dsl.needs_double_buffer:\n        hostobj_signals[ x.get_host_component() ].append( x )\n        x._dsl.needs_double_buffer = False", 'R-C07-dbuf-set'),
    _m('flip-collect-filtered', SIMPLE, "      if x._dsl.needs_double_buffer:\n", "      if x._dsl.needs_double_buffer and not x.is_input_value_port():\n", 'R-C07-flip-cover'),
    _m('flip-regroup-drops', SIMPLE, "        if len(y) > 1:\n          next_hostobj_signals[x].extend( y )", "        if len(y) > 1:\n          next_hostobj_signals[x].append( y[0] )", 'R-C07-flip-cover'),
    _m('flip-emit-first-only', SIMPLE, "        for z in sorted(y, key=repr):\n          strs.append(f\"    x.{repr(z)[pos:]}._flip()\")", "        for z in sorted(y, key=repr)[:1]:\n          strs.append(f\"    x.{repr(z)[pos:]}._flip()\")", 'R-C07-flip-codegen'),
    _m('flip-emit-top-missing', SIMPLE, "        for z in sorted(y, key=repr):\n          strs.append(f\"    {repr(z)}._flip()\")", "        for z in sorted(y, key=repr):\n          if z.name.endswith('q'): strs.append(f\"    {repr(z)}._flip()\")", 'R-C07-flip-codegen'),
    _m('mamba-no-flip', MAMBA, "    simple.schedule_posedge_flip( top )\n", "    top._sched.schedule_posedge_flip = []\n", 'R-C07-flip-cover'),
    _m('init-skipped-attr', PREP, "                value = obj.default_value()\n                if obj._dsl.needs_double_buffer:\n                  value <<= value\n              except Exception as e:\n                raise type(e)(str(e) + f' happens at {obj!r}')\n\n              setattr( current_obj, i, value )",
       "                value = obj.default_value()\n              except Exception as e:\n                raise type(e)(str(e) + f' happens at {obj!r}')\n\n              setattr( current_obj, i, value )", 'R-C07-init'),
    _m('ffset-simple-drops', SIMPLE, "top._sched.schedule_ff = list( top.get_all_update_ff().copy() )", "top._sched.schedule_ff = list( top.get_all_update_ff().copy() )[1:]", 'R-C07-ffset'),
    _m('ffset-mamba-tail', MAMBA, "    if cur_meta:\n      schedule.append( self.compile_meta_block( cur_meta ) )\n\n  #-----------------------------------------------------------------------\n  # schedule_intra_cycle", "    #-----------------------------------------------------------------------\n  # schedule_intra_cycle", 'R-C07-ffset'),
    _m('ffset-mamba-branchy-dropped', MAMBA, "      else: # this means the remaining blocks are all branchy\n        cur_meta.append( blk )\n", "      else: # this means the remaining blocks are all branchy\n", 'R-C07-ffset'),
    _m('meta-block-skips', MAMBA, "    for i, b in enumerate(blocks):\n      # This is a normal update block\n      if b in self.branchiness:", "    for i, b in enumerate(blocks):\n      if i == 7: continue\n      # This is a normal update block\n      if b in self.branchiness:", 'R-C07-ffset'),
]

EQUIV = [
    _m('dbuf-mark-in-positive-arm-error-in-else', L2, "              if not x.is_top_level_signal():\n                raise UpdateFFNonTopLevelSignalError( s, func, nodelist[0].lineno )\n\n              x._dsl.needs_double_buffer = True\n",
       "              if x.is_top_level_signal():\n                x._dsl.needs_double_buffer = True\n              else:\n                raise UpdateFFNonTopLevelSignalError( s, func, nodelist[0].lineno )\n"),
    dict(name='flip-host-variable-named-after-host-bound-in-sequence', rule=None, edits=[
        dict(file=SIMPLE, old="        strs.append( f\"    x = {repr_x}\" )\n", new="        host = repr_x.replace( \".\", \"_\" ).replace( \"[\", \"_\" ).replace( \"]\", \"\" )\n        strs.append( f\"    {host} = {repr_x}\" )\n", count=1),
        dict(file=SIMPLE, old="          strs.append(f\"    x.{repr(z)[pos:]}._flip()\")\n", new="          strs.append(f\"    {host}.{repr(z)[pos:]}._flip()\")\n", count=1)]),
    _m('mamba-ff-collection-as-comprehension', MAMBA, "    ffs = []\n    for x in top.get_all_update_ff():\n      # Here we treat loop-only upblk as 0 branchiness\n      ffs.append( (0 if self.only_loop_at_top[x] else self.branchiness[x], x) )\n",
       "    ffs = [ (0 if self.only_loop_at_top[x] else self.branchiness[x], x)\n            for x in top.get_all_update_ff() ]\n"),
    _m('eval-comb-test-de-morgan', PREP, '    if len( method_ports ) == 0 and \\\n       len( top.get_all_update_once() ) == 0:\n      sim_eval_combinational = SimpleTickPass.gen_tick_function( [top._sim.check_top_level_inports] + top._sched.update_schedule )\n    else:\n      def sim_eval_combinational():\n        if method_ports:\n          raise NotImplementedError(f"top is not a pure RTL design. {\'top\'+repr(list(method_ports)[0])[1:]} is a method port.")\n        raise NotImplementedError("top is not a pure RTL design: it has update_once blocks.")\n', '    if len( method_ports ) != 0 or \\\n       len( top.get_all_update_once() ) != 0:\n      def sim_eval_combinational():\n        if method_ports:\n          raise NotImplementedError(f"top is not a pure RTL design. {\'top\'+repr(list(method_ports)[0])[1:]} is a method port.")\n        raise NotImplementedError("top is not a pure RTL design: it has update_once blocks.")\n    else:\n      sim_eval_combinational = SimpleTickPass.gen_tick_function( [top._sim.check_top_level_inports] + top._sched.update_schedule )\n'),
    _m('openloop-advance-as-for-loop', OPENLOOP, "          while i < len(schedule_no_method):\n            schedule_no_method[i]()\n            i += 1\n", "          for k in range( i, len(schedule_no_method) ):\n            schedule_no_method[k]()\n"),
    _m('mamba-ff-early-exit-via-local', MAMBA, "    if not top.get_all_update_ff():\n      return\n", "    all_ffs = top.get_all_update_ff()\n    if len( all_ffs ) == 0:\n      return\n"),
    _m('multi-writer-check-table-in-local', 'pymtl3/dsl/ComponentLevel2.py', "    for blk, writes in s._dsl.all_upblk_writes.items():\n", "    all_writes = s._dsl.all_upblk_writes\n    for blk, writes in all_writes.items():\n", count='first'),
    _m('flip-regroup-merged-branches', SIMPLE, "        if len(y) > 1:\n          next_hostobj_signals[x].extend( y )\n        elif x is top:\n          next_hostobj_signals[x].extend( y )\n        else:", "        if len(y) > 1 or x is top:\n          next_hostobj_signals[x].extend( y )\n        else:"),
    _m('flip-explicit-tmp', BITS, "    self._uint = self._next\n", "    self._uint = self._next\n    pass\n"),
    _m('collect-order-trace', PREP, "    ret.extend( top._sched.schedule_ff )\n    ret.extend( top._sched.schedule_posedge_flip )", "    ret += top._sched.schedule_ff\n    ret += top._sched.schedule_posedge_flip"),
    _m('tick-copy-form', PREP, "      final_schedule = top._sched.update_schedule[::]", "      final_schedule = list( top._sched.update_schedule )"),
    _m('ffset-no-copy', SIMPLE, "list( top.get_all_update_ff().copy() )", "list( top.get_all_update_ff() )"),
    _m('flip-collect-unsorted', SIMPLE, "    for x in reversed(sorted( top._dsl.all_signals, \\\n        key=lambda x: x.get_host_component().get_component_level() )):", "    for x in sorted( top._dsl.all_signals, \\\n        key=lambda x: -x.get_host_component().get_component_level() ):"),
]

LEVEL_TEXT = ("Static analysis of the mechanism that makes the clock edge atomic: field-effect analysis of Bits and of the generated "
              "bitstruct methods (a <<= is invisible until _flip), symbolic evaluation of every tick/reset builder into an ordered "
              "sequence of segments (ff blocks before flip, no comb in between, tracing before the flip, comb after), and coverage "
              "rules (every <<=-written signal marked, flipped once, initialised; every update_ff block scheduled once). These are "
              "statements about all designs and all ff-block orders visible in code shape; unit tests sample designs.")
LEVEL_NOTE = ("Trusted: commutation of ff blocks given invisibility; Python aug-assignment semantics. Not decided: user code "
              "holding references to Bits objects across cycles; <<= inside helper functions called from update_ff blocks.")
TECHNIQUE = "field-effect (read/write set) analysis, symbolic sequence evaluation of schedule builders, loop-coverage and pairing rules over the ast"
