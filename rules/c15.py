"""C15 -- Replacing a component yields the same design as building it directly.  (DESIGN.md section 4, C15)

replace_component is a hand-written inverse of elaboration.  The rules below extract, on every run, what the
additive half does (``_collect_vars`` at every class level, ``_add_component``) and what the subtractive half
does (``_uncollect_vars``, ``_delete_component``) and compare the two as *pairing tables*.
"""
import ast
import builtins

from sa.astutil import (Guard, norm, guards_of, reaching_value, walk_no_nested, parent, enclosing, stmt_of,
                        preceding_stmts)
from sa.errors import AnalysisError
from sa.report import RuleResult

PID = 'C15'
COMP = 'pymtl3/dsl/Component.py'
NAMED = 'pymtl3/dsl/NamedObject.py'
DSL = 'pymtl3/dsl'
DEL_QUAL = 'Component._delete_component._delete_component_internal'
ADD_QUAL = 'Component._add_component'

EXPLANATION = (
    "Static analysis (ast only; pymtl3 is never imported or run) of the replace_component machinery in "
    "pymtl3/dsl/Component.py, ComponentLevel1-5.py and NamedObject.py.  R-C15-inverse extracts from every "
    "_collect_vars / _uncollect_vars in Component's MRO the table of (aggregate, operator, key domain, source "
    "operand, isinstance guard) and requires each additive row to have its inverse row in the same class (or a "
    "direct removal in _delete_component), every removal to undo something that level added, the super() chains "
    "to be unbroken, and every all_* aggregate declared in _elaborate_declare_vars that is re-populated by "
    "_add_component to have a removal reachable from _delete_component (key domains such as keys(upblk_reads) == "
    "upblks are derived from the writers, not assumed).  R-C15-sites compares the direct sites of _add_component / "
    "_delete_component: class sets unioned into / subtracted from all_components, all_signals, all_method_ports, "
    "all_named_objects, the population the same aggregates get at elaboration, the symmetry of the "
    "_collect_vars / _uncollect_vars call sites, the parent's field registry / list slot / connect_order, and the "
    "agreement of the two hierarchy collectors.  R-C15-keys decides key coverage: node removal from the adjacency "
    "graphs deletes the node and its back edges, every set excluded from back-edge removal is itself deleted as "
    "keys, a neighbour handed over by value (re-created on re-add) leaves the graph, and a keyed `-=` on a "
    "defaultdict aggregate prunes the emptied key.  R-C15-saved follows the seven "
    "saved_* lists from the map they are filtered from, through the purge, the return tuple and both callers, to "
    "the map _add_component re-inserts them into (same map, eval-able root name).  R-C15-names compares the naming "
    "code duplicated in _add_component's list branch with NamedObject.__setattr_for_elaborate__ field by field "
    "(guards and values normalised) and resolves every name used on the replace path.  R-C15-flush checks that both "
    "replace variants capture parent/name/indices before deleting, delete before adding, flush value and method "
    "nets and re-run check() by default, and that the pending flags / flush helpers are not crossed.  "
    "NOT decided: equality of simulation traces, objects reachable only through user attributes, behaviour of "
    "eval() on the saved names beyond the root identifier.")
ASSUMPTIONS = [
    "Python set/dict semantics: `A |= B` is undone by `A -= B` for the same B when no other contributor shares elements; "
    "`d.update(m)` / `d[k] = v` is undone by `del d[k]` over the same key domain",
    "every component taking part in replace_component is an instance of Component (ComponentLevel1..7 form a linear "
    "chain whose only concrete leaf is Component; the chain shape is re-checked on every run)",
    "repr(x) of an elaborated object is its full_name rooted at the literal assigned in NamedObject._elaborate_construct",
    "user-defined construct() bodies are out of scope; only the framework halves are compared",
]


# ---------------------------------------------------------------------------
# small ast helpers
def _floor(r, n):
    """exact instance floor, enforced only when the rule reports nothing: a change that makes obligations disappear AND is
    reported must stay a VIOLATION (exit 1), not become an analysis error"""
    if r.findings:
        r.floor = n
    else:
        r.require_floor(n)


def _dsl_attr(e):
    """e == <Name>._dsl.<attr>  ->  (basename, attr)  else None"""
    if isinstance(e, ast.Attribute) and isinstance(e.value, ast.Attribute) and e.value.attr == '_dsl' \
            and isinstance(e.value.value, ast.Name):
        return e.value.value.id, e.attr
    return None


def _clone(n):
    """copy of an ast subtree that does not follow the loader's _parent back links"""
    if isinstance(n, list):
        return [_clone(x) for x in n]
    if not isinstance(n, ast.AST):
        return n
    new = type(n)()
    for f in n._fields:
        setattr(new, f, _clone(getattr(n, f, None)))
    for a in n._attributes:
        if hasattr(n, a):
            setattr(new, a, getattr(n, a))
    return new


def _alpha(e):
    """text of e with its names replaced by v0, v1, ... in order of first appearance (shape comparison of siblings)"""
    names = {}

    class T(ast.NodeTransformer):
        def visit_Name(self, n):
            names.setdefault(n.id, f"v{len(names)}")
            return ast.Name(id=names[n.id], ctx=n.ctx)
    e = _clone(e)
    order = sorted((n for n in ast.walk(e) if isinstance(n, ast.Name)), key=lambda n: (n.lineno, n.col_offset))
    for n in order:
        names.setdefault(n.id, f"v{len(names)}")
    return norm(T().visit(e))


def _pure_chain(e):
    while isinstance(e, ast.Attribute):
        e = e.value
    return isinstance(e, ast.Name)


def _expand(e, at, depth=0):
    """copy of e in which local alias names (unique dominating `n = <attribute chain>`) are replaced by the chain"""
    class T(ast.NodeTransformer):
        def visit_Name(self, n):
            if isinstance(n.ctx, ast.Load) and depth < 4:
                rv = reaching_value(n.id, at)
                if rv is not None and isinstance(rv, ast.Attribute) and _pure_chain(rv):
                    return _expand(rv, at, depth + 1)
            return n
    return T().visit(_clone(e))


def _params(fn):
    return [a.arg for a in fn.args.posonlyargs + fn.args.args]


def _ancestors(node, stop):
    cur = parent(node)
    while cur is not None:
        yield cur
        if cur is stop:
            return
        cur = parent(cur)


def _all_guards(node, top_fn):
    """guards_of, continued through nested function definitions up to top_fn"""
    out = []
    cur = node
    while True:
        out += guards_of(cur)
        f = enclosing(cur, (ast.FunctionDef, ast.AsyncFunctionDef, ast.Lambda))
        if f is None or f is top_fn:
            return out
        cur = f


def _isinstance_test(t):
    """isinstance(<Name>, <Name|Tuple>) -> (name, [class names]) else None"""
    if isinstance(t, ast.Call) and isinstance(t.func, ast.Name) and t.func.id == 'isinstance' and len(t.args) == 2 \
            and isinstance(t.args[0], ast.Name):
        c = t.args[1]
        if isinstance(c, ast.Name):
            return t.args[0].id, [c.id]
        if isinstance(c, ast.Tuple) and all(isinstance(x, ast.Name) for x in c.elts):
            return t.args[0].id, [x.id for x in c.elts]
    return None


def _component(repo):
    m = repo.mod(COMP)
    return m, m.get_class('Component')


def _mro(repo):
    m, c = _component(repo)
    chain = repo.mro(m, c)
    names = [x[1].name for x in chain]
    if 'NamedObject' not in names or 'ComponentLevel1' not in names:
        raise AnalysisError(f"Component's MRO could not be resolved inside the repository: {names}")
    return chain


def _defs(repo, name):
    """[(mod, cls, fn)] for every class in Component's MRO that defines method `name` (MRO order)"""
    out = []
    for m, c in _mro(repo):
        for st in m._defs_in(c.body):
            if isinstance(st, ast.FunctionDef) and st.name == name:
                out.append((m, c, st))
    return out


def _super_call(fn, name):
    """the statement `super().<name>(<2nd param>)` at the top level of fn (unconditional), or (None, why)"""
    ps = _params(fn)
    hits = []
    for n in ast.walk(fn):
        if isinstance(n, ast.Call) and isinstance(n.func, ast.Attribute) and n.func.attr == name:
            v = n.func.value
            is_super = isinstance(v, ast.Call) and isinstance(v.func, ast.Name) and v.func.id == 'super'
            is_explicit = isinstance(v, ast.Name) and v.id[:1].isupper() and n.args and \
                isinstance(n.args[0], ast.Name) and n.args[0].id == ps[0]
            if is_super or is_explicit:
                hits.append((n, is_explicit))
    if not hits:
        return None, 'no call'
    n, explicit = hits[0]
    args = n.args[1:] if explicit else n.args
    if [norm(a) for a in args] != ps[1:2]:
        return None, f"called with {[norm(a) for a in args]} instead of ({ps[1]})"
    st = stmt_of(n)
    if not any(st is s for s in fn.body):
        return None, 'call is conditional / nested'
    return st, ''


# ---------------------------------------------------------------------------
# aggregates declared at the top component
def _declared(repo):
    """{all_X: (kind, mod, qual)}; kind in set / dict / defaultdict"""
    out = {}
    defs = _defs(repo, '_elaborate_declare_vars')
    if len(defs) < 4:
        raise AnalysisError("anchor vanished: _elaborate_declare_vars overrides")
    for m, c, fn in defs:
        me = _params(fn)[0]
        for st in walk_no_nested(fn):
            if isinstance(st, ast.Assign):
                for t in st.targets:
                    da = _dsl_attr(t)
                    if da and da[0] == me and da[1].startswith('all_'):
                        out[da[1]] = (_init_kind(st.value), m, f"{c.name}._elaborate_declare_vars")
    # all_named_objects is created by the base class elaborate template
    nm = repo.mod(NAMED)
    fn = nm.get_func('NamedObject._elaborate_collect_all_named_objects')
    for st in walk_no_nested(fn):
        if isinstance(st, ast.Assign):
            for t in st.targets:
                da = _dsl_attr(t)
                if da and da[1].startswith('all_'):
                    out[da[1]] = ('set', nm, 'NamedObject._elaborate_collect_all_named_objects')
    return out


def _init_kind(v):
    t = norm(v)
    if t == 'set()':
        return 'set'
    if t in ('{}', 'dict()'):
        return 'dict'
    if t in ('defaultdict(set)', 'collections.defaultdict(set)'):
        return 'defaultdict'
    if t in ('[]', 'list()'):
        return 'list'
    raise AnalysisError(f"aggregate initialiser outside the domain: {t}")


# ---------------------------------------------------------------------------
# key-domain derivation: which objects are the keys of m._dsl.<Y>
def _level_functions(repo):
    out = []
    for m, c in _mro(repo):
        for st in m._defs_in(c.body):
            if isinstance(st, ast.FunctionDef):
                out.append((m, c, st))
    return out


def _canon_domain(repo, Y):
    """canonical description of what iterating m._dsl.Y yields: ('elems', W) when provably the elements of the
    set field W, else ('iter', Y)."""
    cache = repo.__dict__.setdefault('_c15_domains', {})
    key = Y
    if key in cache:
        return cache[key]
    res = ('iter', Y)
    stores = []       # (fn, stmt, key expr)
    for m, c, fn in _level_functions(repo):
        for st in ast.walk(fn):
            if isinstance(st, ast.Assign):
                for t in st.targets:
                    if isinstance(t, ast.Subscript):
                        da = _dsl_attr(t.value)
                        if da and da[1] == Y:
                            stores.append((fn, st, t.slice))
    if stores:
        # every store keyed by the *value* variable of `for n, K in X._dsl.Z.items()`
        zs = set()
        for fn, st, k in stores:
            z = None
            if isinstance(k, ast.Name):
                for a in _ancestors(st, fn):
                    if isinstance(a, ast.For) and isinstance(a.target, ast.Tuple) and len(a.target.elts) == 2 \
                            and isinstance(a.target.elts[1], ast.Name) and a.target.elts[1].id == k.id \
                            and isinstance(a.iter, ast.Call) and isinstance(a.iter.func, ast.Attribute) \
                            and a.iter.func.attr == 'items' and _dsl_attr(a.iter.func.value):
                        z = _dsl_attr(a.iter.func.value)[1]
                        break
            zs.add(z)
        if len(zs) == 1 and None not in zs:
            w = _values_equal_elems(repo, zs.pop())
            if w:
                res = ('elems', w)
    else:
        res = ('elems', Y)
    cache[key] = res
    return res


def _values_equal_elems(repo, Z):
    """W such that values(X._dsl.Z) == elems(X._dsl.W): every `X._dsl.Z[n] = B` has `X._dsl.W.add(B)` in the same
    block and every `X._dsl.W.add(B)` has the store next to it."""
    zsites = []
    for m, c, fn in _level_functions(repo):
        for st in ast.walk(fn):
            if isinstance(st, ast.Assign) and len(st.targets) == 1 and isinstance(st.targets[0], ast.Subscript):
                da = _dsl_attr(st.targets[0].value)
                if da and da[1] == Z and isinstance(st.value, ast.Name):
                    zsites.append((fn, st, da[0], st.value.id))
    if not zsites:
        return None

    def adds_in_block(st, base, val):
        p = parent(st)
        out = set()
        for fld in ('body', 'orelse', 'finalbody'):
            blk = getattr(p, fld, None)
            if isinstance(blk, list) and any(x is st for x in blk):
                for s2 in blk:
                    if isinstance(s2, ast.Expr) and isinstance(s2.value, ast.Call) and \
                            isinstance(s2.value.func, ast.Attribute) and s2.value.func.attr == 'add' and \
                            len(s2.value.args) == 1 and norm(s2.value.args[0]) == val:
                        da = _dsl_attr(s2.value.func.value)
                        if da and da[0] == base:
                            out.add(da[1])
        return out
    common = None
    for fn, st, base, val in zsites:
        a = adds_in_block(st, base, val)
        common = a if common is None else common & a
    if not common or len(common) != 1:
        return None
    W = next(iter(common))
    # converse: every W.add(B) sits next to a Z store of the same B
    for m, c, fn in _level_functions(repo):
        for n in ast.walk(fn):
            if isinstance(n, ast.Call) and isinstance(n.func, ast.Attribute) and n.func.attr == 'add' and len(n.args) == 1:
                da = _dsl_attr(n.func.value)
                if da and da[1] == W:
                    st = stmt_of(n)
                    p = parent(st)
                    ok = False
                    for fld in ('body', 'orelse', 'finalbody'):
                        blk = getattr(p, fld, None)
                        if isinstance(blk, list) and any(x is st for x in blk):
                            for s2 in blk:
                                if isinstance(s2, ast.Assign) and len(s2.targets) == 1 and \
                                        isinstance(s2.targets[0], ast.Subscript) and \
                                        (_dsl_attr(s2.targets[0].value) or (None, None))[1] == Z and \
                                        norm(s2.value) == norm(n.args[0]):
                                    ok = True
                    if not ok:
                        return None
    return W


# ---------------------------------------------------------------------------
# effects of _collect_vars / _uncollect_vars on the aggregates
# set / dict methods that return a new object and leave the receiver unchanged
_PURE_SET_METHODS = {'difference', 'union', 'intersection', 'symmetric_difference', 'copy', 'issubset', 'issuperset',
                     'isdisjoint', 'keys', 'values', 'items', 'get'}


class Eff:
    def __init__(self, kind, agg, key, val, guard, conds, node, text):
        self.kind, self.agg, self.key, self.val = kind, agg, key, val
        self.guard, self.conds, self.node, self.text = guard, conds, node, text

    def __repr__(self):
        return f"{self.kind}({self.agg}, key={self.key}, val={self.val}, guard={self.guard})"


class LevelFn:
    """abstract reading of one _collect_vars / _uncollect_vars method"""
    def __init__(self, repo, mod, cls, fn, declared, additive):
        self.repo, self.mod, self.cls, self.fn = repo, mod, cls, fn
        self.qual = f"{cls.name}.{fn.name}"
        ps = _params(fn)
        if len(ps) != 2:
            raise AnalysisError(f"{self.qual}: expected (self, component) parameters, got {ps}")
        self.T, self.M = ps
        self.declared = declared
        self.additive = additive
        self.effects = []
        self.prunes = []       # (agg, key) deletions of emptied entries
        self.bad_prunes = []   # conditional deletions whose condition is not `the entry is empty`
        self.discarded = []    # (agg, method, stmt): non-mutating set/dict method used as a statement
        self.cond_removals = []  # (kind, agg, [guards], stmt): removals dominated by a condition that is not their own business
        self._scan()

    # -- recognisers ------------------------------------------------------
    def agg_of(self, e, at):
        e = _expand(e, at)
        da = _dsl_attr(e)
        if da and da[0] == self.T and da[1].startswith('all_'):
            return da[1]
        return None

    def src_of(self, e, at):
        e = _expand(e, at)
        da = _dsl_attr(e)
        if da and da[0] == self.M:
            return da[1]
        return None

    def loop_env(self, node):
        chain = []
        cur = node
        for a in _ancestors(node, self.fn):
            if isinstance(a, ast.For) and any(x is cur for x in a.body):
                chain.append(a)
            cur = a
        env = {}
        for f in reversed(chain):
            it = f.iter
            meth = None
            base = it
            if isinstance(it, ast.Call) and isinstance(it.func, ast.Attribute) and not it.args and \
                    it.func.attr in ('items', 'keys', 'values'):
                meth, base = it.func.attr, it.func.value
            Y = self.src_of(base, f)
            tg = f.target
            if Y is not None and meth == 'items' and isinstance(tg, ast.Tuple) and len(tg.elts) == 2 and \
                    all(isinstance(x, ast.Name) for x in tg.elts):
                env[tg.elts[0].id] = ('key', Y)
                env[tg.elts[1].id] = ('item', Y, Y)
            elif Y is not None and meth in (None, 'keys') and isinstance(tg, ast.Name):
                env[tg.id] = ('key', Y)
            else:
                for n in ast.walk(tg):
                    if isinstance(n, ast.Name):
                        env[n.id] = ('other', f"element of {norm(it)}")
        return env

    def comp_env(self, gen, at):
        """loop-variable bindings of one comprehension clause over m._dsl.<Y> / .items() / .keys(); None when not understood"""
        it, meth = gen.iter, None
        if isinstance(it, ast.Call) and isinstance(it.func, ast.Attribute) and not it.args and it.func.attr in ('items', 'keys'):
            meth, it = it.func.attr, it.func.value
        Y = self.src_of(it, at)
        if Y is None:
            return None
        tg = gen.target
        if meth == 'items' and isinstance(tg, ast.Tuple) and len(tg.elts) == 2 and all(isinstance(x, ast.Name) for x in tg.elts):
            return {tg.elts[0].id: ('key', Y), tg.elts[1].id: ('item', Y, Y)}
        if meth in (None, 'keys') and isinstance(tg, ast.Name):
            return {tg.id: ('key', Y)}
        return None

    def absval(self, e, at, env, depth=0):
        if isinstance(e, ast.Name):
            if e.id in env:
                return env[e.id]
            if e.id == self.M:
                return ('m',)
            rv = reaching_value(e.id, at)
            if rv is not None and isinstance(rv, (ast.Name, ast.Subscript)) and depth < 3:
                return self.absval(rv, at, env, depth + 1)
        Y = self.src_of(e, at)
        if Y is not None:
            return ('field', Y)
        if isinstance(e, ast.Subscript):
            Y = self.src_of(e.value, at)
            if Y is not None:
                k = self.absval(e.slice, at, env)
                if k[0] == 'key':
                    return ('item', Y, k[1])
        return ('other', norm(e))

    # -- scan ---------------------------------------------------------------
    def _guard(self, st):
        cls_guard, conds = None, []
        for g0 in _all_guards(st, self.fn):
            if g0.kind in ('loop', 'except'):
                continue
            for t, pol in _flatten_and(g0.test, g0.polarity):
                g = Guard(t, pol, g0.kind, g0.node)
                it = _isinstance_test(g.test)
                if it and it[0] == self.M:
                    if g.polarity is not True or len(it[1]) != 1:
                        raise AnalysisError(f"{self.qual}: effect under a negated / multi-class isinstance guard: {g}")
                    if cls_guard is not None and cls_guard != it[1][0]:
                        raise AnalysisError(f"{self.qual}: two different class guards on one effect")
                    cls_guard = it[1][0]
                else:
                    conds.append(g)
        return cls_guard, conds

    def _nonempty_field(self, t, polarity, st):
        """field Y when `t` evaluating to `polarity` means `m._dsl.Y is non-empty`, else None"""
        if polarity is True:
            Y = self.src_of(t, st)
            if Y is not None:
                return Y
            if isinstance(t, ast.Call) and norm(t.func) == 'len' and len(t.args) == 1:
                return self.src_of(t.args[0], st)
        if isinstance(t, ast.Compare) and len(t.ops) == 1 and isinstance(t.left, ast.Call) and norm(t.left.func) == 'len' \
                and len(t.left.args) == 1 and isinstance(t.comparators[0], ast.Constant) and t.comparators[0].value == 0:
            op = t.ops[0]
            if (isinstance(op, (ast.Gt, ast.NotEq)) and polarity is True) or (isinstance(op, ast.Eq) and polarity is False):
                return self.src_of(t.left.args[0], st)
        return None

    def _is_empty_test(self, t, polarity, agg, st):
        """does `t` evaluating to `polarity` mean that AGG[k] is empty?  (not A[k] / len(A[k]) == 0 / A[k] == set())"""
        def entry(e):
            return isinstance(e, ast.Subscript) and self.agg_of(e.value, st) == agg

        def length(e):
            return isinstance(e, ast.Call) and norm(e.func) == 'len' and len(e.args) == 1 and entry(e.args[0])
        if entry(t) or length(t):
            return polarity is False
        if isinstance(t, ast.Compare) and len(t.ops) == 1:
            l, op, rgt = t.left, t.ops[0], t.comparators[0]
            if length(l) and isinstance(rgt, ast.Constant) and rgt.value == 0:
                if isinstance(op, ast.Eq):
                    return polarity is True
                if isinstance(op, (ast.NotEq, ast.Gt)):
                    return polarity is False
            if length(l) and isinstance(rgt, ast.Constant) and rgt.value == 1 and isinstance(op, ast.Lt):
                return polarity is True
            if entry(l) and norm(rgt) == 'set()':
                if isinstance(op, ast.Eq):
                    return polarity is True
                if isinstance(op, ast.NotEq):
                    return polarity is False
        return False

    def _emit(self, kind, agg, key, val, st):
        guard, conds = self._guard(st)
        if not self.additive:
            rest = []
            for g in conds:
                t = g.test
                # `k in <aggregate>` is a harmless presence test
                if isinstance(t, ast.Compare) and len(t.ops) == 1 and isinstance(t.ops[0], (ast.In, ast.NotIn)) \
                        and self.agg_of(t.comparators[0], st) == agg:
                    continue
                # `if not AGG[k]: del AGG[k]`  prunes an emptied entry
                if kind == 'del' and any(isinstance(n, ast.Subscript) and self.agg_of(n.value, st) == agg
                                         for n in ast.walk(t)):
                    if self._is_empty_test(t, g.polarity, agg, st):
                        self.prunes.append((agg, key))
                    else:
                        self.bad_prunes.append((agg, key, st, g))
                    return
                # `if m._dsl.Y: AGG -= m._dsl.Y`  guards a removal by its OWN operand being non-empty: a no-op otherwise
                own = val[1] if val and val[0] in ('field', 'item') else None
                if own is not None and self._nonempty_field(t, g.polarity, st) == own:
                    continue
                rest.append(g)
            if rest:
                self.cond_removals.append((kind, agg, rest, st))
        self.effects.append(Eff(kind, agg, key, val, guard, conds, st, norm(st)))

    def _scan(self):
        for st in ast.walk(self.fn):
            if isinstance(st, ast.AugAssign):
                tgt, key = st.target, None
                a = self.agg_of(tgt, st)
                if a is None and isinstance(tgt, ast.Subscript):
                    a = self.agg_of(tgt.value, st)
                    key = tgt.slice
                if a is None:
                    continue
                env = self.loop_env(st)
                if isinstance(st.op, ast.BitOr):
                    kind = 'union'
                elif isinstance(st.op, ast.Sub):
                    kind = 'diff'
                elif isinstance(st.op, ast.BitAnd) and key is None and self.agg_of(st.value, st) is not None and not self.additive:
                    # A &= B with B another whole-design aggregate: A keeps only what is (still) in B
                    self._emit('restrict', a, None, ('agg', self.agg_of(st.value, st)), st)
                    continue
                else:
                    raise AnalysisError(f"{self.qual}: operator outside the domain in `{norm(st)}`")
                self._emit(kind, a, None if key is None else self.absval(key, st, env), self.absval(st.value, st, env), st)
            elif isinstance(st, ast.Assign):
                for t in st.targets:
                    if self.agg_of(t, st) is not None and isinstance(_expand(t, st), ast.Attribute) \
                            and not isinstance(t, ast.Name):
                        raise AnalysisError(f"{self.qual}: aggregate rebound in `{norm(st)}`")
                    if isinstance(t, ast.Subscript):
                        a = self.agg_of(t.value, st)
                        if a is not None:
                            env = self.loop_env(st)
                            self._emit('assign', a, self.absval(t.slice, st, env), self.absval(st.value, st, env), st)
            elif isinstance(st, ast.Delete):
                for t in st.targets:
                    if isinstance(t, ast.Subscript):
                        a = self.agg_of(t.value, st)
                        if a is not None:
                            env = self.loop_env(st)
                            self._emit('del', a, self.absval(t.slice, st, env), None, st)
                    elif self.agg_of(t, st) is not None and not isinstance(t, ast.Name):
                        raise AnalysisError(f"{self.qual}: aggregate deleted in `{norm(st)}`")
            elif isinstance(st, ast.Expr) and isinstance(st.value, ast.BinOp) and isinstance(st.value.op, (ast.Sub, ast.BitOr, ast.BitAnd)) \
                    and self.agg_of(st.value.left, st) is not None:
                self.discarded.append((self.agg_of(st.value.left, st), {ast.Sub: '-', ast.BitOr: '|', ast.BitAnd: '&'}[type(st.value.op)], st))
            elif isinstance(st, ast.Expr) and isinstance(st.value, ast.Call) and isinstance(st.value.func, ast.Attribute):
                call = st.value
                recv, meth = call.func.value, call.func.attr
                a, key = self.agg_of(recv, st), None
                if a is None and isinstance(recv, ast.Subscript):
                    a = self.agg_of(recv.value, st)
                    key = recv.slice
                if a is None:
                    continue
                env = self.loop_env(st)
                kind_decl = self.declared.get(a, ('?',))[0]
                args = call.args
                k = None if key is None else self.absval(key, st, env)
                if meth == 'update' and len(args) == 1:
                    v = self.absval(args[0], st, env)
                    if key is None and kind_decl in ('dict', 'defaultdict'):
                        dc = args[0]
                        pair = None
                        if isinstance(dc, (ast.GeneratorExp, ast.ListComp, ast.SetComp)) and isinstance(dc.elt, ast.Tuple) \
                                and len(dc.elt.elts) == 2 and len(dc.generators) == 1 and not dc.generators[0].ifs:
                            pair = (dc.elt.elts[0], dc.elt.elts[1], dc.generators[0])
                        elif isinstance(dc, ast.DictComp) and len(dc.generators) == 1 and not dc.generators[0].ifs:
                            pair = (dc.key, dc.value, dc.generators[0])
                        cenv = self.comp_env(pair[2], st) if pair else None
                        if v[0] == 'field':
                            self._emit('assign', a, ('key', v[1]), ('item', v[1], v[1]), st)
                        elif pair and cenv is not None:
                            # the keyed stores the call performs:  for <target> in <iter>: AGG[k] = v
                            env2 = dict(env)
                            env2.update(cenv)
                            self._emit('assign', a, self.absval(pair[0], st, env2), self.absval(pair[1], st, env2), st)
                        elif isinstance(dc, ast.DictComp) and len(dc.generators) == 1 and isinstance(dc.generators[0].iter, ast.Call) \
                                and isinstance(dc.generators[0].iter.func, ast.Attribute) and dc.generators[0].iter.func.attr == 'items' \
                                and self.src_of(dc.generators[0].iter.func.value, st) and isinstance(dc.generators[0].target, ast.Tuple) \
                                and norm(dc.key) == norm(dc.generators[0].target.elts[0]):
                            Y = self.src_of(dc.generators[0].iter.func.value, st)
                            vv = norm(dc.generators[0].target.elts[1])
                            val = ('item', Y, Y) if norm(dc.value) == vv else ('other', norm(dc.value))
                            self._emit('assign', a, ('key', Y), val, st)
                        else:
                            raise AnalysisError(f"{self.qual}: dict.update operand outside the domain: {norm(st)}")
                    else:
                        self._emit('union', a, k, v, st)
                elif meth == 'add' and len(args) == 1:
                    self._emit('union', a, k, ('single', self.absval(args[0], st, env)), st)
                elif meth == 'intersection_update' and len(args) == 1 and key is None and self.agg_of(args[0], st) is not None \
                        and not self.additive:
                    self._emit('restrict', a, None, ('agg', self.agg_of(args[0], st)), st)
                elif meth == 'difference_update' and len(args) == 1:
                    self._emit('diff', a, k, self.absval(args[0], st, env), st)
                elif meth in ('discard', 'remove') and len(args) == 1:
                    self._emit('diff', a, k, ('single', self.absval(args[0], st, env)), st)
                elif meth == 'pop' and key is None and args:
                    self._emit('del', a, self.absval(args[0], st, env), None, st)
                elif meth in _PURE_SET_METHODS:
                    # non-mutating: the result of the expression statement is thrown away, the aggregate is unchanged
                    self.discarded.append((a, meth, st))
                else:
                    raise AnalysisError(f"{self.qual}: method call on an aggregate outside the domain: {norm(st)}")


def _field_subset(repo, F, G):
    """is every element ever added to <c>._dsl.F also added to <c>._dsl.G (same call, possibly through one method call)?"""
    if F == G:
        return True
    fns = _level_functions(repo)

    def adds_to(f, fld):
        return [n.args[0] for n in ast.walk(f) if isinstance(n, ast.Call) and isinstance(n.func, ast.Attribute) and n.func.attr == 'add'
                and len(n.args) == 1 and (_dsl_attr(n.func.value) or ('', ''))[1] == fld]
    sites = [(f, v) for fm, fc, f in fns for v in adds_to(f, F)]
    if not sites:
        return False
    for f, v in sites:
        ok = any(norm(w) == norm(v) for w in adds_to(f, G))
        if not ok:
            for c in [n for n in ast.walk(f) if isinstance(n, ast.Call) and isinstance(n.func, ast.Attribute)
                      and any(norm(x) == norm(v) for x in n.args)]:
                for fm2, fc2, f2 in fns:
                    if f2.name == c.func.attr and f2 is not f:
                        ps = _params(f2)
                        pos = [i for i, x in enumerate(c.args) if norm(x) == norm(v)][0] + 1
                        if pos < len(ps) and any(norm(w) == ps[pos] for w in adds_to(f2, G)):
                            ok = True
        if not ok:
            return False
    return True


def _keyeq(repo, k1, k2):
    if k1 is None or k2 is None:
        return k1 is None and k2 is None
    if k1[0] != 'key' or k2[0] != 'key':
        return False
    return k1[1] == k2[1] or _canon_domain(repo, k1[1]) == _canon_domain(repo, k2[1])


def _inverse(repo, a, r):
    """does removal effect r undo additive effect a ?"""
    if a.agg != r.agg:
        return False
    if a.kind == 'union' and a.key is None:
        if r.kind == 'restrict':
            return a.val[0] == 'field' and a.val[1] in getattr(r, 'restrict_ok', ())
        return r.kind == 'diff' and r.key is None and r.val == a.val and a.val[0] in ('field', 'single')
    if a.kind == 'assign':
        return r.kind == 'del' and _keyeq(repo, a.key, r.key)
    if a.kind == 'union' and a.key is not None:
        if r.kind == 'del':
            return _keyeq(repo, a.key, r.key)
        if r.kind == 'diff' and r.key is not None and _keyeq(repo, a.key, r.key):
            # the removed value must be the one stored under the same key of the same field
            av, rv = a.val, r.val
            return av[0] == 'item' and rv[0] == 'item' and av[1] == rv[1] and \
                _keyeq(repo, ('key', av[2]), a.key) and _keyeq(repo, ('key', rv[2]), r.key)
    return False


def _direct_deletes(repo):
    """aggregates from which _delete_component_internal deletes keys / subtracts sets directly"""
    m = repo.mod(COMP)
    fn = m.get_func(DEL_QUAL)
    out = {}
    for st in ast.walk(fn):
        tg = []
        if isinstance(st, ast.Delete):
            tg = [t.value for t in st.targets if isinstance(t, ast.Subscript)]
            kind = 'del'
        elif isinstance(st, ast.AugAssign) and isinstance(st.op, ast.Sub):
            tg = [st.target]
            kind = 'diff'
        elif isinstance(st, ast.Expr) and isinstance(st.value, ast.Call) and isinstance(st.value.func, ast.Attribute) \
                and st.value.func.attr in ('pop', 'difference_update'):
            tg = [st.value.func.value]
            kind = 'del' if st.value.func.attr == 'pop' else 'diff'
        for t in tg:
            da = _dsl_attr(_expand(t, st))
            if da and da[1].startswith('all_'):
                out.setdefault(da[1], []).append((kind, st))
    return out


def _direct_adds(repo):
    m = repo.mod(COMP)
    out = {}
    for qual in (ADD_QUAL, 'Component.add_connections'):
        fn = m.get_func(qual)
        for st in ast.walk(fn):
            t = None
            if isinstance(st, ast.AugAssign) and isinstance(st.op, ast.BitOr):
                t = st.target
            elif isinstance(st, ast.Expr) and isinstance(st.value, ast.Call) and isinstance(st.value.func, ast.Attribute) \
                    and st.value.func.attr in ('update', 'add'):
                t = st.value.func.value
            elif isinstance(st, ast.Assign) and isinstance(st.targets[0], ast.Subscript):
                t = st.targets[0]
            while isinstance(t, ast.Subscript):
                t = t.value
            if t is not None:
                da = _dsl_attr(_expand(t, st))
                if da and da[1].startswith('all_'):
                    out.setdefault(da[1], []).append((qual, st))
    return out


def _reachable_chain(repo, name):
    """prefix of _defs(name) reachable from Component.<name> through unconditional super() calls,
    plus the list of (mod, cls, fn, why) where the chain is cut"""
    defs = _defs(repo, name)
    reach, cuts = [], []
    for i, (m, c, fn) in enumerate(defs):
        reach.append((m, c, fn))
        last = i == len(defs) - 1
        st, why = _super_call(fn, name)
        if last:
            if st is not None:
                cuts.append((m, c, fn, f"calls super().{name} but no base class defines it"))
            break
        if st is None:
            cuts.append((m, c, fn, f"does not call super().{name}(...) unconditionally ({why}): "
                         f"{', '.join(d[1].name for d in defs[i + 1:])} never run"))
            break
    return defs, reach, cuts


def rule_inverse(repo):
    r = RuleResult('R-C15-inverse', "what _collect_vars adds at each class level _uncollect_vars removes (same aggregate, "
                   "inverse operator, same key domain / operand / class guard); super() chains unbroken; every all_* "
                   "aggregate re-populated by _add_component has a removal reachable from _delete_component")
    declared = _declared(repo)
    cdefs, creach, ccuts = _reachable_chain(repo, '_collect_vars')
    udefs, ureach, ucuts = _reachable_chain(repo, '_uncollect_vars')
    if len(cdefs) < 3:
        raise AnalysisError("anchor vanished: _collect_vars overrides")
    for name, cuts, reach in (('_collect_vars', ccuts, creach), ('_uncollect_vars', ucuts, ureach)):
        for m, c, fn, why in cuts:
            r.bad(m, f"{c.name}.{name}", f"super().{name}", f"{c.name}.{name} {why}; after replace_component the "
                  f"aggregates of the skipped levels keep / miss the component's entries", fn.lineno)
        cut = {id(x[2]) for x in cuts}
        for m, c, fn in reach:
            if id(fn) not in cut:
                r.ok(m, f"{c.name}.{name}", f"super().{name} chain")
    direct = _direct_deletes(repo)
    cmap = {c.name: (m, c, fn) for m, c, fn in cdefs}
    umap = {c.name: (m, c, fn) for m, c, fn in udefs}
    ureach_names = {c.name for m, c, fn in ureach}
    add_by_agg, rem_by_agg = {}, {}
    order = [c.name for m, c in _mro(repo)]
    levels = {}
    for cname in order:
        if cname in cmap or cname in umap:
            levels[cname] = (LevelFn(repo, *cmap[cname], declared, True) if cname in cmap else None,
                             LevelFn(repo, *umap[cname], declared, False) if cname in umap else None)
    # `A &= B` removes the component's entries from A exactly when they have ALREADY left B and were in B to begin with
    for cname, (adds0, rems0) in levels.items():
        for x in (rems0.effects if rems0 else []):
            if x.kind != 'restrict':
                continue
            B = x.val[1]
            x.restrict_ok, x.restrict_why = set(), f"nothing removes the component's entries from {B}"
            sup, _ = _super_call(rems0.fn, '_uncollect_vars')

            def top_i(node, fn_=rems0.fn):
                cur = node
                while cur is not None and not any(cur is b for b in fn_.body):
                    cur = parent(cur)
                return -1 if cur is None else [i for i, b in enumerate(fn_.body) if b is cur][0]
            for c2, (adds2, rems2) in levels.items():
                for bd in (rems2.effects if rems2 else []):
                    if not (bd.agg == B and bd.kind == 'diff' and bd.key is None and bd.val[0] == 'field'):
                        continue
                    G = bd.val[1]
                    if c2 == cname:
                        before = bd.node.lineno < x.node.lineno and top_i(bd.node) <= top_i(x.node)
                        where = f"`{bd.text}` in the same method"
                    elif order.index(c2) > order.index(cname):        # a base class: runs inside the super() call
                        before = sup is not None and top_i(sup) < top_i(x.node)
                        where = f"super()._uncollect_vars, which runs `{bd.text}` ({c2})"
                    else:
                        before, where = False, f"`{bd.text}` of the subclass {c2}, which runs after this method's body"
                    if not before:
                        x.restrict_why = f"it runs before {where}: at that point the component's blocks are still in {B}, " \
                                         f"so the intersection removes nothing for the component being uncollected"
                        continue
                    for aa in (adds0.effects if adds0 else []):
                        if aa.agg == x.agg and aa.kind == 'union' and aa.key is None and aa.val[0] == 'field':
                            if _field_subset(repo, aa.val[1], G):
                                x.restrict_ok.add(aa.val[1])
                            else:
                                x.restrict_why = f"<c>._dsl.{aa.val[1]} is not provably a subset of <c>._dsl.{G}"
    for cname in order:
        if cname not in levels:
            continue
        adds, rems = levels[cname]
        a_eff = adds.effects if adds else []
        r_eff = rems.effects if rems else []
        for e in a_eff:
            add_by_agg.setdefault(e.agg, []).append((cname, e))
        if cname in ureach_names:
            for e in r_eff:
                rem_by_agg.setdefault(e.agg, []).append((cname, e))
        used = set()
        for a in a_eff:
            m, c, fn = cmap[cname]
            if a.agg not in declared:
                r.bad(m, adds.qual, a.text, f"{a.agg} is not declared in any _elaborate_declare_vars", a.node.lineno)
                continue
            inv = [x for x in r_eff if _inverse(repo, a, x)]
            if inv:
                bad_guard = [x for x in inv if x.guard != a.guard]
                if bad_guard and len(bad_guard) == len(inv):
                    x = bad_guard[0]
                    r.bad(umap[cname][0], rems.qual, x.text,
                          f"removal is guarded by isinstance(m, {x.guard}) but the matching addition `{a.text}` by "
                          f"isinstance(m, {a.guard}): components of the classes in between keep their entries in {a.agg} "
                          f"(or the removal touches fields they do not have)", x.node.lineno)
                else:
                    r.ok(m, adds.qual, f"{a.text}  <->  {inv[0].text}")
                used.update(id(x) for x in inv)
                continue
            if a.agg in direct and any(k == 'del' for k, _ in direct[a.agg]) and a.key is not None:
                r.ok(m, adds.qual, f"{a.text}  <->  keys deleted directly in _delete_component",
                     note="key coverage is decided by R-C15-keys")
                continue
            same_agg = [x for x in r_eff if x.agg == a.agg]
            if rems is None:
                why = f"{cname} overrides _collect_vars but has no _uncollect_vars"
            elif same_agg:
                why = f"{rems.qual} touches {a.agg} with `{same_agg[0].text}`, which is not the inverse " \
                      f"(added: key {a.key}, operand {a.val}; removed: key {same_agg[0].key}, operand {same_agg[0].val})"
            else:
                why = f"{rems.qual} never removes from {a.agg}"
            r.bad(m, adds.qual, a.text, f"{why}: after replace_component {a.agg} still holds the removed component's "
                  f"entries, so the metadata differs from a fresh build", a.node.lineno)
        for kind_, agg_, gs_, st_ in (rems.cond_removals if rems else []):
            cond = ' and '.join(f"{'' if g.polarity else 'not '}{norm(g.test)}" for g in gs_)
            other = sorted({self_f for g in gs_ for self_f in [rems._nonempty_field(g.test, g.polarity, st_)] if self_f})
            r.bad(umap[cname][0], rems.qual, f"{agg_}: removal runs only when {cond}",
                  f"`{norm(st_)}` is dominated by the condition `{cond}`"
                  + (f" (emptiness of another table, {', '.join(other)})" if other else "")
                  + f": an inverse step may depend at most on its own operand being non-empty; when the condition is false the "
                  f"component's entries stay in {agg_} after replace_component although _collect_vars added them unconditionally",
                  st_.lineno)
        for lf_, which in ((adds, 'add'), (rems, 'remove')):
            for agg_, meth_, st_ in (lf_.discarded if lf_ else []):
                mm_, _, _ = (cmap if which == 'add' else umap)[cname]
                r.bad(mm_, lf_.qual, f"result of {agg_}.{meth_}(...) discarded" if meth_.isalpha() else f"result of {agg_} {meth_} ... discarded",
                      f"`{norm(st_)}` is a non-mutating operation used as a statement: it builds a new set and throws it away, "
                      f"{agg_} is left unchanged (use the mutating form: difference_update / update / -= / |=), so the component's "
                      f"entries are not {'added to' if which == 'add' else 'removed from'} {agg_}", st_.lineno)
        for x in r_eff:
            if id(x) in used:
                continue
            m, c, fn = umap[cname]
            if x.kind == 'restrict':
                r.bad(m, rems.qual, f"{x.agg} restricted to {x.val[1]} too early / without effect",
                      f"`{x.text}` keeps in {x.agg} only what is still in {x.val[1]}; that removes the uncollected component's entries "
                      f"only if they have already left {x.val[1]}, but {x.restrict_why}: after _uncollect_vars(m) the blocks of m "
                      f"remain in {x.agg} (e.g. a stale update_ff block without host object is scheduled after replace_component)",
                      x.node.lineno)
                continue
            r.bad(m, rems.qual, x.text, f"removes from {x.agg} something {cname}._collect_vars never added there "
                  f"(key {x.key}, operand {x.val}): entries of other components are dropped or the component's own stay",
                  x.node.lineno)
        if adds and a_eff:
            m, c, fn = cmap[cname]
            if sum(1 for e in a_eff if e.guard is None) and cname != 'NamedObject':
                for e in a_eff:
                    if e.guard is None:
                        r.bad(m, adds.qual, e.text, "addition is not guarded by isinstance(m, <level>): the pairing with "
                              "the guarded removal cannot be established", e.node.lineno)
    # (i) aggregate coverage over the reachable chains and the direct sites
    dadds = _direct_adds(repo)
    for agg, (kind, m, qual) in sorted(declared.items()):
        has_add = agg in add_by_agg or agg in dadds
        has_rem = agg in rem_by_agg or agg in direct
        cons = f"{agg}: add sites {len(add_by_agg.get(agg, [])) + len(dadds.get(agg, []))}, " \
               f"remove sites {len(rem_by_agg.get(agg, [])) + len(direct.get(agg, []))}"
        if has_add and not has_rem:
            r.bad(m, qual, agg, f"{agg} is filled when a component is added (collect / _add_component) but nothing "
                  f"reachable from _delete_component removes from it", 0)
        elif not has_add:
            r.bad(m, qual, agg, f"{agg} is declared at the top component and filled at elaboration but never "
                  f"re-populated on the _add_component path", 0)
        else:
            r.ok(m, qual, cons)
    r.evaluations = sum(len(v) for v in add_by_agg.values()) * max(1, sum(len(v) for v in rem_by_agg.values()))
    _floor(r, 37)
    return r


# ---------------------------------------------------------------------------
# abstract values of the local sets of _add_component / _delete_component
def _lambda_classes(lam):
    """lambda x: isinstance(x, C)  ->  [C...]"""
    if isinstance(lam, ast.Lambda) and len(lam.args.args) == 1:
        it = _isinstance_test(lam.body)
        if it and it[0] == lam.args.args[0].arg:
            return it[1]
    return None


def _bindings(fn, name):
    """every statement of fn (nested blocks included, nested defs excluded) that binds the simple name"""
    out = []
    for st in walk_no_nested(fn):
        if isinstance(st, ast.Assign):
            for t in st.targets:
                if isinstance(t, ast.Name) and t.id == name:
                    out.append(('assign', st, st.value, None))
                elif isinstance(t, (ast.Tuple, ast.List)):
                    for i, el in enumerate(t.elts):
                        if isinstance(el, ast.Name) and el.id == name:
                            if isinstance(st.value, (ast.Tuple, ast.List)) and len(st.value.elts) == len(t.elts):
                                out.append(('assign', st, st.value.elts[i], None))
                            else:
                                out.append(('unpack', st, st.value, i))
        elif isinstance(st, ast.AugAssign) and isinstance(st.target, ast.Name) and st.target.id == name:
            out.append(('aug', st, st.value, st.op))
        elif isinstance(st, ast.Expr) and isinstance(st.value, ast.Call) and isinstance(st.value.func, ast.Attribute) and \
                st.value.func.attr == 'update' and isinstance(st.value.func.value, ast.Name) and st.value.func.value.id == name \
                and len(st.value.args) == 1:
            out.append(('aug', st, st.value.args[0], ast.BitOr()))
        elif isinstance(st, (ast.For, ast.comprehension)):
            if any(isinstance(n, ast.Name) and n.id == name for n in ast.walk(st.target)):
                out.append(('for', st, st.iter, None))
        elif isinstance(st, ast.arg) and st.arg == name and st in fn.args.args:
            out.append(('param', st, None, None))
    return out


def _collector_scope(repo, name, depth=0):
    """'subtree' / 'local' / None for a method of Component's MRO that collects objects with a filter:
    subtree = its work list descends into the __dict__ of the NamedObjects it pops; local = it only looks at the
    receiver's own attributes (and lists); wrappers are classified by what they return."""
    cache = repo.__dict__.setdefault('_c15_scopes', {})
    if name in cache:
        return cache[name]
    cache[name] = None
    m, c = _component(repo)
    hit = repo.lookup_method(m, c, name)
    if hit is None or depth > 3:
        return None
    fn = hit[2]
    me = _params(fn)[0]
    res = None
    loops = [n for n in walk_no_nested(fn) if isinstance(n, ast.While)]
    pops = [st for w in loops for st in w.body if isinstance(st, ast.Assign) and isinstance(st.value, ast.Call)
            and isinstance(st.value.func, ast.Attribute) and st.value.func.attr in ('pop', 'popleft') and isinstance(st.targets[0], ast.Name)]
    if pops:
        u = pops[0].targets[0].id
        descends = any(isinstance(n, ast.For) and norm(n.iter) == f"{u}.__dict__.items()" for w in loops for n in ast.walk(w))
        own = any(isinstance(n, ast.For) and norm(n.iter) == f"{me}.__dict__.items()" for n in walk_no_nested(fn))
        res = 'subtree' if descends else ('local' if own else None)
    else:
        scopes = []
        for rt in [n for n in walk_no_nested(fn) if isinstance(n, ast.Return) and n.value is not None]:
            v = rt.value
            if isinstance(v, ast.Call) and isinstance(v.func, ast.Attribute) and norm(v.func.value) == me:
                scopes.append(_collector_scope(repo, v.func.attr, depth + 1))
            elif isinstance(v, (ast.SetComp, ast.ListComp)) and len(v.generators) == 1 and \
                    (_dsl_attr(v.generators[0].iter) or ('', ''))[1] == 'all_named_objects':
                scopes.append('subtree')         # the whole elaborated design (only available at the top)
            else:
                scopes.append(None)
        if scopes and None not in scopes:
            res = 'local' if 'local' in scopes else 'subtree'
    cache[name] = res
    return res


class SetDom:
    """set-valued locals as frozensets of atoms
       ('coll', root, Class)              objects of Class collected from the subtree of `root`
       ('fieldof', F, atoms)              union of x._dsl.F over x in atoms
    None = unknown."""
    repo = None      # set by the rules: needed to classify accessor methods by their source

    def __init__(self, fn):
        self.fn = fn
        self._busy = set()

    def collect_call(self, call, index):
        if not (isinstance(call, ast.Call) and isinstance(call.func, ast.Attribute)):
            return None
        root = norm(call.func.value)
        if call.func.attr == '_collect_all_single' and index is None and len(call.args) == 1:
            cl = _lambda_classes(call.args[0])
            return None if cl is None else frozenset(('coll', root, c) for c in cl)
        if call.func.attr == '_collect_all' and index is not None and len(call.args) == 1 and \
                isinstance(call.args[0], (ast.List, ast.Tuple)) and index < len(call.args[0].elts):
            cl = _lambda_classes(call.args[0].elts[index])
            return None if cl is None else frozenset(('coll', root, c) for c in cl)
        # other members of the accessor family: scope derived from their source
        if index is None and call.args and SetDom.repo is not None and isinstance(call.func.value, ast.Name):
            scope = _collector_scope(SetDom.repo, call.func.attr)
            cl = _lambda_classes(call.args[0])
            if scope and cl:
                return frozenset(('coll' if scope == 'subtree' else 'local', root, c) for c in cl)
        return None

    def of(self, e, at=None):
        if isinstance(e, ast.Name):
            if e.id in self._busy:
                return frozenset()
            self._busy.add(e.id)
            try:
                return self._of_name(e.id)
            finally:
                self._busy.discard(e.id)
        if isinstance(e, ast.BinOp) and isinstance(e.op, ast.BitOr):
            a, b = self.of(e.left), self.of(e.right)
            return None if a is None or b is None else a | b
        if isinstance(e, ast.BinOp) and isinstance(e.op, ast.Sub):
            return self.of(e.left)          # kinds of objects: a difference holds no other kind than its left operand
        if isinstance(e, ast.SetComp) and len(e.generators) == 2 and isinstance(e.elt, ast.Name) and \
                isinstance(e.generators[1].target, ast.Name) and e.generators[1].target.id == e.elt.id and \
                not e.generators[0].ifs and not e.generators[1].ifs and isinstance(e.generators[0].target, ast.Name):
            da = _dsl_attr(e.generators[1].iter)
            base = self.of(e.generators[0].iter)
            if da and da[0] == e.generators[0].target.id and base is not None:
                return frozenset([('fieldof', da[1], base)])
            return None
        if isinstance(e, ast.Call) and isinstance(e.func, ast.Attribute) and e.func.attr == 'union' and len(e.args) == 1 \
                and isinstance(e.args[0], ast.Starred) and isinstance(e.args[0].value, (ast.ListComp, ast.GeneratorExp)):
            c = e.args[0].value
            head = self.of(e.func.value)
            if len(c.generators) == 1 and not c.generators[0].ifs and isinstance(c.generators[0].target, ast.Name) and head is not None:
                da = _dsl_attr(c.elt)
                base = self.of(c.generators[0].iter)
                if da and da[0] == c.generators[0].target.id and base is not None:
                    return head | frozenset([('fieldof', da[1], base)])
            return None
        if isinstance(e, ast.Call) and isinstance(e.func, ast.Name) and e.func.id in ('set', 'list', 'frozenset', 'tuple', 'sorted') \
                and len(e.args) == 1 and not isinstance(e.args[0], ast.Starred):
            return self.of(e.args[0], at)          # the same objects in another container
        if isinstance(e, ast.Call):
            if norm(e) == 'set()':
                return frozenset()
            if isinstance(e.func, ast.Attribute) and e.func.attr == 'union' and len(e.args) == 1:
                a, b = self.of(e.func.value), self.of(e.args[0])
                return None if a is None or b is None else a | b
            return self.collect_call(e, None)
        da = _dsl_attr(e)
        if da and at is not None:
            # x._dsl.F with x the variable of an enclosing loop over a known set
            for a in _ancestors(at, self.fn):
                if isinstance(a, ast.For) and any(isinstance(n, ast.Name) and n.id == da[0] for n in ast.walk(a.target)):
                    base = self.of(a.iter) if isinstance(a.target, ast.Name) else None
                    if base is not None:
                        return frozenset([('fieldof', da[1], base)])
                    return None
        return None

    def _of_name(self, name):
        bs = _bindings(self.fn, name)
        if not bs:
            return None
        acc = frozenset()
        for k, st, val, extra in bs:
            if k == 'assign':
                v = self.of(val)
            elif k == 'unpack':
                v = self.collect_call(val, extra)
            elif k == 'aug' and isinstance(extra, ast.BitOr):
                v = self.of(val, st)
            else:
                v = None
            if v is None:
                return None
            acc |= v
        return acc


def _fmt_atoms(s, roots=True):
    if s is None:
        return '?'
    out = []
    for a in sorted(s, key=repr):
        if a[0] == 'coll':
            out.append(f"{a[2]}@{a[1]}" if roots else a[2])
        elif a[0] == 'local':
            out.append(f"own-attributes-only {a[2]}@{a[1]}" if roots else f"own-attributes-only {a[2]}")
        else:
            out.append(f"{a[1]}-of({_fmt_atoms(a[2], roots)})")
    return '{' + ', '.join(out) + '}'


def _classes(s):
    return {a[2] for a in s if a[0] == 'coll'}


def _subclass_table(repo):
    """class name -> set of direct base names, over the non-test modules of pymtl3/dsl"""
    tab = {}
    for rel in repo.py_files(DSL):
        m = repo.mod(rel)
        for c in m.classes.values():
            tab.setdefault(c.name, set()).update(b.id for b in c.bases if isinstance(b, ast.Name))
    return tab


def _covers(tab, maintained, family):
    """does some maintained class equal `family` or descend from it through a linear chain
    (each class on the way has exactly one direct subclass in pymtl3/dsl)?"""
    children = {}
    for c, bases in tab.items():
        for b in bases:
            children.setdefault(b, set()).add(c)
    cur = family
    seen = set()
    while cur not in seen:
        seen.add(cur)
        if cur in maintained:
            return True
        ch = children.get(cur, set())
        if len(ch) != 1:
            return False
        cur = next(iter(ch))
    return False


def _top_agg(e, at):
    """<name>._dsl.all_X (alias-expanded) -> all_X"""
    da = _dsl_attr(_expand(e, at))
    if da and da[1].startswith('all_'):
        return da[1]
    return None


def _site_sets(fn, op):
    """{agg: [(atoms, stmt)]} for `<top>._dsl.all_X op= <set expr>` statements of fn"""
    dom = SetDom(fn)
    out = {}
    for st in walk_no_nested(fn):
        tgt = val = None
        if isinstance(st, ast.AugAssign) and isinstance(st.op, op):
            tgt, val = st.target, st.value
        elif isinstance(st, ast.Expr) and isinstance(st.value, ast.Call) and isinstance(st.value.func, ast.Attribute) \
                and len(st.value.args) == 1 and \
                st.value.func.attr == ('update' if op is ast.BitOr else 'difference_update'):
            tgt, val = st.value.func.value, st.value.args[0]
        if tgt is None:
            continue
        a = _top_agg(tgt, st)
        if a is None:
            continue
        out.setdefault(a, []).append((dom.of(val), st))
    return out


def _elab_population(repo):
    """{agg: (class name, mod, qual, stmt)} -- which class of objects elaboration puts into the set aggregates"""
    out = {}
    m, c = _component(repo)
    hit = repo.lookup_method(m, c, '_elaborate_collect_all_vars')
    if hit is None:
        raise AnalysisError("anchor vanished: _elaborate_collect_all_vars")
    fm, fc, fn = hit
    me = _params(fn)[0]
    for st in walk_no_nested(fn):
        if isinstance(st, ast.Expr) and isinstance(st.value, ast.Call) and isinstance(st.value.func, ast.Attribute) \
                and st.value.func.attr == 'add' and len(st.value.args) == 1 and isinstance(st.value.args[0], ast.Name):
            da = _dsl_attr(st.value.func.value)
            if not (da and da[0] == me and da[1].startswith('all_')):
                continue
            var = st.value.args[0].id
            cls = [it[1] for g in guards_of(st) if g.kind == 'if' and g.polarity
                   for it in [_isinstance_test(g.test)] if it and it[0] == var]
            if len(cls) != 1 or len(cls[0]) != 1:
                raise AnalysisError(f"{fc.name}._elaborate_collect_all_vars: cannot tell the class put into {da[1]}")
            out[da[1]] = (cls[0][0], fm, f"{fc.name}._elaborate_collect_all_vars", st)
    nm = repo.mod(NAMED)
    f2 = nm.get_func('NamedObject._elaborate_collect_all_named_objects')
    f3 = nm.get_func('NamedObject._collect_all_single')
    for st in walk_no_nested(f2):
        if isinstance(st, ast.Assign) and _dsl_attr(st.targets[0]) and _dsl_attr(st.targets[0])[1] == 'all_named_objects':
            v = st.value
            if not (isinstance(v, ast.Call) and isinstance(v.func, ast.Attribute) and v.func.attr == '_collect_all_single'):
                raise AnalysisError("all_named_objects is no longer built by _collect_all_single")
            lam = v.args[0] if v.args else (f3.args.defaults[-1] if f3.args.defaults else None)
            cl = _lambda_classes(lam)
            if not cl or len(cl) != 1:
                raise AnalysisError("cannot tell the filter class of all_named_objects")
            out['all_named_objects'] = (cl[0], nm, 'NamedObject._elaborate_collect_all_named_objects', st)
    return out


def _call_sites(fn, meth):
    return [n for n in walk_no_nested(fn) if isinstance(n, ast.Call) and isinstance(n.func, ast.Attribute)
            and n.func.attr == meth]


# ---------------------------------------------------------------------------
# index walk to the innermost list of a list-of-lists field:  L = descend(L, I[:-1]) ; slot = L[I[-1]]
def _index_walk(nodes):
    """find the walk among `nodes`; -> dict(L, I, counter, node, why) ; why != '' when the bound is wrong"""
    def step(body, L=None):
        """`L = L[<k>]` as the only effect of a loop body -> (L, key expr)"""
        for st in body:
            if isinstance(st, ast.Assign) and len(st.targets) == 1 and isinstance(st.targets[0], ast.Name) and \
                    isinstance(st.value, ast.Subscript) and isinstance(st.value.value, ast.Name) and \
                    st.value.value.id == st.targets[0].id:
                return st.targets[0].id, st.value.slice
        return None, None

    def all_but_last(e):
        """I[:-1] -> I"""
        if isinstance(e, ast.Subscript) and isinstance(e.value, ast.Name) and isinstance(e.slice, ast.Slice) and \
                e.slice.lower is None and e.slice.step is None and norm(e.slice.upper) in ('-1', f"len({e.value.id}) - 1"):
            return e.value.id
        return None
    for n in nodes:
        if isinstance(n, ast.While):
            L, key = step(n.body)
            incs = [st for st in n.body if isinstance(st, ast.AugAssign) and isinstance(st.op, ast.Add) and
                    isinstance(st.target, ast.Name) and norm(st.value) == '1']
            if L and incs and isinstance(key, ast.Subscript) and isinstance(key.value, ast.Name) and norm(key.slice) == incs[0].target.id:
                c, I = incs[0].target.id, key.value.id
                init = reaching_value(c, n)
                why = '' if (init is not None and norm(init) == '0') else f"counter {c} does not start at 0"
                # the loop must run exactly for i = 0 .. len(I)-2: evaluate the bound for every (i, len) up to length 5
                for ln in range(1, 6):
                    for i in range(0, ln + 1):
                        try:
                            v = _int_eval(n.test, {c: i}, I, ln)
                        except AnalysisError as e:
                            return dict(L=L, I=I, counter=c, node=n, why=str(e))
                        if bool(v) != (i < ln - 1) and not why:
                            why = f"loop condition `{norm(n.test)}` is {bool(v)} for {c}={i}, len({I})={ln}; the walk must stop at the " \
                                  f"innermost list (i < len - 1)"
                return dict(L=L, I=I, counter=c, node=n, why=why)
        elif isinstance(n, ast.For):
            L, key = step(n.body)
            if not L:
                continue
            I = all_but_last(n.iter)
            if I and isinstance(n.target, ast.Name) and norm(key) == n.target.id:
                return dict(L=L, I=I, counter=None, node=n, why='')
            if isinstance(n.iter, ast.Call) and norm(n.iter.func) == 'range' and len(n.iter.args) == 1 and isinstance(n.target, ast.Name) \
                    and isinstance(key, ast.Subscript) and isinstance(key.value, ast.Name) and norm(key.slice) == n.target.id:
                I = key.value.id
                why = '' if norm(n.iter.args[0]) == f"len({I}) - 1" else f"range bound `{norm(n.iter.args[0])}` is not len({I}) - 1"
                return dict(L=L, I=I, counter=None, node=n, why=why)
        elif isinstance(n, ast.Assign) and len(n.targets) == 1 and isinstance(n.targets[0], ast.Name) and isinstance(n.value, ast.Call) \
                and norm(n.value.func) in ('reduce', 'functools.reduce') and len(n.value.args) == 3 and isinstance(n.value.args[0], ast.Lambda):
            lam = n.value.args[0]
            a = [x.arg for x in lam.args.args]
            I = all_but_last(n.value.args[1])
            if len(a) == 2 and norm(lam.body) == f"{a[0]}[{a[1]}]" and I:
                return dict(L=n.targets[0].id, I=I, counter=None, node=n, why='')
    return None


def _int_eval(e, env, I, ln):
    """integer / comparison evaluation of a loop bound with len(I) = ln"""
    if isinstance(e, ast.Constant) and isinstance(e.value, int):
        return e.value
    if isinstance(e, ast.Name) and e.id in env:
        return env[e.id]
    if isinstance(e, ast.Call) and norm(e.func) == 'len' and len(e.args) == 1 and norm(e.args[0]) == I:
        return ln
    if isinstance(e, ast.BinOp) and isinstance(e.op, (ast.Add, ast.Sub)):
        a, b = _int_eval(e.left, env, I, ln), _int_eval(e.right, env, I, ln)
        return a + b if isinstance(e.op, ast.Add) else a - b
    if isinstance(e, ast.UnaryOp) and isinstance(e.op, ast.Not):
        return not _int_eval(e.operand, env, I, ln)
    if isinstance(e, ast.Compare) and len(e.ops) == 1:
        a, b = _int_eval(e.left, env, I, ln), _int_eval(e.comparators[0], env, I, ln)
        op = e.ops[0]
        table = {ast.Lt: a < b, ast.LtE: a <= b, ast.Gt: a > b, ast.GtE: a >= b, ast.Eq: a == b, ast.NotEq: a != b}
        if type(op) in table:
            return table[type(op)]
    raise AnalysisError(f"index-walk bound outside the domain: {norm(e)}")


def _is_last_slot(sub, walk):
    """sub == L[ I[<last>] ] for the walk's L and I  (I[c] with the while counter, I[-1], I[len(I)-1])"""
    if not (isinstance(sub, ast.Subscript) and isinstance(sub.value, ast.Name) and walk and sub.value.id == walk['L']):
        return False
    k = sub.slice
    if not (isinstance(k, ast.Subscript) and isinstance(k.value, ast.Name) and k.value.id == walk['I']):
        return False
    return (walk['counter'] is not None and norm(k.slice) == walk['counter']) or \
        norm(k.slice) in ('-1', f"len({walk['I']}) - 1")


def _key_eval(e, env):
    """evaluate a filter on a __dict__ key over a representative key value (restricted vocabulary)"""
    if isinstance(e, ast.Constant):
        return e.value
    if isinstance(e, ast.Name):
        if e.id in env:
            return env[e.id]
        if e.id in ('str', 'tuple', 'list', 'int'):
            return {'str': str, 'tuple': tuple, 'list': list, 'int': int}[e.id]
    if isinstance(e, ast.Tuple):
        return tuple(_key_eval(x, env) for x in e.elts)
    if isinstance(e, ast.Subscript) and isinstance(e.slice, ast.Constant):
        return _key_eval(e.value, env)[e.slice.value]
    if isinstance(e, ast.Subscript) and isinstance(e.slice, ast.Slice) and \
            all(x is None or isinstance(x, ast.Constant) for x in (e.slice.lower, e.slice.upper, e.slice.step)):
        sl = slice(*[None if x is None else x.value for x in (e.slice.lower, e.slice.upper, e.slice.step)])
        return _key_eval(e.value, env)[sl]
    if isinstance(e, ast.UnaryOp) and isinstance(e.op, ast.Not):
        return not _key_eval(e.operand, env)
    if isinstance(e, ast.BoolOp):
        if isinstance(e.op, ast.And):
            return all(_key_eval(v, env) for v in e.values)      # short-circuit like Python
        return any(_key_eval(v, env) for v in e.values)
    if isinstance(e, ast.Compare) and len(e.ops) == 1:
        a, b = _key_eval(e.left, env), _key_eval(e.comparators[0], env)
        op = e.ops[0]
        if isinstance(op, ast.Eq):
            return a == b
        if isinstance(op, ast.NotEq):
            return a != b
        if isinstance(op, ast.Is):
            return a is b
        if isinstance(op, ast.IsNot):
            return a is not b
        if isinstance(op, ast.In):
            return a in b
        if isinstance(op, ast.NotIn):
            return a not in b
    if isinstance(e, ast.Call) and isinstance(e.func, ast.Name) and e.func.id == 'isinstance' and len(e.args) == 2:
        return isinstance(_key_eval(e.args[0], env), _key_eval(e.args[1], env))
    if isinstance(e, ast.Call) and isinstance(e.func, ast.Name) and e.func.id == 'type' and len(e.args) == 1:
        return type(_key_eval(e.args[0], env))
    if isinstance(e, ast.Call) and isinstance(e.func, ast.Attribute) and e.func.attr in ('startswith', 'endswith') and len(e.args) == 1:
        return getattr(_key_eval(e.func.value, env), e.func.attr)(_key_eval(e.args[0], env))
    raise AnalysisError(f"child-enumeration filter outside the domain: {norm(e)}")


def rule_sites(repo):
    SetDom.repo = repo
    r = RuleResult('R-C15-sites', "_add_component and _delete_component maintain all_components / all_signals / "
                   "all_method_ports / all_named_objects over the same classes of objects (and the classes elaboration "
                   "puts there), and call _collect_vars / _uncollect_vars for the same set of components")
    m = repo.mod(COMP)
    addf, delf = m.get_func(ADD_QUAL), m.get_func(DEL_QUAL)
    aps, dps = _params(addf), _params(delf)
    if len(aps) < 5 or len(dps) != 2:
        raise AnalysisError("signature of _add_component / _delete_component_internal changed")
    new_obj, old_obj = aps[4], dps[1]
    adds, rems = _site_sets(addf, ast.BitOr), _site_sets(delf, ast.Sub)
    pop = _elab_population(repo)
    tab = _subclass_table(repo)
    for agg in sorted(set(adds) | set(rems) | set(pop)):
        A, R = adds.get(agg, []), rems.get(agg, [])
        if any(s is None for s, _ in A + R):
            bad = [st for s, st in A + R if s is None][0]
            raise AnalysisError(f"R-C15-sites: operand of `{norm(bad)}` is outside the set domain")
        aset = frozenset().union(*[s for s, _ in A]) if A else frozenset()
        rset = frozenset().union(*[s for s, _ in R]) if R else frozenset()
        for s, st in A:
            for a in s:
                if a[0] == 'local':
                    r.bad(m, ADD_QUAL, f"{agg}: {a[2]} objects added over the own attributes of the new component only",
                          f"`{norm(st)}` adds a set collected from the attributes of `{a[1]}` itself; {a[2]} objects nested deeper in "
                          f"the new component never reach {agg}", st.lineno)
                elif a[0] != 'coll' or a[1] != new_obj:
                    r.bad(m, ADD_QUAL, norm(st), f"{agg} is extended with {_fmt_atoms(s)}, not with objects collected "
                          f"from the new component `{new_obj}`", st.lineno)
        for s, st in R:
            for a in s:
                if a[0] == 'local':
                    r.bad(m, DEL_QUAL, f"{agg}: {a[2]} objects removed over the own attributes of the removed component only",
                          f"`{norm(st)}` subtracts a set collected from the attributes of `{a[1]}` itself (the accessor does not descend "
                          f"into its sub-components / interfaces), while _add_component inserts and elaboration collects the whole "
                          f"subtree: {a[2]} objects nested deeper in the removed component stay in {agg} after replace_component", st.lineno)
                elif a[0] != 'coll' or a[1] != old_obj:
                    r.bad(m, DEL_QUAL, norm(st), f"{agg} is reduced by {_fmt_atoms(s)}, not by objects collected "
                          f"from the removed component `{old_obj}`", st.lineno)
        ca, cr = _classes(aset), _classes(rset)
        cons = f"{agg}: added {sorted(ca)} / removed {sorted(cr)}"
        if ca != cr:
            where = (R or A)[0][1]
            r.bad(m, DEL_QUAL if ca - cr else ADD_QUAL, cons,
                  f"classes added by _add_component and removed by _delete_component differ for {agg}: "
                  f"{sorted(ca - cr)} are added but never removed, {sorted(cr - ca)} removed but never re-added; "
                  f"after one replacement the set differs from a fresh build", where.lineno)
        else:
            r.ok(m, 'Component._add_component/_delete_component', cons)
        # population: what elaboration puts into the aggregate must be maintained
        if agg in pop:
            ecls, em, equal, est = pop[agg]
            families = [ecls] if ecls != 'NamedObject' else sorted(c for c, b in tab.items() if 'NamedObject' in b)
            if not families:
                raise AnalysisError("no NamedObject families found in pymtl3/dsl")
            for side, cs, qual, sites in (('added', ca, ADD_QUAL, A), ('removed', cr, DEL_QUAL, R)):
                for fam in families:
                    c2 = f"{agg}: objects of class {fam} {side}"
                    if _covers(tab, cs, fam):
                        r.ok(m, qual, c2)
                    else:
                        verb = "inserts" if side == 'added' else "removes"
                        r.bad(m, qual, c2, f"elaboration fills {agg} with every {ecls} (family {fam} included) but "
                              f"{qual.split('.')[1]} only {verb} {sorted(cs)}: after replace_component the "
                              f"{fam} objects of the old component stay in {agg} / those of the new one are missing "
                              f"(e.g. get_all_object_filter returns stale {fam} objects)", sites[0][1].lineno if sites else 0)
    # call symmetry
    cc = [c for c in _call_sites(addf, '_collect_vars')]
    uc = [c for c in _call_sites(delf, '_uncollect_vars')]
    if len(cc) != 1:
        r.bad(m, ADD_QUAL, '_collect_vars call', f"expected exactly one _collect_vars call site, found {len(cc)}: the new "
              f"component's update blocks / constraints never reach the top-level aggregates", addf.lineno)
    if len(uc) != 1:
        r.bad(m, DEL_QUAL, '_uncollect_vars call', f"expected exactly one _uncollect_vars call site, found {len(uc)}: "
              f"the removed component's update blocks / constraints stay in the top-level aggregates", delf.lineno)
    for fn, qual, calls, root in ((addf, ADD_QUAL, cc, new_obj), (delf, DEL_QUAL, uc, old_obj)):
        for call in calls[:1]:
            dom = SetDom(fn)
            arg = call.args[0] if len(call.args) == 1 else None
            over = None
            if isinstance(arg, ast.Name):
                fors = [st for k, st, it, _ in _bindings(fn, arg.id) if k == 'for' and
                        any(st is a for a in _ancestors(call, fn))]
                if fors:
                    over = dom.of(fors[0].iter)
            cons = f"{norm(call)} for every component of {root}"
            if over != frozenset([('coll', root, 'Component')]):
                r.bad(m, qual, cons, f"`{norm(call)}` does not run over all Component objects collected from `{root}` "
                      f"(runs over {_fmt_atoms(over) if over is not None else norm(arg)}): nested components are "
                      f"not (un)collected", call.lineno)
                continue
            recv = norm(call.func.value)
            tops = [norm(v) for k, st, v, _ in _bindings(fn, recv) if k == 'assign']
            if not (recv == _params(fn)[0] or (tops and all(t.endswith('._dsl.elaborate_top') for t in tops))):
                r.bad(m, qual, cons, f"receiver `{recv}` is not the elaborated top", call.lineno)
                continue
            gs = [g for g in _all_guards(call, fn) if g.kind in ('if', 'exit')]
            if gs:
                gt = ' and '.join(f"{'' if g.polarity else 'not '}{norm(g.test)}" for g in gs)
                r.bad(m, qual, f"{call.func.attr} call guarded by {gt.replace(root, '<root>')}",
                      f"the call is conditional ({gt}) while the opposite half runs for "
                      f"every component: in the excluded situation the components below `{root}` keep their update "
                      f"blocks / metadata in the top-level aggregates (stale writers -> later net resolution touches "
                      f"deleted signals)", call.lineno)
            else:
                r.ok(m, qual, cons)
    # ordering: update blocks spawn named objects lazily (slices / struct fields are created while the read/write sets
    # are materialised), so everything but the components themselves must be collected AFTER _elaborate_read_write_func
    erw = _call_sites(addf, '_elaborate_read_write_func')
    ref = None
    for fm, fc, ef in _defs(repo, 'elaborate'):
        e1 = _call_sites(ef, '_elaborate_read_write_func')
        e2 = _call_sites(ef, '_elaborate_collect_all_named_objects')
        if e1 and e2:
            ref = (fc.name, e1[0].lineno < e2[0].lineno)
            break
    if ref is None:
        raise AnalysisError("anchor vanished: elaborate() calling _elaborate_read_write_func and _elaborate_collect_all_named_objects")
    if not ref[1]:
        raise AnalysisError(f"{ref[0]}.elaborate collects named objects before elaborating read/write sets; the reference order "
                            f"this clause relies on is gone")

    def top_idx(node):
        cur = node
        while cur is not None and not any(cur is b for b in addf.body):
            cur = parent(cur)
        return None if cur is None else [i for i, b in enumerate(addf.body) if b is cur][0]
    erw_ok = False
    if len(erw) == 1 and isinstance(erw[0].func.value, ast.Name):
        loopv = erw[0].func.value.id
        iters = [a.iter for a in _ancestors(erw[0], addf) if isinstance(a, ast.For) and isinstance(a.target, ast.Name)
                 and a.target.id == loopv]
        for a in _ancestors(erw[0], addf):
            if isinstance(a, (ast.ListComp, ast.GeneratorExp, ast.SetComp)):
                iters += [g.iter for g in a.generators if isinstance(g.target, ast.Name) and g.target.id == loopv and not g.ifs]
        gs = [g for g in _all_guards(erw[0], addf) if g.kind in ('if', 'exit')]
        if iters and not gs and SetDom(addf).of(iters[0]) == frozenset([('coll', new_obj, 'Component')]):
            erw_ok = True
    if not erw_ok:
        r.bad(m, ADD_QUAL, '_elaborate_read_write_func for every added component', "the read/write/call sets of every component "
              f"collected from `{new_obj}` must be materialised (unconditionally, once) before _collect_vars uses them", addf.lineno)
    else:
        r.ok(m, ADD_QUAL, f"_elaborate_read_write_func() for every component of {new_obj}")
        for c in [n for n in walk_no_nested(addf) if isinstance(n, ast.Call) and isinstance(n.func, ast.Attribute)
                  and n.func.attr in ('_collect_all', '_collect_all_single') and norm(n.func.value) == new_obj]:
            lams = c.args[0].elts if c.args and isinstance(c.args[0], (ast.List, ast.Tuple)) else c.args[:1]
            cls = set()
            for lam in lams:
                cl = _lambda_classes(lam)
                if cl is None:
                    raise AnalysisError(f"{ADD_QUAL}: collector filter outside the domain: {norm(lam)}")
                cls |= set(cl)
            late = sorted(cls - {'Component'})
            if not late:
                continue
            cons = f"{sorted(cls)} of {new_obj} collected after _elaborate_read_write_func"
            if top_idx(c) is not None and top_idx(c) > top_idx(erw[0]):
                r.ok(m, ADD_QUAL, cons)
            else:
                r.bad(m, ADD_QUAL, f"{late} of {new_obj} collected before _elaborate_read_write_func",
                      f"`{norm(c)[:90]}` runs before the loop that calls _elaborate_read_write_func(); that call creates the "
                      f"slice / struct-field signals used only inside update blocks, so they are missing from "
                      f"{', '.join(a for a in sorted(adds) if set(_classes(frozenset().union(*[x for x, _ in adds[a] if x]))) & set(late))} "
                      f"after the replacement ({ref[0]}.elaborate collects named objects after this step)", c.lineno)
    # eval() of a saved name (`s.c.in_[0:4]`, a struct field) creates the slice / field object of the NEW component on demand:
    # the signals of the new component must be (re-)collected into all_signals / all_named_objects after the last eval
    evs = [n for n in walk_no_nested(addf) if isinstance(n, ast.Call) and norm(n.func) == 'eval']
    if evs and erw_ok:
        last_ev = max(top_idx(n) for n in evs)
        for agg in ('all_signals', 'all_named_objects'):
            late = [st for sv, st in adds.get(agg, []) if sv and ('coll', new_obj, 'Signal') in sv and top_idx(st) > last_ev]
            # ... and the collected set itself must have been computed after the last eval
            fresh_late = []
            for st in late:
                val = st.value if isinstance(st, ast.AugAssign) else st.value.args[0]
                names = [n.id for n in ast.walk(val) if isinstance(n, ast.Name)]
                calls_after = [c for c in ast.walk(val) if isinstance(c, ast.Call)]
                ok_b = bool(calls_after)
                for nm_ in names:
                    for k, bst, v, _ in _bindings(addf, nm_):
                        if k in ('assign', 'unpack') and any(isinstance(c, ast.Call) and isinstance(c.func, ast.Attribute) and
                                                             c.func.attr.startswith('_collect_all') for c in ast.walk(v)) \
                                and top_idx(bst) > last_ev:
                            ok_b = True
                if ok_b:
                    fresh_late.append(st)
            cons = f"{agg}: signals of {new_obj} spawned by eval() of the saved names are collected"
            if fresh_late:
                r.ok(m, ADD_QUAL, cons)
            else:
                r.bad(m, ADD_QUAL, f"{agg}: signals of {new_obj} are collected before eval() of the saved names",
                      f"_add_component evaluates the saved names ({len(evs)} eval calls) after the last collection of {new_obj}'s "
                      f"signals; a saved name such as `s.c.in_[0:4]` creates the slice / struct-field signal of the replacement on "
                      f"demand, which therefore never reaches {agg}: net resolution starts from all_signals, so a constant or "
                      f"connection on such a sub-signal is lost (the port reads 0) unlike in a fresh build", evs[0].lineno)
    # attribute / field registry of the parent (non-list branch)
    rm = [n for n in walk_no_nested(delf) if isinstance(n, ast.Call) and isinstance(n.func, ast.Attribute)
          and n.func.attr in ('remove', 'discard') and _dsl_attr(n.func.value)
          and _dsl_attr(n.func.value)[1] == 'NamedObject_fields']
    da = [n for n in walk_no_nested(delf) if isinstance(n, ast.Call) and norm(n.func) == 'delattr']
    if rm and da and norm(rm[0].args[0]) == norm(da[0].args[1]):
        r.ok(m, DEL_QUAL, f"{norm(da[0])} ; {norm(rm[0])}")
    else:
        r.bad(m, DEL_QUAL, 'delattr + NamedObject_fields.remove', "a plain-field child must be deleted from the parent "
              "and from parent._dsl.NamedObject_fields under the same name, otherwise re-adding it raises "
              "FieldReassignError / AttributeError", delf.lineno)
    # list slot: cleared after the index walk on removal, required to be None on insertion; same branch criterion
    t = None
    for st in delf.body:
        if isinstance(st, ast.If) and '_my_indices' in norm(st.test):
            t = st
    wd = _index_walk(walk_no_nested(t)) if t is not None else None
    wa = _index_walk(walk_no_nested(addf))
    cleared = [s2 for s2 in (walk_no_nested(t) if t is not None else []) if isinstance(s2, ast.Assign)
               and isinstance(s2.targets[0], ast.Subscript) and isinstance(s2.value, ast.Constant) and s2.value.value is None]
    asserted = [s2 for s2 in walk_no_nested(addf) if isinstance(s2, ast.Assert) and isinstance(s2.test, ast.Compare)
                and isinstance(s2.test.left, ast.Subscript) and norm(s2.test.comparators[0]) == 'None'
                and isinstance(s2.test.ops[0], ast.Is)]
    stored = [s2 for s2 in walk_no_nested(addf) if isinstance(s2, ast.Assign) and isinstance(s2.targets[0], ast.Subscript)
              and norm(s2.value) == new_obj]
    ivar_ok = wd is not None and reaching_value(wd['I'], wd['node']) is not None and \
        norm(reaching_value(wd['I'], wd['node'])) == f"{old_obj}._dsl._my_indices"
    if t is not None and norm(t.test) == f"{old_obj}._dsl._my_indices" and wd and wa and ivar_ok and wa['I'] == aps[3] and \
            cleared and asserted and stored and _is_last_slot(cleared[0].targets[0], wd) and \
            _is_last_slot(asserted[0].test.left, wa) and _is_last_slot(stored[0].targets[0], wa):
        r.ok(m, DEL_QUAL, f"{norm(cleared[0])} (list element) <-> {norm(asserted[0].test)} ; {norm(stored[0])}")
    else:
        r.bad(m, DEL_QUAL, 'list slot cleared', "for a list element (non-empty _my_indices) the slot reached by the index walk "
              "(the LAST index in the innermost list) must be set to None, which is what _add_component asserts before storing "
              "the new element in the same slot", delf.lineno)
    # the parent's connect_order is rebuilt without pairs touching a removed signal (judged on the meaning of the
    # rebuilt list: same source list, same elements, kept iff NEITHER end is a removed signal)
    dom = SetDom(delf)
    stores = [s2 for s2 in walk_no_nested(delf) if isinstance(s2, ast.Assign) and len(s2.targets) == 1 and
              (_dsl_attr(s2.targets[0]) or (None, None))[1] == 'connect_order']
    verdict, why_co, line_co = None, '', delf.lineno
    if not stores:
        verdict, why_co = False, "parent._dsl.connect_order is never replaced"
    for s2 in stores:
        base = _dsl_attr(s2.targets[0])[0]
        line_co = s2.lineno
        pb = [norm(v) for k, s3, v, _ in _bindings(delf, base) if k == 'assign']
        if pb != [f"{old_obj}.get_parent_object()"]:
            verdict, why_co = False, f"`{base}` is not the parent of the removed component"
            break
        builds = _list_builds(delf, s2.value)
        if len(builds) != 1:
            raise AnalysisError(f"R-C15-sites: the value stored into connect_order (`{norm(s2.value)[:60]}`) is outside the "
                                f"list-construction domain")
        b = builds[0]
        if len(b['gens']) != 1 or _dsl_attr(_expand(b['gens'][0].iter, s2)) != (base, 'connect_order'):
            verdict, why_co = False, "the new list is not built from the parent's current connect_order"
            break
        tg = b['gens'][0].target
        if isinstance(tg, ast.Tuple) and len(tg.elts) == 2 and all(isinstance(x, ast.Name) for x in tg.elts):
            ends = [tg.elts[0].id, tg.elts[1].id]
            same_elt = norm(b['elt']) == f"({ends[0]}, {ends[1]})"
        elif isinstance(tg, ast.Name):
            ends = [f"{tg.id}[0]", f"{tg.id}[1]"]
            same_elt = norm(b['elt']) == tg.id
        else:
            raise AnalysisError("R-C15-sites: connect_order loop target outside the domain")
        if not same_elt:
            verdict, why_co = False, f"the kept element `{norm(b['elt'])}` is not the original pair"
            break
        # evaluate the keep-condition for every kind of the two ends: survivor / removed signal / removed method port
        kinds = ('survivor', 'Signal', 'MethodPort')

        def holds(t, env):
            if isinstance(t, ast.BoolOp):
                vals = [holds(v, env) for v in t.values]
                return all(vals) if isinstance(t.op, ast.And) else any(vals)
            if isinstance(t, ast.UnaryOp) and isinstance(t.op, ast.Not):
                return not holds(t.operand, env)
            if isinstance(t, ast.Compare) and len(t.ops) == 1 and isinstance(t.ops[0], (ast.In, ast.NotIn)) and norm(t.left) in env:
                sv = dom.of(t.comparators[0])
                if sv is None or any(a[0] != 'coll' or a[1] != old_obj for a in sv):
                    raise AnalysisError(f"R-C15-sites: connect_order filter consults `{norm(t.comparators[0])}`, outside the set domain")
                inside = env[norm(t.left)] in _classes(sv)
                return inside if isinstance(t.ops[0], ast.In) else not inside
            raise AnalysisError(f"R-C15-sites: connect_order filter atom outside the domain: {norm(t)}")
        wrong = []
        keeps_mp = False
        for ka in kinds:
            for kb in kinds:
                env = {ends[0]: ka, ends[1]: kb}
                keep = all(holds(t, env) == pol for t, pol in b['conds'])
                r.evaluations += 1
                if 'Signal' in (ka, kb) and keep:
                    wrong.append(f"({ka}, {kb}) kept")
                if (ka, kb) == ('survivor', 'survivor') and not keep:
                    wrong.append("(survivor, survivor) dropped")
                if 'MethodPort' in (ka, kb) and 'Signal' not in (ka, kb) and keep:
                    keeps_mp = True
        if wrong:
            verdict, why_co = False, "the filter is wrong for pairs " + ', '.join(wrong)
            break
        verdict = True
        if keeps_mp:
            mp_writer = [f"{fc.name}.{f.name}" for fm, fc, f in _level_functions(repo) if 'method_port' in f.name and any(
                isinstance(n, ast.Call) and isinstance(n.func, ast.Attribute) and n.func.attr == 'append'
                and (_dsl_attr(n.func.value) or ('', ''))[1] == 'connect_order' for n in ast.walk(f))]
            if mp_writer:
                r.bad(m, DEL_QUAL, "connect_order keeps pairs of removed method ports",
                      f"{mp_writer[0]} records method-port connections in connect_order, but the rebuilt list only drops pairs "
                      f"with a removed *signal* end: after replacing a component whose method port is connected at the parent, "
                      f"get_connect_order() lists the pair with the <deleted> port next to the replayed one", s2.lineno)
    if verdict:
        r.ok(m, DEL_QUAL, "parent connect_order rebuilt without pairs whose either end is a removed signal")
    else:
        r.bad(m, DEL_QUAL, 'connect_order filter', f"parent._dsl.connect_order must be replaced by the pairs with NEITHER end in "
              f"the removed signals ({why_co}); otherwise get_connect_order() (used by translation) still lists connections to "
              f"deleted signals after the replacement", line_co)
    # the two collectors used for the added / removed sets traverse the hierarchy identically
    nm = repo.mod(NAMED)

    KEYS = {'public attribute': 'abc', 'private attribute': '_abc', 'slice key (tuple)': (1, 3), 'other key (int)': 5}

    def traversal(q):
        """what the collector visits: {kind of __dict__ key: pushed?}, lists descended?, start = [self], pops until empty"""
        f = nm.get_func(q)
        w = [n for n in walk_no_nested(f) if isinstance(n, ast.While)]
        if len(w) != 1:
            raise AnalysisError(f"{q}: traversal loop not found")
        pops = [st for st in w[0].body if isinstance(st, ast.Assign) and isinstance(st.value, ast.Call) and
                isinstance(st.value.func, ast.Attribute) and st.value.func.attr in ('pop', 'popleft') and isinstance(st.targets[0], ast.Name)]
        if len(pops) != 1:
            raise AnalysisError(f"{q}: work-list pop not found")
        stack, u = norm(pops[0].value.func.value), pops[0].targets[0].id
        tst = norm(w[0].test)
        if tst not in (stack, f"len({stack}) > 0", f"len({stack}) != 0", f"len({stack})", f"{stack} != []"):
            raise AnalysisError(f"{q}: loop condition `{tst}` is not `work list non-empty`")
        init = [x for x in f.body if isinstance(x, ast.Assign) and norm(x.targets[0]) == stack]
        feats = {'start': bool(init) and norm(init[0].value) in (f"[{_params(f)[0]}]", f"deque([{_params(f)[0]}])")}

        def pushes(stmts, env, item):
            """does executing stmts push `item` onto the work list?"""
            for st in stmts:
                if isinstance(st, ast.If):
                    if pushes(st.body if _key_eval(st.test, env) else st.orelse, env, item):
                        return True
                elif isinstance(st, ast.Expr) and isinstance(st.value, ast.Call) and isinstance(st.value.func, ast.Attribute) \
                        and norm(st.value.func.value) == stack and st.value.func.attr in ('append', 'extend', 'appendleft'):
                    a0 = st.value.args[0] if st.value.args else None
                    if st.value.func.attr.startswith('append') and norm(a0) == item:
                        return True
                    if st.value.func.attr == 'extend' and norm(a0) in (f"[{item}]", f"({item},)"):
                        return True
                elif isinstance(st, (ast.Pass, ast.Continue)):
                    if isinstance(st, ast.Continue):
                        return False
            return False
        named = lists = None
        for br in [n for n in ast.walk(w[0]) if isinstance(n, ast.If)]:
            it = _isinstance_test(br.test)
            if it and it[0] == u and it[1] == ['NamedObject'] and named is None:
                named = br
            if it and it[0] == u and it[1] == ['list'] and lists is None:
                lists = br
        if named is None:
            raise AnalysisError(f"{q}: NamedObject dispatch not found")
        fors = [n for n in named.body if isinstance(n, ast.For) and norm(n.iter) == f"{u}.__dict__.items()"
                and isinstance(n.target, ast.Tuple) and len(n.target.elts) == 2]
        if len(fors) != 1:
            raise AnalysisError(f"{q}: child enumeration over {u}.__dict__.items() not found")
        kname, oname = [norm(x) for x in fors[0].target.elts]
        for label, val in KEYS.items():
            feats[label] = pushes(fors[0].body, {kname: val}, oname)
            r.evaluations += 1
        feats['lists descended'] = bool(lists) and any(
            isinstance(n, ast.Call) and isinstance(n.func, ast.Attribute) and norm(n.func.value) == stack and
            ((n.func.attr == 'extend' and norm(n.args[0]) == u) or
             (n.func.attr == 'append' and isinstance(enclosing(n, (ast.For,)), ast.For) and norm(enclosing(n, (ast.For,)).iter) == u))
            for n in ast.walk(lists))
        return feats
    ta, tb = traversal('NamedObject._collect_all'), traversal('NamedObject._collect_all_single')
    if ta == tb and ta['start'] and ta['lists descended']:
        r.ok(nm, 'NamedObject._collect_all', "same traversal as _collect_all_single: " +
             ', '.join(f"{k}={'visited' if v else 'skipped'}" for k, v in ta.items() if k in KEYS))
    else:
        diff = [k for k in ta if ta[k] != tb[k]] or [k for k in ('start', 'lists descended') if not ta[k]]
        r.bad(nm, 'NamedObject._collect_all', 'traversal agreement with _collect_all_single',
              f"the two collectors enumerate the hierarchy differently ({', '.join(f'{k}: {ta[k]} vs {tb[k]}' for k in diff)}); "
              f"the sets added by _add_component and removed by _delete_component are computed by "
              f"different collectors and would no longer cover the same objects", 0)
    _floor(r, 30)
    return r


# ---------------------------------------------------------------------------
def _excluded_sets(call_stmt, loop, ovar):
    """sets S with a dominating `ovar not in S` between loop and the statement; other conditions returned apart"""
    conds = [(g.test, g.polarity) for g in guards_of(call_stmt, stop=loop) if g.kind in ('if', 'exit', 'assert')]
    return _exclusions(conds, ovar)


def _flatten_and(test, polarity):
    """atoms (test, polarity) implied by `test` evaluating to `polarity`"""
    out, todo = [], [(test, polarity)]
    while todo:
        t, pol = todo.pop()
        if isinstance(t, ast.BoolOp) and ((isinstance(t.op, ast.And) and pol) or (isinstance(t.op, ast.Or) and not pol)):
            todo += [(v, pol) for v in t.values]
        elif isinstance(t, ast.UnaryOp) and isinstance(t.op, ast.Not):
            todo.append((t.operand, not pol))
        else:
            out.append((t, pol))
    return out


def _selected_sets(conds, xvar):
    """set expressions S with a known-true `xvar in S`; a disjunction `xvar in A or xvar in B` yields the BinOp A | B"""
    out = []
    for c in conds:
        for t, pol in _flatten_and(*c):
            def pos(u, pl):
                return isinstance(u, ast.Compare) and len(u.ops) == 1 and norm(u.left) == xvar and \
                    ((isinstance(u.ops[0], ast.In) and pl) or (isinstance(u.ops[0], ast.NotIn) and not pl))
            if pos(t, pol):
                out.append(t.comparators[0])
            elif isinstance(t, ast.BoolOp) and ((isinstance(t.op, ast.Or) and pol) or (isinstance(t.op, ast.And) and not pol)):
                parts = []
                for v in t.values:
                    vv, vp = v, pol
                    while isinstance(vv, ast.UnaryOp) and isinstance(vv.op, ast.Not):
                        vv, vp = vv.operand, not vp
                    if pos(vv, vp):
                        parts.append(vv.comparators[0])
                    else:
                        parts = None
                        break
                if parts:
                    u = parts[0]
                    for q in parts[1:]:
                        u = ast.BinOp(left=u, op=ast.BitOr(), right=q)
                    out.append(u)
    return out


def _canon_conds(conds, dom, renames):
    """frozenset of canonical atoms of a conjunction: a positive membership (also `x in A or x in B`) of a variable in a
    set of known kind becomes ('sel', var role, atoms of the set); every other atom (polarity, text with roles renamed)"""
    def role_text(e):
        e = _clone(e)
        for n in ast.walk(e):
            if isinstance(n, ast.Name) and n.id in renames:
                n.id = renames[n.id]
        return norm(e)
    out = set()
    for c in conds:
        for t, pol in _flatten_and(*c):
            done = False
            for var, role in renames.items():
                sel = _selected_sets([(t, pol)], var)
                if len(sel) == 1 and dom.of(sel[0]) is not None:
                    out.add(('sel', role, dom.of(sel[0])))
                    done = True
                    break
            if not done:
                out.add((pol, role_text(t)))
    return frozenset(out)


def _exclusions(conds, ovar):
    """conds: [(test, polarity)] known to hold; -> ([S with `ovar not in S`], [other (test, polarity)])"""
    ex, other = [], []
    for test0, pol0 in conds:
        atoms = [(test0, pol0)]
        flat = []
        while atoms:
            t, pol = atoms.pop()
            if isinstance(t, ast.BoolOp) and ((isinstance(t.op, ast.And) and pol) or (isinstance(t.op, ast.Or) and not pol)):
                atoms += [(v, pol) for v in t.values]
            elif isinstance(t, ast.UnaryOp) and isinstance(t.op, ast.Not):
                atoms.append((t.operand, not pol))
            else:
                flat.append((t, pol))
        for t, pol in flat:
            if isinstance(t, ast.Compare) and len(t.ops) == 1 and isinstance(t.left, ast.Name):
                neg = (isinstance(t.ops[0], ast.NotIn) and pol) or (isinstance(t.ops[0], ast.In) and not pol)
                pos = (isinstance(t.ops[0], ast.In) and pol) or (isinstance(t.ops[0], ast.NotIn) and not pol)
                if t.left.id == ovar and neg:
                    ex.append(t.comparators[0])
                    continue
                if pos and t.left.id != ovar:
                    continue        # `x in A` presence test of the node itself
            other.append((t, pol))
    return ex, other


def _registry_key_fields(repo):
    """{(F, writer)}: fields <s>._dsl.<F> whose members are also written as keys of <s>._dsl.adjacency in one writer"""
    prov = set()
    for fm, fc, f in _level_functions(repo):
        keys = set()
        for n in ast.walk(f):
            if isinstance(n, ast.Subscript) and _dsl_attr(n.value) and _dsl_attr(n.value)[1] == 'adjacency' \
                    and isinstance(n.slice, ast.Name):
                keys.add(n.slice.id)
        for n in ast.walk(f):
            if isinstance(n, ast.Call) and isinstance(n.func, ast.Attribute) and n.func.attr == 'add' and len(n.args) == 1 \
                    and isinstance(n.args[0], ast.Name) and n.args[0].id in keys and _dsl_attr(n.func.value) \
                    and _dsl_attr(n.func.value)[1] != 'adjacency':
                prov.add((_dsl_attr(n.func.value)[1], f"{fc.name}.{f.name}"))
    return prov


def rule_keys(repo):
    SetDom.repo = repo
    r = RuleResult('R-C15-keys', "every key the additive half inserts into a keyed aggregate is deleted by the subtractive "
                   "half: graph nodes with their back edges, every set excluded from back-edge removal is itself deleted, "
                   "emptied defaultdict entries are pruned")
    m = repo.mod(COMP)
    fn = m.get_func(DEL_QUAL)
    dom = SetDom(fn)
    # node-removal loops:  for x in R: ... del A[x]
    loops = []     # (graph text, loop, xvar, R atoms, del stmt)
    for st in walk_no_nested(fn):
        if isinstance(st, ast.Delete):
            for t in st.targets:
                if isinstance(t, ast.Subscript) and isinstance(t.slice, ast.Name) and _dsl_attr(_expand(t.value, st)):
                    g = norm(_expand(t.value, st))
                    for a in _ancestors(st, fn):
                        if isinstance(a, ast.For) and isinstance(a.target, ast.Name) and a.target.id == t.slice.id:
                            if not (isinstance(a.iter, ast.Subscript) and norm(_expand(a.iter.value, a)) == g):
                                loops.append((g, a, t.slice.id, dom.of(a.iter), st))   # else: a neighbour, not a node loop
                            break
        elif isinstance(st, ast.Expr) and isinstance(st.value, ast.Call) and isinstance(st.value.func, ast.Attribute) \
                and st.value.func.attr == 'pop' and st.value.args and isinstance(st.value.args[0], ast.Name) \
                and _dsl_attr(_expand(st.value.func.value, st)):
            g = norm(_expand(st.value.func.value, st))
            for a in _ancestors(st, fn):
                if isinstance(a, ast.For) and isinstance(a.target, ast.Name) and a.target.id == st.value.args[0].id:
                    if not (isinstance(a.iter, ast.Subscript) and norm(_expand(a.iter.value, a)) == g):
                        loops.append((g, a, a.target.id, dom.of(a.iter), st))
                    break
    graphs = sorted({g for g, *_ in loops if g.endswith('adjacency')})
    foo = _params(fn)[1]
    prov = _registry_key_fields(repo)
    decl = _declared(repo)
    want = [g for g in graphs]
    if not any(g.endswith('.all_adjacency') for g in graphs):
        r.bad(m, DEL_QUAL, 'del <top>._dsl.all_adjacency[x]', "no loop deletes the removed signals / method ports as "
              "keys of all_adjacency: get_signal_adjacency_dict() and the recomputed nets keep the removed objects",
              fn.lineno)
    if not any(g.endswith('._dsl.adjacency') for g in graphs):
        r.bad(m, DEL_QUAL, 'del parent._dsl.adjacency[x]', "no loop deletes the removed signals / method ports as keys "
              "of the parent's adjacency: the next add_connections copies the stale entries back into all_adjacency",
              fn.lineno)
    for g in want:
        gl = [l for l in loops if l[0] == g]
        deleted = frozenset()
        for _, loop, x, R, dst in gl:
            if R is None:
                raise AnalysisError(f"R-C15-keys: cannot evaluate the set `{norm(loop.iter)}` whose members are deleted from {g}")
            deleted |= R
        need = {'Signal', 'MethodPort'}
        cons = f"{g}: keys deleted for {_fmt_atoms(deleted)}"
        if not need <= _classes(deleted):
            r.bad(m, DEL_QUAL, cons, f"objects of class {sorted(need - _classes(deleted))} of the removed component are "
                  f"never deleted as keys of {g} (connect writes both Signal and MethodPort keys)", gl[0][4].lineno)
        else:
            r.ok(m, DEL_QUAL, cons)
        for _, loop, x, R, dst in gl:
            if not _classes(R):
                continue      # registry sets (consts): neighbours are inside the removed subtree
            # presence conditions on the deletion itself
            ex, other = _excluded_sets(dst, loop, '')
            if other:
                raise AnalysisError(f"R-C15-keys: deletion `{norm(dst)}` is conditional on {[norm(t) for t, _ in other]}")
            back = []
            for n in walk_no_nested(loop):
                if isinstance(n, ast.Call) and isinstance(n.func, ast.Attribute) and n.func.attr in ('remove', 'discard') \
                        and len(n.args) == 1 and norm(n.args[0]) == x and isinstance(n.func.value, ast.Subscript) \
                        and norm(_expand(n.func.value.value, stmt_of(n))) == g and isinstance(n.func.value.slice, ast.Name):
                    o = n.func.value.slice.id
                    inner = [a for a in _ancestors(n, loop) if isinstance(a, ast.For) and isinstance(a.target, ast.Name)
                             and a.target.id == o and norm(_expand(a.iter, a)) == f"{g}[{x}]"]
                    if inner:
                        back.append((n, o, inner[0]))
            if not back:
                r.bad(m, DEL_QUAL, f"{g}[other].remove({x})", f"the removed object is deleted as a key of {g} but not from "
                      f"the neighbour sets of surviving objects: nets recomputed after the replacement still contain "
                      f"the deleted signal", loop.lineno)
                continue
            for n, o, inner in back:
                st = stmt_of(n)
                ex, other = _excluded_sets(st, inner, o)
                if other:
                    raise AnalysisError(f"R-C15-keys: back-edge removal `{norm(st)}` is conditional on "
                                        f"{[norm(t) for t, _ in other]}; outside the domain")
                r.ok(m, DEL_QUAL, f"{norm(st)} for every neighbour of a removed key of {g}")
                if not g.endswith('.all_adjacency'):
                    # host-level graph: its edges were made AT the surviving host; an edge to a neighbour that is removed too
                    # (excluded above) vanishes with `del` unless it is saved for replay
                    ret_names = {x.id for n2 in walk_no_nested(fn) if isinstance(n2, ast.Return) and isinstance(n2.value, ast.Tuple)
                                 for x in n2.value.elts if isinstance(x, ast.Name)}
                    saved_lb = False
                    for a2 in walk_no_nested(inner):
                        if isinstance(a2, ast.Call) and isinstance(a2.func, ast.Attribute) and a2.func.attr == 'append' \
                                and norm(a2.func.value) in ret_names:
                            c2 = [(g2.test, g2.polarity) for g2 in guards_of(stmt_of(a2), stop=inner) if g2.kind in ('if', 'exit')]
                            if any(dom.of(S2) is not None and R is not None and R <= dom.of(S2) for S2 in _selected_sets(c2, o)):
                                saved_lb = True
                    cons5 = f"{g.split('.')[-1]} (host level): connections between two removed objects are saved for replay"
                    if saved_lb:
                        r.ok(m, DEL_QUAL, cons5)
                    elif ex:
                        r.bad(m, DEL_QUAL, f"{g.split('.')[-1]} (host level): connections between two removed objects are dropped",
                              f"{g} holds the connections made at the surviving host; a neighbour that is itself removed is skipped "
                              f"(`{o} not in {norm(ex[0])}`) and the entry is deleted, but nothing saves the pair: a loop-back "
                              f"connection between two ports of the same child made at the parent (s.c.a //= s.c.b) is lost on "
                              f"replacement (NoWriterError / different nets than a fresh build)", st.lineno)
                # a surviving neighbour that is saved *by value* (o = o._dsl.<attr>) is re-created as a new object by
                # the re-add path, so the old object must leave the graph
                byval = []
                for n2 in walk_no_nested(inner):
                    if isinstance(n2, ast.Assign) and len(n2.targets) == 1 and isinstance(n2.targets[0], ast.Name) \
                            and n2.targets[0].id == o and _dsl_attr(n2.value) and _dsl_attr(n2.value)[0] == o:
                        byval.append(n2)
                    elif isinstance(n2, ast.Expr) and isinstance(n2.value, ast.Call) and isinstance(n2.value.func, ast.Attribute) \
                            and n2.value.func.attr == 'append' and n2.value.args and isinstance(n2.value.args[0], ast.Tuple) \
                            and n2.value.args[0].elts and _dsl_attr(n2.value.args[0].elts[0]) \
                            and _dsl_attr(n2.value.args[0].elts[0])[0] == o:
                        byval.append(ast.copy_location(ast.Assign(targets=[ast.Name(id=o, ctx=ast.Store())],
                                                                  value=n2.value.args[0].elts[0]), n2))
                        byval[-1]._parent = getattr(n2, '_parent', None)
                        byval[-1]._anchor = n2
                if not byval and g.endswith('.all_adjacency'):
                    # a surviving neighbour that is deleted from the graph must have been handed over by value, otherwise
                    # nothing re-creates it: the connection is dropped
                    for d in walk_no_nested(inner):
                        if isinstance(d, ast.Delete) and any(isinstance(t, ast.Subscript) and norm(t.slice) == o and
                                                             norm(_expand(t.value, d)) == g for t in d.targets):
                            r.bad(m, DEL_QUAL, f"{g.split('.')[-1]}: surviving neighbour deleted as key but not handed over by value",
                                  f"`{norm(d)}` deletes the surviving neighbour `{o}` from {g}, yet no saved pair carries its value "
                                  f"(`{o}._dsl.<attr>`) for the re-add path to re-create it: the outside connection is lost on "
                                  f"replace_component", d.lineno)
                for rb in byval:
                    if True:
                        pos_ = getattr(rb, '_anchor', rb)
                        cls = [it[1][0] for gg in guards_of(pos_, stop=inner) for it in [_isinstance_test(gg.test)]
                               if it and it[0] == o and gg.polarity]
                        gone = [d for d in preceding_stmts(pos_)
                                if any(a is inner for a in _ancestors(d, fn)) and
                                ((isinstance(d, ast.Delete) and any(isinstance(t, ast.Subscript) and norm(t.slice) == o and
                                                                    norm(_expand(t.value, d)) == g for t in d.targets)) or
                                 (isinstance(d, ast.Expr) and isinstance(d.value, ast.Call) and isinstance(d.value.func, ast.Attribute)
                                  and d.value.func.attr == 'pop' and d.value.args and norm(d.value.args[0]) == o
                                  and norm(_expand(d.value.func.value, d)) == g))]
                        what = '/'.join(cls) or 'object'
                        cons2 = f"{g.split('.')[-1]}: surviving {what} neighbour saved by value ({norm(rb.value).replace(o, '<nbr>')})"
                        if gone:
                            r.ok(m, DEL_QUAL, cons2 + " and deleted as key")
                            # add_connections re-creates an all_adjacency key for EVERY key of the host's adjacency
                            # (defaultdict), so the old object must leave the host-level graph as well
                            for g2 in [x for x in want if x != g]:
                                host_del = False
                                for _, loop2, x2, R2, _d in [l for l in loops if l[0] == g2]:
                                    for d in walk_no_nested(loop2):
                                        tg = None
                                        if isinstance(d, ast.Delete) and isinstance(d.targets[0], ast.Subscript):
                                            tg = d.targets[0]
                                        elif isinstance(d, ast.Expr) and isinstance(d.value, ast.Call) and \
                                                isinstance(d.value.func, ast.Attribute) and d.value.func.attr == 'pop' and d.value.args:
                                            tg = ast.Subscript(value=d.value.func.value, slice=d.value.args[0])
                                        if tg is None or norm(_expand(tg.value, d)) != g2 or not isinstance(tg.slice, ast.Name) \
                                                or tg.slice.id == x2:
                                            continue
                                        gcls = [it[1][0] for gg in guards_of(d, stop=loop2) for it in [_isinstance_test(gg.test)]
                                                if it and it[0] == tg.slice.id and gg.polarity]
                                        if set(gcls) & set(cls) or not cls:
                                            host_del = True
                                cons3 = f"{g2.split('.')[-1]} (host level): old {what} neighbour deleted as key"
                                if host_del:
                                    r.ok(m, DEL_QUAL, cons3)
                                else:
                                    r.bad(m, DEL_QUAL, cons3, f"the old {what} is deleted from {g} but stays a key of {g2}; "
                                          f"add_connections copies every key of the host's adjacency into all_adjacency, so the "
                                          f"stale {what} key (with an empty set) reappears after the replacement", rb.lineno)
                        else:
                            r.bad(m, DEL_QUAL, cons2 + " but the old object stays as key",
                                  f"`{norm(rb)}` hands the neighbour to _add_component by value, so the re-add path creates a "
                                  f"new {what}; the old one keeps its (now empty) entry in {g} and in its owner's registry: "
                                  f"after replace_component the adjacency dict has one more {what} key than a fresh build", rb.lineno)
                if g.endswith('.all_adjacency'):
                    # every kind of object of the removed subtree that can be a neighbour must be excluded: they go away
                    # with it and must neither be patched nor saved as an outside connection
                    exu = frozenset()
                    for S in ex:
                        exu |= dom.of(S) or frozenset()
                    need = [('coll', foo, 'Signal'), ('coll', foo, 'MethodPort')] + \
                           [('fieldof', F, frozenset([('coll', foo, 'Component')])) for F in sorted({f for f, _ in prov})]
                    for a in need:
                        what = a[2] if a[0] == 'coll' else f"{a[1]} of the removed components"
                        cons4 = f"all_adjacency: neighbours that are {what} are not treated as outside connections"
                        if a in exu:
                            r.ok(m, DEL_QUAL, cons4)
                        else:
                            r.bad(m, DEL_QUAL, f"all_adjacency: {what} not excluded by the outside-neighbour filter",
                                  f"the filter before `{norm(st)}` excludes {_fmt_atoms(exu, False)} only: a neighbour that is one "
                                  f"of the {what} (e.g. a constant tied inside the removed subtree) is saved as an outside "
                                  f"connection and re-applied by the parent on the replacement (extra const net / "
                                  f"MultiWriterError after replace_component)", st.lineno)
                for S in ex:
                    sv = dom.of(S)
                    cons = f"{g.split('.')[-1]}: {_fmt_atoms(sv, False) if sv is not None else norm(S)} excluded from back-edge removal"
                    if sv is None:
                        raise AnalysisError(f"R-C15-keys: cannot evaluate excluded set {norm(S)}")
                    if sv <= deleted:
                        r.ok(m, DEL_QUAL, cons + " and deleted as keys")
                    else:
                        r.bad(m, DEL_QUAL, cons + " but never deleted as keys",
                              f"neighbours in `{norm(S)}` = {_fmt_atoms(sv)} are skipped because they 'will be removed', "
                              f"but no loop deletes them from {g} (deleted: {_fmt_atoms(deleted)}): after "
                              f"replace_component these objects stay as keys of {g} pointing at deleted signals, "
                              f"unlike a fresh build", st.lineno)
    # incrementally built sets (S = set(); S |= ... in a loop) must be complete before they are used as a filter / iterated
    def body_idx(node):
        cur = node
        while cur is not None and not any(cur is b for b in fn.body):
            cur = parent(cur)
        return None if cur is None else [i for i, b in enumerate(fn.body) if b is cur][0]
    cand = {n.target.id for n in walk_no_nested(fn) if isinstance(n, ast.AugAssign) and isinstance(n.target, ast.Name)} | \
           {n.func.value.id for n in walk_no_nested(fn) if isinstance(n, ast.Call) and isinstance(n.func, ast.Attribute)
            and n.func.attr == 'update' and isinstance(n.func.value, ast.Name)}
    built = sorted(S for S in cand if any(k == 'aug' and isinstance(op, ast.BitOr) for k, st, v, op in _bindings(fn, S)))
    filters = [n for n in walk_no_nested(fn) if isinstance(n, ast.Compare) and len(n.ops) == 1
               and isinstance(n.ops[0], (ast.In, ast.NotIn))]
    never = sorted({st.targets[0].id for st in walk_no_nested(fn) if isinstance(st, ast.Assign) and len(st.targets) == 1
                    and isinstance(st.targets[0], ast.Name) and norm(st.value) == 'set()'
                    and any(b is st for b in fn.body)} - set(built))
    for S in never:
        filt = [n for n in walk_no_nested(fn) if isinstance(n, ast.Compare) and len(n.ops) == 1 and
                isinstance(n.ops[0], (ast.In, ast.NotIn)) and isinstance(n.comparators[0], ast.Name) and n.comparators[0].id == S]
        fed = [n for n in walk_no_nested(fn) if isinstance(n, ast.Call) and isinstance(n.func, ast.Attribute)
               and norm(n.func.value) == S and n.func.attr in ('add', 'update')]
        if filt and not fed:
            r.bad(m, DEL_QUAL, f"`{S}` used as a filter but never filled", f"`{S}` stays empty, so `{norm(filt[0])}` filters "
                  f"nothing: objects that belong to the removed subtree are treated as surviving neighbours", filt[0].lineno)
    # a registry set built in ONE expression (comprehension / union(*...)) is complete as soon as it is bound
    for S in sorted({c.comparators[0].id for c in filters if isinstance(c.comparators[0], ast.Name)} - set(built)):
        sv0 = dom.of(ast.Name(id=S, ctx=ast.Load()))
        if sv0 and any(a[0] == 'fieldof' for a in sv0) and len([b for b in _bindings(fn, S) if b[0] == 'assign']) == 1:
            r.ok(m, DEL_QUAL, f"`{S}` is complete before it is used (built in one expression)")
    for S in built:
        fills = [st for k, st, v, op in _bindings(fn, S) if k == 'aug']
        fill_nodes = {id(x) for f in fills for x in ast.walk(f)}
        uses = [n for n in walk_no_nested(fn) if isinstance(n, ast.Name) and n.id == S and isinstance(n.ctx, ast.Load)
                and id(n) not in fill_nodes]
        mine = dom.of(ast.Name(id=S, ctx=ast.Load()))
        filt_uses = [c for c in filters if any(isinstance(x, ast.Name) and x.id == S for x in ast.walk(c.comparators[0]))
                     or (mine and dom.of(c.comparators[0]) is not None and mine <= dom.of(c.comparators[0]))]
        if not filt_uses and any(_dsl_attr(f[2]) for f in _bindings(fn, S) if f[0] == 'aug'):
            r.bad(m, DEL_QUAL, f"`{S}` collected but never used as a filter",
                  f"`{S}` gathers `{norm([b[2] for b in _bindings(fn, S) if b[0] == 'aug'][0])}` of every removed component but no `in {S}` / `not in {S}` test reads it: "
                  f"objects of that kind are handled like surviving neighbours (saved and re-connected by the parent)",
                  fills[0].lineno)
            continue
        last_fill = max(body_idx(f) for f in fills)
        early = [u for u in uses if body_idx(u) is not None and body_idx(u) <= last_fill]
        cons = f"`{S}` is complete before it is used ({len(uses)} uses)"
        if early:
            u = sorted(early, key=lambda n: n.lineno)[0]
            r.bad(m, DEL_QUAL, f"`{S}` used before it is filled",
                  f"`{norm(stmt_of(u))[:80]}` (line {u.lineno}) consults `{S}` before the loop that fills it "
                  f"(`{norm(fills[-1])[:60]}`, line {fills[-1].lineno}) has run for every removed component: the filter sees an "
                  f"incomplete set, so e.g. constants living inside the removed subtree are treated as outside neighbours, "
                  f"saved, and re-connected by the parent", u.lineno)
        elif uses:
            r.ok(m, DEL_QUAL, cons)
    for F, w in sorted(prov):
        r.observations.append(f"members of <component>._dsl.{F} are adjacency keys (written in {w})")
    # residue of keyed `-=` on defaultdict aggregates
    for fm, fc, f in _defs(repo, '_uncollect_vars'):
        lf = LevelFn(repo, fm, fc, f, decl, False)
        for e in lf.effects:
            if e.kind == 'diff' and e.key is not None and decl.get(e.agg, ('?',))[0] in ('defaultdict', 'dict'):
                bp = [b for b in lf.bad_prunes if b[0] == e.agg]
                if bp:
                    r.bad(fm, lf.qual, f"{e.agg}: entry deleted under {bp[0][3]}",
                          f"`{norm(bp[0][2])}` runs when {bp[0][3]}, which is not `the entry became empty`: constraints "
                          f"contributed by other components under the same key are dropped (or the emptied key stays)",
                          bp[0][2].lineno)
                elif (e.agg, e.key) in lf.prunes:
                    r.ok(fm, lf.qual, f"{e.text} ; emptied entry pruned")
                else:
                    r.bad(fm, lf.qual, f"{e.agg}: keyed `-=` leaves the emptied entry",
                          f"`{e.text}` empties the set but the key (an object of the removed component) stays in "
                          f"{e.agg}: get_all_explicit_constraints() shows a `<deleted>` key with an empty set that a "
                          f"fresh build does not have; prune it (`if not {e.agg}[k]: del ...`)", e.node.lineno)
    _floor(r, 16)
    return r


# ---------------------------------------------------------------------------
def _root_literal(repo):
    """the literal full_name of the elaborated top (NamedObject._elaborate_construct) and a check that repr() is full_name"""
    nm = repo.mod(NAMED)
    fn = nm.get_func('NamedObject._elaborate_construct')
    lit = None
    for st in walk_no_nested(fn):
        if isinstance(st, ast.Assign):
            for t in st.targets:
                da = _dsl_attr(t)
                if da and da[1] == 'full_name' and isinstance(st.value, ast.Constant) and isinstance(st.value.value, str):
                    lit = st.value.value
    rp = nm.get_func('NamedObject.__repr__')
    rets = [norm(n.value) for n in walk_no_nested(rp) if isinstance(n, ast.Return) and n.value is not None]
    me = _params(rp)[0]
    if lit is None or f"{me}._dsl.full_name" not in rets:
        raise AnalysisError("cannot establish that repr(x) is the full name rooted at a literal")
    return lit


def _name_template(e, root):
    """head identifier that eval() of the saved string needs:  repr(x) -> root ;  "lit" + repr(x)[n:] -> lit (n must be len(root))"""
    if isinstance(e, ast.Call) and norm(e.func) == 'repr' and len(e.args) == 1:
        return root, norm(e.args[0]), None
    if isinstance(e, ast.BinOp) and isinstance(e.op, ast.Add) and isinstance(e.left, ast.Constant) and \
            isinstance(e.left.value, str) and isinstance(e.right, ast.Subscript) and \
            isinstance(e.right.value, ast.Call) and norm(e.right.value.func) == 'repr' and \
            isinstance(e.right.slice, ast.Slice) and e.right.slice.upper is None and e.right.slice.step is None:
        lo = e.right.slice.lower
        n = lo.value if isinstance(lo, ast.Constant) else None
        if n != len(root):
            return e.left.value, norm(e.right.value.args[0]), f"slice [{norm(lo) if lo else ''}:] does not strip exactly the root name '{root}'"
        return e.left.value, norm(e.right.value.args[0]), None
    if isinstance(e, ast.JoinedStr):
        return None, None, "f-string form not understood"
    return None, None, "not repr(x) / 'lit'+repr(x)[n:]"


class Gen:
    """one generator of a list construction: `for target in iter` (a For statement or a comprehension clause)"""
    def __init__(self, target, it, node):
        self.target, self.iter, self.node = target, it, node


def _list_builds(fn, e, depth=0):
    """Abstract the construction(s) of the list denoted by expression e in fn:
    [dict(gens=[Gen outer..inner], elt=<expr>, conds=[(test, polarity)], at=<node>)]; [] when e is not a recognised
    list construction.  Recognised: `L = []` + L.append(E) in (nested) for loops with guarding ifs / continue,
    list / generator comprehensions, list(...), filter(lambda p: c, it)."""
    if depth > 3:
        return []
    if isinstance(e, ast.Name):
        bs = [b for b in _bindings(fn, e.id) if b[0] == 'assign']
        empty = [b for b in bs if (isinstance(b[2], ast.List) and not b[2].elts) or norm(b[2]) == 'list()']
        full = [b for b in bs if not any(b is x for x in empty)]
        has_app = any(isinstance(n, ast.Call) and isinstance(n.func, ast.Attribute) and n.func.attr in ('append', 'extend')
                      and norm(n.func.value) == e.id for n in walk_no_nested(fn))
        if len(full) == 1 and not has_app:
            return _list_builds(fn, full[0][2], depth + 1)      # a leftover `L = []` initialiser is dead
        if len(bs) != 1:
            return []
        v = bs[0][2]
        if (isinstance(v, ast.List) and not v.elts) or norm(v) == 'list()':
            out = []
            for n in walk_no_nested(fn):
                if isinstance(n, ast.Call) and isinstance(n.func, ast.Attribute) and n.func.attr == 'append' \
                        and norm(n.func.value) == e.id and len(n.args) == 1:
                    st = stmt_of(n)
                    loops = [a for a in _ancestors(st, fn) if isinstance(a, ast.For)]
                    if not loops:
                        return []
                    loops.reverse()
                    conds = [(g.test, g.polarity) for g in guards_of(st, stop=loops[0]) if g.kind in ('if', 'exit')]
                    out.append(dict(gens=[Gen(f.target, f.iter, f) for f in loops], elt=n.args[0], conds=conds, at=st))
            return out
        return _list_builds(fn, v, depth + 1)
    if isinstance(e, (ast.ListComp, ast.GeneratorExp)):
        conds = [(t, True) for g in e.generators for t in g.ifs]
        return [dict(gens=[Gen(g.target, g.iter, g) for g in e.generators], elt=e.elt, conds=conds, at=e)]
    if isinstance(e, ast.Call) and isinstance(e.func, ast.Name) and e.func.id in ('list', 'tuple') and len(e.args) == 1:
        return _list_builds(fn, e.args[0], depth + 1)
    if isinstance(e, ast.Call) and isinstance(e.func, ast.Name) and e.func.id == 'filter' and len(e.args) == 2 \
            and isinstance(e.args[0], ast.Lambda) and len(e.args[0].args.args) == 1:
        lam = e.args[0]
        tgt = ast.Name(id=lam.args.args[0].arg, ctx=ast.Store())
        return [dict(gens=[Gen(tgt, e.args[1], lam)], elt=ast.Name(id=tgt.id, ctx=ast.Load()), conds=[(lam.body, True)], at=e)]
    return []


def rule_saved(repo):
    SetDom.repo = repo
    r = RuleResult('R-C15-saved', "each saved_* list is filtered from one map of the parent by membership in the removed "
                   "connectables, the saved entries are purged from that map, returned, passed by both replace variants and "
                   "re-inserted by _add_component into the map of the same name under an eval-able root name")
    m = repo.mod(COMP)
    delf, addf = m.get_func(DEL_QUAL), m.get_func(ADD_QUAL)
    outer = m.get_func('Component._delete_component')
    root = _root_literal(repo)
    dom = SetDom(delf)
    rets = [n for n in walk_no_nested(delf) if isinstance(n, ast.Return) and n.value is not None]
    if len(rets) != 1 or not isinstance(rets[0].value, ast.Tuple) or not all(isinstance(x, ast.Name) for x in rets[0].value.elts):
        raise AnalysisError(f"{DEL_QUAL}: expected a single `return <tuple of names>`")
    lists = [x.id for x in rets[0].value.elts]
    if len(lists) < 7:
        raise AnalysisError(f"anchor vanished: expected the seven saved lists in the return of {DEL_QUAL}, found {lists}")
    foo = _params(delf)[1]
    need_conn = {('coll', foo, 'Signal'), ('coll', foo, 'MethodPort')}

    def covers_removed(S):
        sv = dom.of(S)
        return sv is not None and need_conn <= sv and all(a[0] == 'coll' and a[1] == foo for a in sv)
    # ---- (a)+(b) producer side
    source = {}        # list -> ('map', F) | ('graph', text)
    selected = {}      # list -> atoms of the set its members are selected by
    hosts_of = {}      # list -> name of the component whose map is filtered
    byname = set()     # lists holding pairs whose FIRST element is a name too
    graph_saves = {}   # list -> [(build, neighbour generator, neighbour var, removed var)]
    heads = {}         # list -> head identifier needed at eval time
    for L in lists:
        builds = _list_builds(delf, ast.Name(id=L, ctx=ast.Load()))
        if not builds:
            r.bad(m, DEL_QUAL, f"{L}.append", f"{L} is returned but never filled: the parent's references to the removed "
                  f"component's ports are lost after the replacement", delf.lineno)
            continue
        for b in builds:
            st, tup, gens, conds = b['at'], b['elt'], b['gens'], b['conds']
            line = getattr(st, 'lineno', delf.lineno)
            if not (isinstance(tup, ast.Tuple) and len(tup.elts) == 2):
                raise AnalysisError(f"R-C15-saved: {L} is not built from pairs ({norm(tup)})")
            first, second = tup.elts
            if isinstance(st, ast.stmt):
                # single-assignment locals holding the name string (`n = "top"+repr(x)[1:]; L.append((o, n))`)
                for _ in range(3):
                    if isinstance(second, ast.Name) and reaching_value(second.id, st) is not None and \
                            _pure_value(reaching_value(second.id, st)):
                        second = reaching_value(second.id, st)
            head, xvar, why = _name_template(second, root)
            shown = f"{L} element {norm(tup)}"
            if head is None or why:
                r.bad(m, DEL_QUAL, shown, f"saved object name is not re-evaluable: {why}", line)
                continue
            heads.setdefault(L, set()).add(head)
            inner = [g for g in gens if isinstance(g.target, ast.Name) and g.target.id == xvar]
            if not inner:
                raise AnalysisError(f"R-C15-saved: cannot find the loop binding {xvar} for {shown}")
            xgen = inner[-1]
            mp = [g for g in gens if isinstance(g.target, ast.Tuple) and len(g.target.elts) == 2
                  and isinstance(g.iter, ast.Call) and isinstance(g.iter.func, ast.Attribute) and g.iter.func.attr == 'items'
                  and _dsl_attr(_expand(g.iter.func.value, g.node) if isinstance(g.node, ast.stmt) else g.iter.func.value)]
            if mp:
                # filtered from a map of the parent
                mgen = mp[-1]
                base, F = _dsl_attr(_expand(mgen.iter.func.value, mgen.node) if isinstance(mgen.node, ast.stmt) else mgen.iter.func.value)
                kvar, vvar = [norm(x) for x in mgen.target.elts]
                pb = [norm(v) for k, s2, v, _ in _bindings(delf, base) if k == 'assign']
                cons = f"{L} <- {base}._dsl.{F}"
                via_top = base == _params(delf)[0] and F.startswith('all_')
                if via_top:
                    F = F[4:]          # the top-level table aliases the set objects of every host (checked below)
                elif pb != [f"{foo}.get_parent_object()"]:
                    r.bad(m, DEL_QUAL, cons, f"`{base}` is not the parent of the removed component", line)
                    continue
                Fq = ('all_' + F) if via_top else F
                if norm(xgen.iter) not in (vvar, f"{base}._dsl.{Fq}[{kvar}]") or norm(first) != kvar:
                    r.bad(m, DEL_QUAL, cons, f"the saved pair ({norm(first)}, name of {xvar}) is not (key, member) of "
                          f"{base}._dsl.{F}: the entry is restored under the wrong block / function", line)
                    continue
                memb = [S for S in _selected_sets(conds, xvar) if covers_removed(S)]
                if memb:
                    selected[L] = dom.of(memb[0])
                if not memb:
                    r.bad(m, DEL_QUAL, cons, f"entries are not selected by `{xvar} in <signals and method ports collected "
                          f"from {foo}>`: references to the removed ports are not saved (or foreign ones are)", line)
                    continue
                source[L] = ('map', F)
                hosts_of[L] = '<every host>' if via_top else base
                r.ok(m, DEL_QUAL, f"{cons} filtered by membership in the removed connectables")
                # (b) purge from the same map, in place
                purged = False
                strips = []
                for lp in [n for n in walk_no_nested(delf) if isinstance(n, ast.For)]:
                    it = lp.iter
                    meth = None
                    if isinstance(it, ast.Call) and isinstance(it.func, ast.Attribute) and it.func.attr in ('items', 'keys') and not it.args:
                        meth, it = it.func.attr, it.func.value
                    da0 = _dsl_attr(_expand(it, lp))
                    if not (da0 and da0[0] == base):
                        continue
                    if meth == 'items' and isinstance(lp.target, ast.Tuple) and len(lp.target.elts) == 2:
                        k2, v2 = [norm(x) for x in lp.target.elts]
                    elif isinstance(lp.target, ast.Name):
                        k2, v2 = lp.target.id, None
                    else:
                        continue
                    for s2 in walk_no_nested(lp):
                        tgt = val = None
                        if isinstance(s2, ast.AugAssign) and isinstance(s2.op, ast.Sub):
                            tgt, val = s2.target, s2.value
                        elif isinstance(s2, ast.Expr) and isinstance(s2.value, ast.Call) and isinstance(s2.value.func, ast.Attribute) \
                                and s2.value.func.attr == 'difference_update' and len(s2.value.args) == 1:
                            tgt, val = s2.value.func.value, s2.value.args[0]
                        if tgt is None:
                            continue
                        if isinstance(tgt, ast.Subscript) and _dsl_attr(_expand(tgt.value, s2)) and \
                                _dsl_attr(_expand(tgt.value, s2))[0] == base and norm(tgt.slice) == k2:
                            Fp = _dsl_attr(_expand(tgt.value, s2))[1]
                        elif isinstance(tgt, ast.Name) and v2 is not None and tgt.id == v2 and not isinstance(s2, ast.AugAssign):
                            Fp = da0[1]        # v.difference_update(...) on the entry itself (`v -= ..` would only rebind v)
                        else:
                            continue
                        # what is subtracted: all removed connectables, or exactly the members that were saved
                        exact = False
                        strip = None          # condition under which an element leaves the set
                        if covers_removed(val):
                            strip = frozenset([('sel', 'X', dom.of(val))])
                        if isinstance(val, ast.Name) and not covers_removed(val):
                            addx = [n for n in walk_no_nested(lp) if isinstance(n, ast.Call) and isinstance(n.func, ast.Attribute)
                                    and n.func.attr == 'add' and norm(n.func.value) == val.id and len(n.args) == 1]
                            fresh = [b2 for b2 in _bindings(delf, val.id) if b2[0] == 'assign' and norm(b2[2]) == 'set()'
                                     and any(a is lp for a in _ancestors(b2[1], delf))]
                            for n in addx:
                                xa = norm(n.args[0])
                                c2 = [(g2.test, g2.polarity) for g2 in guards_of(stmt_of(n), stop=lp) if g2.kind in ('if', 'exit')]
                                if fresh and any(covers_removed(S2) for S2 in _selected_sets(c2, xa)):
                                    exact = True
                                    strip = _canon_conds(c2, dom, {xa: 'X', k2: 'K'})
                        if not (exact or covers_removed(val)):
                            continue
                        if Fp == Fq and da0[1] == Fq:
                            purged = True
                            strips.append((strip, s2))
                        elif da0[1] == Fq or Fp == Fq:
                            r.bad(m, DEL_QUAL, norm(s2), f"entries saved from {da0[1]} are purged from {Fp}: {da0[1]} keeps the "
                                  f"deleted objects and {Fp} loses live ones", s2.lineno)
                            purged = None
                if purged is True:
                    r.ok(m, DEL_QUAL, f"{base}._dsl.{F}[{kvar}] -= saved members")
                    # every element that is stripped must be saved: same condition on both (no extra test on the block / owner)
                    save = _canon_conds(conds, dom, {xvar: 'X', kvar: 'K'})
                    # presence tests of the key in the very table being iterated are tautologies
                    for stp, s2 in strips:
                        if stp is None:
                            continue

                        def fmt(cs):
                            return sorted(f"X in {_fmt_atoms(c[2], False)}" if c[0] == 'sel' else f"{'' if c[0] else 'not '}{c[1]}" for c in cs)
                        cons2 = f"{L}: saved under the condition it is stripped from {Fq} under"
                        if stp == save:
                            r.ok(m, DEL_QUAL, cons2)
                        else:
                            extra, missing = fmt(save - stp), fmt(stp - save)
                            r.bad(m, DEL_QUAL, f"{L}: strip and save conditions differ",
                                  f"an element leaves {base}._dsl.{Fq}[{kvar}] when {fmt(stp)} but is recorded in {L} only when "
                                  f"{fmt(save)} (extra on save: {extra}; extra on strip: {missing}): an entry that is stripped but "
                                  f"not saved is never re-attached, e.g. a grand-parent block that reads a port of the replaced "
                                  f"component loses the read (and its WR<RD scheduling edge) after replace_component", line)
                elif purged is False:
                    r.bad(m, DEL_QUAL, f"{base}._dsl.{F}[{kvar}] -= saved members", f"the saved members are not removed in place from "
                          f"{base}._dsl.{F} (aliased by the top-level all_* map): the block keeps reading/writing a "
                          f"<deleted> signal after the replacement", line)
            else:
                # saved_connections: neighbours of a removed key in the top-level graph
                nb = [g for g in gens if isinstance(g.iter, ast.Subscript) and norm(g.iter.slice) == xvar and
                      _dsl_attr(_expand(g.iter.value, g.node) if isinstance(g.node, ast.stmt) else g.iter.value)]
                cons = f"{L} <- neighbours in {norm(nb[-1].iter.value) if nb else '?'}"
                nbda = _dsl_attr(_expand(nb[-1].iter.value, nb[-1].node) if isinstance(nb[-1].node, ast.stmt)
                                 else nb[-1].iter.value) if nb else None
                if nbda and nbda[1] == 'adjacency':
                    # connection between two removed objects made at the host: both ends saved by name
                    ovar = norm(nb[-1].target)
                    h1, x1, why1 = _name_template(first, root)
                    pbn = [norm(v) for k, s2, v, _ in _bindings(delf, nbda[0]) if k == 'assign']
                    sel = [S for S in _selected_sets(conds, ovar) if dom.of(S) is not None and dom.of(xgen.iter) is not None
                           and dom.of(xgen.iter) <= dom.of(S)]
                    if h1 is None or why1 or x1 != ovar or pbn != [f"{foo}.get_parent_object()"] or not sel:
                        r.bad(m, DEL_QUAL, cons, f"pairs taken from {nbda[0]}._dsl.adjacency must be (name of the removed neighbour, "
                              f"name of the removed object) selected by `{ovar} in <removed>` at the parent of `{foo}`", line)
                        continue
                    heads.setdefault(L, set()).add(h1)
                    byname.add(L)
                    r.ok(m, DEL_QUAL, f"{L} <- connections between two removed objects made at {nbda[0]}, both ends by name")
                    continue
                if not nb or _dsl_attr(_expand(nb[-1].iter.value, nb[-1].node) if isinstance(nb[-1].node, ast.stmt)
                                       else nb[-1].iter.value)[1] != 'all_adjacency':
                    r.bad(m, DEL_QUAL, cons, "cross-boundary connections are not taken from the top-level adjacency of the "
                          "removed object", line)
                    continue
                ovar = norm(nb[-1].target)
                rv = [n.id for n in ast.walk(first) if isinstance(n, ast.Name)]
                if ovar not in rv:
                    r.bad(m, DEL_QUAL, cons, f"the saved pair does not hold the surviving neighbour `{ovar}`", line)
                    continue
                ex, other = _exclusions(conds, ovar)
                xs = dom.of(xgen.iter)
                if not any(dom.of(S) is not None and xs is not None and xs <= dom.of(S) for S in ex):
                    r.bad(m, DEL_QUAL, cons, "connections to neighbours that are themselves removed are saved too "
                          "(no `other not in <removed>` guard): eval of a <deleted> name fails on re-add", line)
                    continue
                source[L] = ('graph', 'all_adjacency')
                r.ok(m, DEL_QUAL, f"{cons} of every removed key, survivors only")
                graph_saves.setdefault(L, []).append((b, nb[-1], ovar, xvar))
    # every neighbour whose back edge is purged from the top-level graph is saved, on every path through the loop body
    for L, sv in sorted(graph_saves.items()):
        b0, ngen, ovar, xvar = sv[0]
        loopn = ngen.node
        if not isinstance(loopn, ast.For):
            continue
        gtxt = norm(_expand(ngen.iter.value, loopn))
        strips = [n for n in walk_no_nested(loopn) if isinstance(n, ast.Call) and isinstance(n.func, ast.Attribute)
                  and n.func.attr in ('remove', 'discard') and len(n.args) == 1 and norm(n.args[0]) == xvar
                  and isinstance(n.func.value, ast.Subscript) and norm(n.func.value.slice) == ovar
                  and norm(_expand(n.func.value.value, stmt_of(n))) == gtxt]
        ren = {ovar: 'NBR', xvar: 'X'}
        for sp in strips:
            stp = _canon_conds([(g.test, g.polarity) for g in guards_of(stmt_of(sp), stop=loopn) if g.kind in ('if', 'exit')], dom, ren)
            saves = [_canon_conds([(g.test, g.polarity) for g in guards_of(bb['at'], stop=loopn) if g.kind in ('if', 'exit')], dom, ren)
                     for bb, ng, ov, xv in sv if ng.node is loopn]
            extras = [sc - stp for sc in saves if stp <= sc]
            atoms_ = sorted({a[1] for e in extras for a in e if a[0] in (True, False)})
            covered = bool(extras) and all(a[0] in (True, False) for e in extras for a in e)
            if covered:
                # the save sites together must cover every valuation of the extra conditions
                import itertools
                for vals in itertools.product((True, False), repeat=len(atoms_)):
                    env = dict(zip(atoms_, vals))
                    r.evaluations += 1
                    if not any(all(env[a[1]] == a[0] for a in e) for e in extras):
                        covered = False
                        miss = ' and '.join(f"{'' if v else 'not '}{k}" for k, v in env.items())
                        break
            else:
                miss = 'a condition of another kind'
            cons = f"{L}: every neighbour purged from {gtxt.split('.')[-1]} is saved on every path"
            if covered:
                r.ok(m, DEL_QUAL, cons)
            else:
                r.bad(m, DEL_QUAL, f"{L}: a purged neighbour is not saved when {miss}",
                      f"`{norm(stmt_of(sp))}` removes the back edge of every surviving neighbour, but on the path where {miss} the loop "
                      f"body ends (continue / branch) before `{L}.append(...)`: that outside connection (e.g. a constant tie-off "
                      f"`s.unit.gain //= 0x0123` made at the parent) silently disappears on replace_component", sp.lineno)
    # ---- (c) return tuple
    ret_names = [norm(e) for e in rets[0].value.elts]
    orets = [n for n in walk_no_nested(outer) if isinstance(n, ast.Return) and n.value is not None]
    if not (len(orets) == 1 and isinstance(orets[0].value, ast.Call) and norm(orets[0].value.func) == '_delete_component_internal'):
        raise AnalysisError("Component._delete_component no longer returns _delete_component_internal(...)")
    for L in lists:
        if L in ret_names:
            r.ok(m, DEL_QUAL, f"return position {ret_names.index(L)}: {L}", nontrivial=False)
        else:
            r.bad(m, DEL_QUAL, f"return {L}", f"{L} is computed but not returned", rets[0].lineno)
    # ---- consumer side: parameter -> map
    aps = _params(addf)
    consume = {}
    cons_loop = {}
    cons_host = {}
    first_by_name_ok = False
    for p in aps[5:]:
        loops = [st for st in walk_no_nested(addf) if isinstance(st, ast.For) and norm(st.iter) == p]
        if not loops:
            r.bad(m, ADD_QUAL, f"for ... in {p}", f"parameter {p} is never consumed: the saved entries are dropped", addf.lineno)
            continue
        lp = loops[0]
        tv = [norm(x) for x in lp.target.elts] if isinstance(lp.target, ast.Tuple) else []
        evs = [n for n in walk_no_nested(lp) if isinstance(n, ast.Call) and norm(n.func) == 'eval' and len(n.args) == 1]
        if len(tv) != 2 or not evs or any(norm(e.args[0]) not in tv for e in evs):
            raise AnalysisError(f"{ADD_QUAL}: loop over {p} outside the domain")
        def receiver(n):
            """the set an `.add(...)` call mutates, single-assignment locals resolved"""
            v = n.func.value
            seen = 0
            while isinstance(v, ast.Name) and seen < 4:
                rv = reaching_value(v.id, n)
                if rv is None:
                    break
                v, seen = rv, seen + 1
            if isinstance(v, ast.Subscript):
                v = ast.Subscript(value=_expand(v.value, stmt_of(n)), slice=v.slice, ctx=ast.Load())
            return v
        adds = [(n, receiver(n)) for n in walk_no_nested(lp) if isinstance(n, ast.Call) and isinstance(n.func, ast.Attribute)
                and n.func.attr == 'add']
        adds = [(n, rc) for n, rc in adds if isinstance(rc, ast.Subscript) and _dsl_attr(rc.value)]
        if adds:
            a, rcv = adds[0]
            base, F = _dsl_attr(rcv.value)
            arg = a.args[0] if len(a.args) == 1 else None
            if isinstance(arg, ast.Name) and reaching_value(arg.id, a) is not None:
                arg = reaching_value(arg.id, a)
            tops = [norm(v) for k, s3, v, _ in _bindings(addf, base) if k == 'assign']
            via_top = F.startswith('all_') and tops and all(t.endswith('._dsl.elaborate_top') for t in tops)
            if via_top:
                F = F[4:]
            if norm(rcv.slice) != tv[0] or arg is None or norm(arg) != f"eval({tv[1]})" or \
                    (base != aps[1] and not via_top):
                r.bad(m, ADD_QUAL, norm(a), f"entries of {p} are not re-inserted as {aps[1]}._dsl.<map>[key].add(eval(name))", a.lineno)
                continue
            consume[p] = ('map', F)
            cons_loop[p] = lp
            cons_host[p] = '<every host>' if via_top else base
        else:
            apps = sorted([n for n in walk_no_nested(lp) if isinstance(n, ast.Call) and isinstance(n.func, ast.Attribute)
                           and n.func.attr == 'append' and len(n.args) == 1], key=lambda n: (n.lineno, n.col_offset))
            tgt = {norm(n.func.value) for n in apps}
            vals = [norm(n.args[0]) for n in apps]
            used = [c for c in _call_sites(addf, 'add_connections')
                    if any(isinstance(x, ast.Starred) and norm(x.value) in tgt for x in c.args)]
            evstr = f"eval({tv[0]}) if isinstance({tv[0]}, str) else {tv[0]}"
            if len(tgt) == 1 and len(vals) == 2 and vals[0] in (tv[0], evstr) and vals[1] == f"eval({tv[1]})" and used \
                    and norm(used[0].func.value) == aps[1]:
                consume[p] = ('graph', 'all_adjacency')
                first_by_name_ok = vals[0] == evstr
            else:
                r.bad(m, ADD_QUAL, f"for {', '.join(tv)} in {p}", f"saved connections are not replayed pairwise "
                      f"(neighbour, eval(name)) through {aps[1]}.add_connections", lp.lineno)
    for L in sorted(byname):
        if first_by_name_ok:
            r.ok(m, ADD_QUAL, f"{L}: a first element saved by name is evaluated before the connection is replayed")
        else:
            r.bad(m, ADD_QUAL, f"{L}: first element saved by name is not evaluated", f"{DEL_QUAL} saves both ends of a loop-back "
                  f"connection by name but _add_component passes the first element on unevaluated", addf.lineno)
    # (b) side effects of materialising a write set: flags that elaboration sets on the written signals must be set on restore
    l2 = None
    for fm, fc, f in _level_functions(repo):
        if f.name == '_elaborate_read_write_func':
            l2 = (fm, fc, f)
            break
    if l2 is None:
        raise AnalysisError("anchor vanished: _elaborate_read_write_func")
    flags = sorted({_dsl_attr(t)[1] for st in ast.walk(l2[2]) if isinstance(st, ast.Assign) and isinstance(st.value, ast.Constant)
                    and st.value.value is True for t in st.targets if _dsl_attr(t)})
    wr_params = [p for p in consume if consume[p] == ('map', 'upblk_writes')]
    # the registry that says "this block is an update_ff block": the keyword `update_ff = blk in s._dsl.<R>` of the extraction
    regs = sorted({_dsl_attr(k.value.comparators[0])[1] for n in ast.walk(l2[2]) if isinstance(n, ast.Call) for k in n.keywords
                   if isinstance(k.value, ast.Compare) and len(k.value.ops) == 1 and isinstance(k.value.ops[0], ast.In)
                   and _dsl_attr(k.value.comparators[0])})
    if len(regs) != 1:
        raise AnalysisError(f"cannot tell which registry marks update_ff blocks in _elaborate_read_write_func ({regs})")
    REG = regs[0]
    decl0 = _declared(repo)
    whole_design_reg = any(e.agg == 'all_' + REG and e.kind == 'union' and e.key is None and e.val == ('field', REG)
                           for fm, fc, f in _defs(repo, '_collect_vars') for e in LevelFn(repo, fm, fc, f, decl0, True).effects)
    for flag in flags:
        for p in wr_params:
            lp = cons_loop[p]
            kvar = norm(lp.target.elts[0])
            host = cons_host.get(p)
            sets_flag, wrong = [], []
            for st in walk_no_nested(lp):
                if not (isinstance(st, ast.Assign) and isinstance(st.value, ast.Constant) and st.value.value is True
                        and any((_dsl_attr(t) or ('', ''))[1] == flag for t in st.targets)):
                    continue
                conds = [(g.test, g.polarity) for g in guards_of(st, stop=lp) if g.kind in ('if', 'exit')]
                for S in _selected_sets(conds, kvar):
                    da = _dsl_attr(_expand(S, st))
                    if not da:
                        continue
                    tops = [norm(v) for k, s3, v, _ in _bindings(addf, da[0]) if k == 'assign']
                    is_top = da[0] == aps[0] or (tops and all(t.endswith('._dsl.elaborate_top') for t in tops))
                    if (da[1] == REG and da[0] == host) or (da[1] == 'all_' + REG and is_top and whole_design_reg):
                        sets_flag.append(st)
                    else:
                        wrong.append((st, norm(S)))
            cons = f"{flag} restored for signals written by an update_ff block ({p})"
            if sets_flag:
                r.ok(m, ADD_QUAL, cons)
            elif wrong:
                r.bad(m, ADD_QUAL, f"{flag} restored under a test on the wrong block registry",
                      f"`{kvar} in {wrong[0][1]}` does not hold for every update_ff block of `{host}`, whose write table is restored "
                      f"here: only {host}._dsl.{REG} (or the whole-design all_{REG}) contains those blocks; with a parent that is not "
                      f"the top the written port of the replacement gets no {flag} and the register keeps its reset value",
                      wrong[0][0].lineno)
            else:
                r.bad(m, ADD_QUAL, f"{flag} not restored with the saved update_ff writes",
                      f"{l2[1].name}._elaborate_read_write_func sets <signal>._dsl.{flag} = True on every signal an update_ff block "
                      f"writes, but the loop that restores {p} only re-inserts the new signal into the write set: a port of the "
                      f"replacement that the parent writes with <<= is never flipped (the register keeps its reset value), unlike "
                      f"in a fresh build", lp.lineno)
    # (c) the kinds of object a call set may hold (ComponentLevel4._check_upblk_calls) must all be selected by the filter
    cm4, cc4 = _component(repo)
    hit = repo.lookup_method(cm4, cc4, '_check_upblk_calls')
    callable_cls = []
    if hit is not None:
        for n in ast.walk(hit[2]):
            it = _isinstance_test(n) if isinstance(n, ast.Call) else None
            if it:
                callable_cls = it[1]
    if not callable_cls:
        raise AnalysisError("anchor vanished: the isinstance test of _check_upblk_calls")
    tab = _subclass_table(repo)

    def ancestors_of(c):
        out, todo = {c}, [c]
        while todo:
            for b in tab.get(todo.pop(), ()):
                if b not in out:
                    out.add(b)
                    todo.append(b)
        return out
    for L in lists:
        if source.get(L, ('', ''))[0] == 'map' and source[L][1].endswith('_calls') and L in selected:
            have = _classes(selected[L])
            miss = [c for c in callable_cls if not (ancestors_of(c) & have)]
            cons = f"{L}: filter selects every kind of callable ({', '.join(callable_cls)})"
            if miss:
                r.bad(m, DEL_QUAL, f"{L}: filter does not select {'/'.join(miss)}",
                      f"a call set may hold {', '.join(callable_cls)} (see {hit[1].name}._check_upblk_calls) but {L} only saves "
                      f"members of {_fmt_atoms(selected[L], False)}: a CL/FL interface of the removed child that a parent block calls "
                      f"directly stays in the call set as a stale object and the replacement's interface never enters it", delf.lineno)
            else:
                r.ok(m, DEL_QUAL, cons)
    # (d) any ancestor's block may read a port / call a method of the removed component, not only the parent's
    upblk_lists = [L for L in hosts_of if source[L][1] in ('upblk_reads', 'upblk_calls')]
    all_hosts = bool(upblk_lists) and all(hosts_of[L] == '<every host>' for L in upblk_lists)
    base_names = sorted(set(hosts_of.values()) - {'<every host>'})
    walks_up = any(isinstance(st, ast.Assign) and isinstance(st.targets[0], ast.Name) and isinstance(st.value, ast.Call)
                   and isinstance(st.value.func, ast.Attribute) and st.value.func.attr == 'get_parent_object'
                   and norm(st.value.func.value) == st.targets[0].id and enclosing(st, (ast.While, ast.For)) is not None
                   for st in walk_no_nested(delf))
    if hosts_of:
        cons = "read/write/call tables of every ancestor of the removed component are patched"
        if walks_up or all_hosts:
            r.ok(m, DEL_QUAL, cons, note="writes to a port are legal only from its host or the host's parent; "
                                         "function tables are local to a component")
        else:
            r.bad(m, DEL_QUAL, "only the direct parent's read/write/call tables are patched",
                  f"the saved_* lists are filtered from `{', '.join(base_names)}` = {foo}.get_parent_object() only, but a block of any "
                  f"ancestor may read a port or call a method of the removed component (reads of In/OutPorts and calls are not "
                  f"restricted to the direct parent): after replacing a grandchild the grandparent's sets keep the <deleted> "
                  f"objects, check() raises NotElaboratedError and the metadata differs from a fresh build", delf.lineno)
    # (f3) constraint tables of the parent can name signals / blocks / methods of the removed component
    ctabs = set()
    for fm, fc, f in _defs(repo, 'add_constraints'):
        me2 = _params(f)[0]
        for n in ast.walk(f):
            if isinstance(n, ast.Call) and isinstance(n.func, ast.Attribute) and n.func.attr == 'add':
                v = n.func.value
                v = v.value if isinstance(v, ast.Subscript) else v
                da = _dsl_attr(v)
                if da and da[0] == me2:
                    ctabs.add(da[1])
    if len(ctabs) < 3:
        raise AnalysisError("anchor vanished: constraint tables written by add_constraints")
    touched = {n.attr for n in ast.walk(delf) if isinstance(n, ast.Attribute) and isinstance(n.value, ast.Attribute)
               and n.value.attr == '_dsl' and norm(n.value.value) in base_names + [aps[1]]}
    missing_tabs = sorted(ctabs - touched)
    if missing_tabs:
        r.bad(m, DEL_QUAL, f"parent constraint tables {missing_tabs} are not patched",
              f"add_constraints stores user-supplied objects in {sorted(ctabs)}; a parent may constrain a signal (RD/WR), an "
              f"update block (U) or a method (M) of the child. _delete_component neither saves nor removes such entries of the "
              f"parent: after the replacement they still name the <deleted> objects and the replacement's are unconstrained, so "
              f"get_all_explicit_constraints() and the schedule differ from a fresh build", delf.lineno)
    else:
        r.ok(m, DEL_QUAL, f"parent constraint tables {sorted(ctabs)} are patched")
    # replayed connections repeat pairs that the new child's _construct already made (clk / reset hook-up):
    # _connect_signal_signal must record a pair in connect_order only when it is not yet adjacent
    cm, cc = _component(repo)
    hit = repo.lookup_method(cm, cc, '_connect_signal_signal')
    if hit is None:
        raise AnalysisError("anchor vanished: _connect_signal_signal")
    km, kc, kf = hit
    kme = _params(kf)[0]
    cfn = repo.lookup_method(cm, cc, '_construct')[2]
    hooked = [n for n in walk_no_nested(cfn) if isinstance(n, ast.Call) and isinstance(n.func, ast.Attribute)
              and n.func.attr == '_connect_signal_signal']
    def resolved(e, at, depth=0):
        """e with local aliases replaced by their reaching definitions (attribute chains and subscripts of them)"""
        if isinstance(e, ast.Name) and depth < 4:
            rv = reaching_value(e.id, at)
            if rv is not None and isinstance(rv, (ast.Attribute, ast.Subscript, ast.Name)):
                return resolved(rv, at, depth + 1)
        if isinstance(e, ast.Subscript):
            return ast.Subscript(value=resolved(e.value, at, depth), slice=resolved(e.slice, at, depth), ctx=ast.Load())
        return _expand(e, at)
    apps = [n for n in walk_no_nested(kf) if isinstance(n, ast.Call) and isinstance(n.func, ast.Attribute) and n.func.attr == 'append'
            and _dsl_attr(resolved(n.func.value, stmt_of(n))) == (kme, 'connect_order')]
    if not apps:
        raise AnalysisError(f"{kc.name}._connect_signal_signal no longer records connect_order")
    for ap in apps:
        pair = ap.args[0] if ap.args else None
        if not (isinstance(pair, ast.Tuple) and len(pair.elts) == 2):
            raise AnalysisError(f"{kc.name}._connect_signal_signal: connect_order entry outside the domain")
        a, b = [norm(x) for x in pair.elts]
        guarded = False
        for g in guards_of(stmt_of(ap)):
            if g.kind not in ('if', 'exit'):
                continue
            for t, pol in _flatten_and(g.test, g.polarity):
                if not (isinstance(t, ast.Compare) and len(t.ops) == 1):
                    continue
                cmp = resolved(t.comparators[0], g.node)
                if isinstance(cmp, ast.Subscript) and _dsl_attr(cmp.value) == (kme, 'adjacency'):
                    notin = (isinstance(t.ops[0], ast.NotIn) and pol) or (isinstance(t.ops[0], ast.In) and not pol)
                    if notin and {norm(resolved(t.left, g.node)), norm(cmp.slice)} == {a, b}:
                        guarded = True
        cons = f"{kc.name}._connect_signal_signal: connect_order.append(({a}, {b})) only for a not yet adjacent pair"
        if guarded:
            r.ok(km, f"{kc.name}._connect_signal_signal", cons,
                 note=f"_construct hooks {len(hooked)} pair(s) that the saved connections repeat")
        else:
            r.bad(km, f"{kc.name}._connect_signal_signal", f"connect_order.append(({a}, {b})) not dominated by `{a} not in adjacency[{b}]`",
                  f"a pair that is already connected is appended to connect_order again: _construct of the replacement hooks "
                  f"clk/reset to the parent ({len(hooked)} calls) and _add_component then replays the same saved pairs, so after "
                  f"replace_component the host's connect_order (hence the translated parent) has duplicated connections that a "
                  f"fresh build does not have", ap.lineno)
    # aliasing: purge and restore patch parent._dsl.<F>[blk] in place; the top-level all_<F>[blk] follows only because
    # _collect_vars stored the component's OWN set object there (or because both are updated explicitly)
    declared = _declared(repo)
    add_eff = {}
    for fm, fc, f in _defs(repo, '_collect_vars'):
        lf = LevelFn(repo, fm, fc, f, declared, True)
        for e in lf.effects:
            add_eff.setdefault(e.agg, []).append((fm, lf.qual, e))
    for L in lists:
        if source.get(L, ('', ''))[0] != 'map':
            continue
        F = source[L][1]
        agg = 'all_' + F
        if agg not in declared:
            continue       # func_* maps are local to the component: no top-level table to keep in step
        stores = [(fm, q, e) for fm, q, e in add_eff.get(agg, []) if e.kind == 'assign']
        cons = f"{agg}[blk] is the very set object {aps[1]}._dsl.{F}[blk]"
        if not stores:
            r.bad(m, ADD_QUAL, cons, f"no _collect_vars stores the component's {F} entries into {agg}", addf.lineno)
            continue
        copies = [(fm, q, e) for fm, q, e in stores if not (e.val[0] == 'item' and e.val[1] == F and _keyeq(repo, e.key, ('key', e.val[2])))]
        def touched(fn_, attr, kind):
            for n in walk_no_nested(fn_):
                if kind == 'add' and isinstance(n, ast.Call) and isinstance(n.func, ast.Attribute) and n.func.attr == 'add' and \
                        isinstance(n.func.value, ast.Subscript) and (_dsl_attr(_expand(n.func.value.value, stmt_of(n))) or ('', ''))[1] == attr:
                    return True
                if kind == 'sub' and isinstance(n, ast.AugAssign) and isinstance(n.op, ast.Sub) and isinstance(n.target, ast.Subscript) \
                        and (_dsl_attr(_expand(n.target.value, n)) or ('', ''))[1] == attr:
                    return True
            return False
        # without aliasing, the host's own table AND the top-level table must both be patched explicitly on both sides
        both = all(touched(addf, a_, 'add') and touched(delf, a_, 'sub') for a_ in (agg, F))
        if copies and not both:
            fm, q, e = copies[0]
            r.bad(fm, q, f"{agg}[blk] holds a copy, not the component's own {F} set",
                  f"`{e.text}` stores {e.val[1] if e.val[0] == 'other' else e.val} instead of the set object m._dsl.{F}[blk]; "
                  f"_delete_component / _add_component patch {aps[1]}._dsl.{F}[blk] in place ({L}) and never touch {agg}, so after "
                  f"replacing a child used by a parent block get_all_upblk_metadata() keeps the <deleted> objects and never "
                  f"gets the new ones", e.node.lineno)
        else:
            r.ok(m, ADD_QUAL, cons + (" (both tables updated explicitly)" if copies else ""))
    acf = m.get_func('Component.add_connections')
    me = _params(acf)[0]
    prop = False
    for lp in [st for st in walk_no_nested(acf) if isinstance(st, ast.For)]:
        if isinstance(lp.iter, ast.Call) and isinstance(lp.iter.func, ast.Attribute) and lp.iter.func.attr == 'items' and \
                _dsl_attr(lp.iter.func.value) == (me, 'adjacency') and isinstance(lp.target, ast.Tuple) and len(lp.target.elts) == 2:
            k, v = [norm(x) for x in lp.target.elts]
            for n in walk_no_nested(lp):
                if isinstance(n, ast.Call) and isinstance(n.func, ast.Attribute) and n.func.attr == 'update' and \
                        isinstance(n.func.value, ast.Subscript) and _top_agg(n.func.value.value, lp) == 'all_adjacency' and \
                        norm(n.func.value.slice) == k and [norm(a) for a in n.args] == [v]:
                    prop = True
                if isinstance(n, ast.AugAssign) and isinstance(n.op, ast.BitOr) and isinstance(n.target, ast.Subscript) and \
                        _top_agg(n.target.value, lp) == 'all_adjacency' and norm(n.target.slice) == k and norm(n.value) == v:
                    prop = True
    if prop:
        r.ok(m, 'Component.add_connections', "replayed connections are copied from the host's adjacency into all_adjacency")
    else:
        r.bad(m, 'Component.add_connections', 'all_adjacency[x].update(adjs)', "connections replayed at the parent never reach "
              "the top-level all_adjacency: the nets recomputed after the replacement do not contain the new component's ports",
              acf.lineno)
    # eval-able heads
    for L, hs in sorted(heads.items()):
        for h in sorted(hs):
            cons = f"{L}: names start with `{h}`"
            if h == root:
                ok = aps[0] == root
                why = f"eval needs a local `{root}` bound to the top: it is the receiver parameter of _add_component only if that parameter is named `{root}` (it is `{aps[0]}`)"
            else:
                bs = [norm(v) for k, st, v, _ in _bindings(addf, h) if k == 'assign']
                ok = bool(bs) and all(b == f"{aps[0]}._dsl.elaborate_top" for b in bs)
                why = f"eval needs a local `{h}` bound to the elaborated top in _add_component (bindings: {bs})"
            if ok:
                r.ok(m, ADD_QUAL, cons + " which is bound to the top in _add_component")
            else:
                r.bad(m, ADD_QUAL, cons, why + ": NameError / wrong object when the saved entries are re-evaluated", addf.lineno)
    # ---- (d) both callers
    for qual in ('Component.replace_component', 'Component.replace_component_with_obj'):
        fn = m.get_func(qual)
        dc = _call_sites(fn, '_delete_component')
        ac = _call_sites(fn, '_add_component')
        if len(dc) != 1 or len(ac) != 1:
            raise AnalysisError(f"{qual}: expected one _delete_component and one _add_component call")
        st = stmt_of(dc[0])
        grouped = None       # a local holding the whole result tuple
        if isinstance(st, ast.Assign) and len(st.targets) == 1 and isinstance(st.targets[0], ast.Name) and st.value is dc[0]:
            grouped = st.targets[0].id
            # ... possibly unpacked later:  a, b, c = grouped
            later = [x for x in walk_no_nested(fn) if isinstance(x, ast.Assign) and isinstance(x.value, ast.Name)
                     and x.value.id == grouped and isinstance(x.targets[0], ast.Tuple)]
            tgt = later[0].targets[0] if later else None
        else:
            tgt = st.targets[0] if isinstance(st, ast.Assign) and isinstance(st.targets[0], ast.Tuple) else None
        if tgt is not None and not (len(tgt.elts) == len(ret_names) and all(isinstance(x, ast.Name) for x in tgt.elts)):
            raise AnalysisError(f"{qual}: result of _delete_component is not unpacked into {len(ret_names)} names")
        if tgt is None and grouped is None:
            raise AnalysisError(f"{qual}: result of _delete_component is neither unpacked nor kept in one local")
        local_of = {ret_names[i]: (tgt.elts[i].id if tgt is not None else f"{grouped}[{i}]") for i in range(len(ret_names))}
        # positional arguments with starred single-assignment tuple/list locals expanded
        passed = []
        for a in ac[0].args:
            if isinstance(a, ast.Starred):
                v = a.value
                if isinstance(v, ast.Name) and v.id == grouped:
                    passed += [f"{grouped}[{i}]" for i in range(len(ret_names))]
                    continue
                if isinstance(v, ast.Name):
                    v = reaching_value(v.id, ac[0])
                if isinstance(v, (ast.Tuple, ast.List)) and not any(isinstance(x, ast.Starred) for x in v.elts):
                    passed += [norm(x) for x in v.elts]
                    continue
                raise AnalysisError(f"{qual}: _add_component call outside the domain (starred `{norm(a.value)}` is not a single-"
                                    f"assignment tuple/list local)")
            passed.append(norm(a))
        if ac[0].keywords or len(passed) != len(aps) - 1:
            raise AnalysisError(f"{qual}: _add_component call outside the domain")
        param_of = {a: aps[i + 1] for i, a in enumerate(passed)}
        for L in lists:
            if L not in local_of or L not in source:
                continue
            p = param_of.get(local_of[L])
            cons = f"{L} ({source[L][1]}) -> {p}"
            if p is None:
                r.bad(m, qual, cons, f"{L} is not passed to _add_component", ac[0].lineno)
            elif p not in consume:
                r.bad(m, qual, cons, f"{L} is passed as {p}, which _add_component does not consume", ac[0].lineno)
            elif consume[p] == source[L] and source[L][0] == 'map' and \
                    (hosts_of.get(L) == '<every host>') != (cons_host.get(p) == '<every host>'):
                r.bad(m, qual, cons + " (different hosts)", f"{L} is filtered from {hosts_of.get(L)}'s table but restored into "
                      f"{cons_host.get(p)}'s: an entry that belongs to a block of another ancestor raises KeyError / is restored into "
                      f"the wrong component", ac[0].lineno)
            elif consume[p] != source[L]:
                r.bad(m, qual, cons + f" -> {consume[p][1]}", f"entries saved from {source[L][1]} are restored into "
                      f"{consume[p][1]}: after the replacement the parent's blocks have the wrong read/write/call sets "
                      f"(scheduling constraints differ from a fresh build)", ac[0].lineno)
            else:
                r.ok(m, qual, cons + f" -> {consume[p][1]}")
    _floor(r, 60)
    return r


# ---------------------------------------------------------------------------
# R-C15-names: the naming code duplicated in _add_component's list branch
def _str_parts(e):
    """flatten string building (f-string / + of strings) into a list of ('lit', s) / ('expr', text); None if e is not string building"""
    if isinstance(e, ast.Constant) and isinstance(e.value, str):
        return [('lit', e.value)]
    if isinstance(e, ast.JoinedStr):
        out = []
        for v in e.values:
            if isinstance(v, ast.Constant):
                out.append(('lit', v.value))
            elif isinstance(v, ast.FormattedValue) and v.conversion == -1 and v.format_spec is None:
                out.append(('expr', _canon(v.value)))
            else:
                return None
        return out
    if isinstance(e, ast.BinOp) and isinstance(e.op, ast.Add):
        a, b = _str_parts(e.left), _str_parts(e.right)
        if a is None and b is None:
            return None
        a = a if a is not None else [('expr', _canon(e.left))]
        b = b if b is not None else [('expr', _canon(e.right))]
        return a + b
    return None


def _canon(e):
    parts = _str_parts(e)
    if parts is not None and not (isinstance(e, ast.Constant)):
        merged = []
        for k, v in parts:
            if merged and k == 'lit' and merged[-1][0] == 'lit':
                merged[-1] = ('lit', merged[-1][1] + v)
            elif not (k == 'lit' and v == ''):
                merged.append((k, v))
        return 'STR[' + ' + '.join(repr(v) if k == 'lit' else v for k, v in merged) + ']'
    if isinstance(e, ast.Attribute) and e.attr == 'elaborate_top' and isinstance(e.value, ast.Attribute) and e.value.attr == '_dsl':
        return 'ELABTOP'
    return norm(e)


def _pure_value(e):
    """may a single-assignment local bound to e be replaced by e?  (no call other than string building / builtin conversions)"""
    for n in ast.walk(e):
        if isinstance(n, ast.Call):
            f = n.func
            ok = (isinstance(f, ast.Attribute) and f.attr in ('join', 'format') and isinstance(f.value, ast.Constant)) or \
                 (isinstance(f, ast.Name) and f.id in ('str', 'repr', 'len', 'int', 'tuple', 'list'))
            if not ok:
                return False
        if isinstance(n, (ast.Yield, ast.Await, ast.NamedExpr)):
            return False
    return True


class _Region:
    """one of the two sibling naming regions, with the renaming to canonical role names"""
    def __init__(self, mod, qual, fn, stmts, roles):
        self.mod, self.qual, self.fn, self.stmts, self.roles = mod, qual, fn, stmts, roles

    def rewrite(self, e, at):
        e = _expand(e, at)
        roles, fn = self.roles, self.fn

        class T(ast.NodeTransformer):
            def visit_Name(self, n):
                if n.id in roles:
                    return ast.copy_location(ast.Name(id=roles[n.id], ctx=n.ctx), n)
                if isinstance(n.ctx, ast.Load):
                    bs = [b for b in _bindings(fn, n.id) if b[0] == 'assign']
                    if bs and all(isinstance(b[2], ast.Attribute) and b[2].attr == 'elaborate_top' for b in bs):
                        return ast.copy_location(ast.Name(id='ELABTOP', ctx=n.ctx), n)
                    rv = reaching_value(n.id, at)
                    if rv is not None and _pure_value(rv) and not any(isinstance(x, ast.Name) and x.id == n.id for x in ast.walk(rv)):
                        return self.visit(_expand(rv, at))
                return n
        return T().visit(_clone(e))

    def canon(self, e, at):
        return _canon(self.rewrite(e, at)).replace('ELABTOP._dsl.elaborate_top', 'ELABTOP')

    def top_index(self, node):
        cur = node
        while cur is not None:
            for i, s in enumerate(self.stmts):
                if s is cur:
                    return i
            cur = parent(cur)
        return None

    def guard_atoms(self, st):
        out = []
        for g in guards_of(st):
            if self.top_index(g.node) is None or g.kind not in ('if', 'loop'):
                continue        # guard outside the region (the branch test itself and above) / sanity asserts
            if g.kind == 'loop':
                out.append(('loop', self.canon(g.test, st)))
                continue
            todo = [(g.test, g.polarity)]
            while todo:
                t, pol = todo.pop()
                if isinstance(t, ast.BoolOp) and isinstance(t.op, ast.And) and pol:
                    todo += [(v, pol) for v in t.values]
                elif isinstance(t, ast.UnaryOp) and isinstance(t.op, ast.Not):
                    todo.append((t.operand, not pol))
                else:
                    out.append((pol, self.canon(t, st)))
        return frozenset(out)

    def facts(self):
        """{(field, guards, value)} for assignments to CHILD._dsl.<field> and param_tree.merge calls"""
        out = {}
        for top in self.stmts:
            for st in walk_no_nested(top):
                if isinstance(st, ast.Assign):
                    for t in st.targets:
                        da = _dsl_attr(self.rewrite(t, st)) if isinstance(t, ast.Attribute) else None
                        if da and da[0] == 'CHILD':
                            out.setdefault(da[1], set()).add((self.guard_atoms(st), self.canon(st.value, st)))
                elif isinstance(st, ast.Expr) and isinstance(st.value, ast.Call) and isinstance(st.value.func, ast.Attribute):
                    c = st.value
                    recv = self.rewrite(c.func.value, st)
                    if norm(recv).startswith('CHILD._dsl.'):
                        out.setdefault(norm(recv)[len('CHILD._dsl.'):] + '.' + c.func.attr, set()).add(
                            (self.guard_atoms(st), ', '.join(self.canon(a, st) for a in c.args)))
        return out

    def find_call(self, pred):
        hits = []
        for i, top in enumerate(self.stmts):
            for n in walk_no_nested(top):
                if isinstance(n, ast.Call) and pred(n):
                    hits.append((i, n))
        return sorted(hits, key=lambda x: (x[1].lineno, x[1].col_offset))


def _regions(repo):
    nm = repo.mod(NAMED)
    sf = nm.get_func('NamedObject.__setattr_for_elaborate__')
    sp = _params(sf)
    if len(sp) != 3:
        raise AnalysisError("signature of __setattr_for_elaborate__ changed")
    regA = None
    for w in [n for n in walk_no_nested(sf) if isinstance(n, ast.While)]:
        for st in walk_no_nested(w):
            if isinstance(st, ast.If):
                it = _isinstance_test(st.test)
                if it and it[1] == ['NamedObject']:
                    child = it[0]
                    # the index tuple unpacked together with the child
                    idx = None
                    for k, s2, v, i in _bindings(sf, child):
                        if k == 'unpack' and isinstance(s2.targets[0], ast.Tuple) and len(s2.targets[0].elts) == 2:
                            idx = s2.targets[0].elts[1 - i].id
                    if idx is None:
                        raise AnalysisError("list branch of __setattr_for_elaborate__: cannot find the index tuple")
                    regA = _Region(nm, 'NamedObject.__setattr_for_elaborate__', sf, st.body,
                                   {sp[0]: 'PARENT', child: 'CHILD', sp[1]: 'NAME', idx: 'INDICES'})
    if regA is None:
        raise AnalysisError("anchor vanished: list branch of NamedObject.__setattr_for_elaborate__")
    m = repo.mod(COMP)
    af = m.get_func(ADD_QUAL)
    ap = _params(af)
    regB = None
    for st in af.body:
        if isinstance(st, ast.If):
            t, pol = st.test, True
            if isinstance(t, ast.UnaryOp) and isinstance(t.op, ast.Not):
                t, pol = t.operand, False
            if isinstance(t, ast.Name) and t.id == ap[3]:
                body = st.body if pol else st.orelse
                other = st.orelse if pol else st.body
                regB = _Region(m, ADD_QUAL, af, body, {ap[1]: 'PARENT', ap[4]: 'CHILD', ap[2]: 'NAME', ap[3]: 'INDICES'})
                regB.other = other
                regB.branch = st
    if regB is None or not regB.stmts:
        raise AnalysisError("anchor vanished: list branch of Component._add_component")
    return regA, regB


# ---- name resolution ------------------------------------------------------
_BUILTINS = set(dir(builtins))


def _local_names(fn):
    """names bound in the scope of fn (not in nested function scopes)"""
    out = set()
    a = fn.args
    for x in a.posonlyargs + a.args + a.kwonlyargs + ([a.vararg] if a.vararg else []) + ([a.kwarg] if a.kwarg else []):
        out.add(x.arg)
    body = fn.body if isinstance(fn.body, list) else [fn.body]
    for st in body:
        for n in walk_no_nested(st):
            if isinstance(n, ast.Name) and isinstance(n.ctx, (ast.Store, ast.Del)):
                out.add(n.id)
            elif isinstance(n, ast.ExceptHandler) and n.name:
                out.add(n.name)
            elif isinstance(n, (ast.Import, ast.ImportFrom)):
                for al in n.names:
                    out.add((al.asname or al.name).split('.')[0])
    # nested defs / classes bind their own name in this scope
    todo = list(body)
    while todo:
        n = todo.pop()
        for ch in ast.iter_child_nodes(n):
            if isinstance(ch, (ast.FunctionDef, ast.AsyncFunctionDef, ast.ClassDef)):
                out.add(ch.name)
            elif not isinstance(ch, ast.Lambda):
                todo.append(ch)
    for st in body:
        if isinstance(st, (ast.FunctionDef, ast.AsyncFunctionDef, ast.ClassDef)):
            out.add(st.name)
    return out


def _module_names(mod):
    out = set(mod.classes) | set(mod.functions) | set(mod.assigns) | set(mod.imports)
    for st in mod.tree.body:
        for n in walk_no_nested(st):
            if isinstance(n, ast.Name) and isinstance(n.ctx, ast.Store):
                out.add(n.id)
    return out


def _unresolved(repo, mod, fn, outer=frozenset()):
    """[(name, node)] loaded in fn (and its nested scopes) that resolve neither locally, nor in an enclosing
    function, nor at module level (star imports followed through the loader), nor as a builtin"""
    scope = _local_names(fn) | outer
    modnames = _module_names(mod)
    bad = []
    body = fn.body if isinstance(fn.body, list) else [fn.body]
    nested = []
    for st in body:
        if isinstance(st, (ast.FunctionDef, ast.AsyncFunctionDef, ast.Lambda)):
            nested.append(st)
            continue
        for n in walk_no_nested(st):
            if isinstance(n, ast.Name) and isinstance(n.ctx, ast.Load):
                if n.id in scope or n.id in modnames or n.id in _BUILTINS:
                    continue
                if mod.star_imports:
                    if repo.resolve(mod, n.id) is not None:
                        continue
                    if any(repo.dotted_to_rel(d) is None for d in mod.star_imports):
                        raise AnalysisError(f"{mod.rel}: name {n.id} may come from a star import that leaves the repository")
                bad.append((n.id, n))
            for ch in ast.iter_child_nodes(n):
                if isinstance(ch, (ast.FunctionDef, ast.AsyncFunctionDef, ast.Lambda)):
                    nested.append(ch)
                    # default values / decorators are evaluated in this scope
                    for d in ch.args.defaults + [k for k in ch.args.kw_defaults if k is not None]:
                        for x in ast.walk(d):
                            if isinstance(x, ast.Name) and isinstance(x.ctx, ast.Load) and x.id not in scope \
                                    and x.id not in modnames and x.id not in _BUILTINS:
                                bad.append((x.id, x))
    for nf in nested:
        bad += _unresolved(repo, mod, nf, scope)
    return bad


def rule_names(repo):
    r = RuleResult('R-C15-names', "_add_component's list branch names the new child exactly as __setattr_for_elaborate__ "
                   "does (same _dsl fields, same values, same param-tree push-down conditions, constructed inside the "
                   "elaboration stack with the setattr hook installed) and every name used on the replace path resolves")
    A, B = _regions(repo)
    fa, fb = A.facts(), B.facts()
    for fld in sorted(set(fa) | set(fb)):
        cons = f"_dsl.{fld}"
        if fld not in fb:
            r.bad(B.mod, B.qual, cons, f"__setattr_for_elaborate__ sets {cons} of a list element but _add_component's list "
                  f"branch does not: a replaced list element lacks it (e.g. a second replace_component of the same "
                  f"element or get_field_name fails)", B.branch.lineno)
        elif fld not in fa:
            r.bad(B.mod, B.qual, cons, f"_add_component's list branch sets {cons} which elaboration never sets for a list element",
                  B.branch.lineno)
        elif fa[fld] != fb[fld]:
            da = sorted(f"{v} when {sorted(map(str, g))}" if g else v for g, v in fa[fld] - fb[fld])
            db = sorted(f"{v} when {sorted(map(str, g))}" if g else v for g, v in fb[fld] - fa[fld])
            r.bad(B.mod, B.qual, cons, f"{cons} differs between the siblings: elaboration gives {da}, _add_component gives "
                  f"{db}; a replaced list element is named / parameterised differently from a freshly built one",
                  B.branch.lineno)
        else:
            r.ok(B.mod, B.qual, f"{cons} = {sorted(v for g, v in fb[fld])[0][:80]}")
    # construction bracket
    for R in (A, B):
        cons = f"{R.qual}: construct inside the elaboration stack"
        stack = R.find_call(lambda n: isinstance(n.func, ast.Attribute) and n.func.attr in ('append', 'pop')
                            and norm(n.func.value).endswith('._elaborate_stack'))
        ctor = R.find_call(lambda n: isinstance(n.func, ast.Attribute) and n.func.attr == '_construct'
                           and R.roles.get(norm(n.func.value)) == 'CHILD')
        app = [i for i, n in stack if n.func.attr == 'append' and len(n.args) == 1 and R.roles.get(norm(n.args[0])) == 'CHILD']
        pop = [i for i, n in stack if n.func.attr == 'pop']
        fields = [R.top_index(st) for top in R.stmts for st in walk_no_nested(top)
                  if isinstance(st, ast.Assign) and any(isinstance(t, ast.Attribute) and
                                                        (_dsl_attr(R.rewrite(t, st)) or ('', ''))[0] == 'CHILD' for t in st.targets)]
        if len(ctor) != 1 or not app or not pop:
            r.bad(R.mod, R.qual, cons, "the child is not constructed between _elaborate_stack.append(child) and .pop(): "
                  "@update / connect inside its construct() attach to the wrong component", R.stmts[0].lineno)
            continue
        ci = ctor[0][0]
        if not (max(app) < ci < min(pop)) or not all(i < ci for i in fields):
            r.bad(R.mod, R.qual, cons, "order broken: all _dsl naming fields and the stack push must precede _construct(), "
                  "the pop must follow it", ctor[0][1].lineno)
        else:
            r.ok(R.mod, R.qual, cons)
    # setattr hook around the construction (list branch) and around setattr (plain branch); stack set up and torn down
    def hook_events(stmts):
        ev = []
        for i, top in enumerate(stmts):
            for st in walk_no_nested(top):
                if isinstance(st, ast.Assign) and norm(st.targets[0]) == 'NamedObject.__setattr__' and \
                        norm(st.value) == 'NamedObject.__setattr_for_elaborate__':
                    ev.append((st.lineno, 'install'))
                elif isinstance(st, ast.Delete) and [norm(t) for t in st.targets] == ['NamedObject.__setattr__']:
                    ev.append((st.lineno, 'remove'))
                elif isinstance(st, ast.Call) and isinstance(st.func, ast.Attribute) and st.func.attr == '_construct':
                    ev.append((st.lineno, 'work'))
                elif isinstance(st, ast.Call) and norm(st.func) == 'setattr':
                    ev.append((st.lineno, 'work'))
        return [k for _, k in sorted(ev)]
    for label, stmts in (('list branch', B.stmts), ('plain-field branch', B.other)):
        ev = hook_events(stmts)
        cons = f"{ADD_QUAL} {label}: setattr hook {ev}"
        if ev == ['install', 'work', 'remove']:
            r.ok(B.mod, ADD_QUAL, cons)
        else:
            r.bad(B.mod, ADD_QUAL, f"{ADD_QUAL} {label}: setattr hook bracket", f"expected install -> construct/setattr -> remove "
                  f"of NamedObject.__setattr__, found {ev}: children created by the new component's construct() are not "
                  f"named (or every later attribute assignment in the process is hooked)", B.branch.lineno)
    af = B.fn
    pre = [st for st in af.body if isinstance(st, ast.Assign) and norm(st.targets[0]) == 'NamedObject._elaborate_stack']
    post = [st for st in af.body if isinstance(st, ast.Delete) and [norm(t) for t in st.targets] == ['NamedObject._elaborate_stack']]
    parent_name = _params(af)[1]
    if len(pre) == 1 and len(post) == 1 and norm(pre[0].value) == f"[{parent_name}]" and \
            af.body.index(pre[0]) < af.body.index(B.branch) < af.body.index(post[0]):
        r.ok(B.mod, ADD_QUAL, f"NamedObject._elaborate_stack = [{parent_name}] ... del")
    else:
        r.bad(B.mod, ADD_QUAL, "NamedObject._elaborate_stack set up / torn down", "the elaboration stack must be [parent] "
              "while the new component is built and be deleted afterwards", af.lineno)
    # index walk siblings (delete side vs add side)
    m = repo.mod(COMP)
    delf = m.get_func(DEL_QUAL)
    wa = _index_walk([x for top in B.stmts for x in walk_no_nested(top)])
    wd = _index_walk(list(walk_no_nested(delf)))
    if wa is None or wd is None:
        raise AnalysisError("index walk of _add_component / _delete_component not found (while / for / reduce forms are understood)")
    for side, wk, qual in (('_add_component', wa, ADD_QUAL), ('_delete_component', wd, DEL_QUAL)):
        if wk['why']:
            r.bad(m, qual, "index walk to the innermost list", f"{side}: {wk['why']}: the slot cleared and the slot refilled "
                  f"differ for nested lists (or the walk indexes past the innermost list)", wk['node'].lineno)
        else:
            r.ok(m, qual, f"index walk: {wk['L']} descends along all but the last element of {wk['I']}")
    # every name resolves
    scanned = 0
    targets = [(m, f"Component.{f.name}", f) for f in m.methods('Component').values()]
    for name in ('_collect_vars', '_uncollect_vars'):
        targets += [(fm, f"{fc.name}.{name}", f) for fm, fc, f in _defs(repo, name)]
    nm = repo.mod(NAMED)
    for q in ('NamedObject.__setattr_for_elaborate__', 'NamedObject._collect_all', 'NamedObject._collect_all_single'):
        targets.append((nm, q, nm.get_func(q)))
    for fm, q, f in targets:
        bad = _unresolved(repo, fm, f)
        scanned += 1
        if bad:
            first = {}
            for n, x in sorted(bad, key=lambda t: t[1].lineno):
                first.setdefault(n, x)
            for name, node in first.items():
                r.bad(fm, q, f"name {name}", f"`{name}` is used in {q} but is neither a local, a module-level name / import of "
                      f"{fm.rel} nor a builtin: NameError when this path runs (e.g. a replaced list element with set_param "
                      f"overrides)", node.lineno)
        else:
            r.ok(fm, q, "all names resolve", nontrivial=False)
    # embedded positive example for the resolver
    probe = ast.parse("def f(a):\n  b = a\n  return [Zzz(x) for x in b] + [len(b)]\n")
    from sa.loader import _set_parents
    _set_parents(probe)
    if [n for n, _ in _unresolved(repo, m, probe.body[0])] != ['Zzz']:
        raise AnalysisError("name-resolution probe failed")
    _floor(r, 71)
    return r


# ---------------------------------------------------------------------------
def rule_flush(repo):
    r = RuleResult('R-C15-flush', "both replace variants capture parent/name/indices before deleting, delete before adding, "
                   "flush value and method nets and re-run check() by default; pending flags and flush helpers are not crossed")
    m = repo.mod(COMP)
    addf = m.get_func(ADD_QUAL)
    aps = _params(addf)
    for qual in ('Component.replace_component', 'Component.replace_component_with_obj'):
        fn = m.get_func(qual)
        ps = _params(fn)
        top, foo = ps[0], ps[1]
        body = fn.body

        def idx_of(node):
            st = stmt_of(node)
            while st is not None and not any(st is s for s in body):
                st = parent(st)
            return None if st is None else [i for i, s in enumerate(body) if s is st][0]
        calls = {}
        for n in walk_no_nested(fn):
            if isinstance(n, ast.Call) and isinstance(n.func, ast.Attribute) and norm(n.func.value) == top:
                calls.setdefault(n.func.attr, []).append(n)
        need = ['_check_called_at_elaborate_top', '_delete_component', '_add_component',
                '_flush_pending_value_connections', '_flush_pending_method_connections', 'check']
        missing = [c for c in need if len(calls.get(c, [])) != 1]
        if missing:
            for c in missing:
                r.bad(m, qual, f"{top}.{c}()", f"{qual} does not call {top}.{c}() exactly once: "
                      + ("nets returned by get_all_*_nets / used by check() are stale after the replacement"
                         if 'flush' in c else "the replacement protocol is incomplete"), fn.lineno)
            continue
        pos = {c: idx_of(calls[c][0]) for c in need}
        cons = ' -> '.join(sorted(need, key=lambda c: pos[c]))
        order_ok = pos['_check_called_at_elaborate_top'] < pos['_delete_component'] < pos['_add_component'] and \
            pos['_add_component'] < pos['_flush_pending_value_connections'] < pos['check'] and \
            pos['_add_component'] < pos['_flush_pending_method_connections'] < pos['check']
        if order_ok:
            r.ok(m, qual, cons)
        else:
            r.bad(m, qual, 'call order', f"order is {cons}; required: top check, delete, add, both flushes, then check()", fn.lineno)
        # flushes unconditional, check() guarded exactly by the `check` parameter defaulting to True
        for c in ('_flush_pending_value_connections', '_flush_pending_method_connections', '_delete_component', '_add_component'):
            gs = [g for g in guards_of(stmt_of(calls[c][0])) if g.kind in ('if', 'exit')]
            if gs:
                r.bad(m, qual, f"{top}.{c}() conditional", f"{c} runs only when {gs}", calls[c][0].lineno)
            else:
                r.ok(m, qual, f"{top}.{c}() unconditional", nontrivial=False)
        gs = [g for g in guards_of(stmt_of(calls['check'][0])) if g.kind in ('if', 'exit')]
        flag = ps[-1]
        dflt = fn.args.defaults[-1] if fn.args.defaults else None
        if len(gs) == 1 and norm(gs[0].test) == flag and gs[0].polarity and isinstance(dflt, ast.Constant) and dflt.value is True:
            r.ok(m, qual, f"if {flag}: {top}.check()  ({flag}=True by default)")
        else:
            r.bad(m, qual, f"{top}.check() by default", f"the structural checks must re-run after a replacement unless the caller "
                  f"opts out (guards {gs}, default {norm(dflt) if dflt else None})", calls['check'][0].lineno)
        # arguments of _add_component
        ac = calls['_add_component'][0]
        dc = calls['_delete_component'][0]
        if [norm(a) for a in dc.args] != [foo]:
            r.bad(m, qual, norm(dc), f"_delete_component must receive the replaced component `{foo}`", dc.lineno)
        want = {aps[1]: f"{foo}.get_parent_object()", aps[2]: f"{foo}._dsl._my_name", aps[3]: f"{foo}._dsl._my_indices"}
        for i, pname in enumerate(aps[1:4]):
            a = ac.args[i] if i < len(ac.args) else None
            rv = reaching_value(a.id, ac) if isinstance(a, ast.Name) else a
            if rv is not None and isinstance(a, ast.Name):
                bst = [st for k, st, v, _ in _bindings(fn, a.id) if k == 'assign']
                rv = _expand(rv, bst[0] if len(bst) == 1 else ac)
            elif rv is not None:
                rv = _expand(rv, ac)
            cons = f"_add_component({pname}=...)"
            if rv is None or norm(rv) != want[pname]:
                r.bad(m, qual, cons, f"{pname} is `{norm(rv) if rv is not None else norm(a)}`, must be {want[pname]} "
                      f"(for list elements my_name carries the indices; the new object would be stored under the wrong field)",
                      ac.lineno)
                continue
            if isinstance(a, ast.Name):
                b = [st for k, st, v, _ in _bindings(fn, a.id) if k == 'assign']
                if len(b) != 1 or idx_of(b[0]) >= pos['_delete_component']:
                    r.bad(m, qual, cons, f"`{a.id}` must be read before _delete_component (which deletes parent_obj of the "
                          f"removed component): NotElaboratedError otherwise", ac.lineno)
                    continue
            elif pname == aps[1]:
                r.bad(m, qual, cons, "parent is read after _delete_component removed parent_obj", ac.lineno)
                continue
            r.ok(m, qual, f"{cons} = {want[pname]} captured before the deletion")
        # the object handed over
        a = ac.args[3] if len(ac.args) > 3 else None
        if qual.endswith('with_obj'):
            if isinstance(a, ast.Name) and a.id == ps[2]:
                r.ok(m, qual, f"_add_component({aps[4]}={ps[2]})", nontrivial=False)
            else:
                r.bad(m, qual, f"_add_component({aps[4]}=...)", "the caller's object is not the one added", ac.lineno)
        else:
            rv = reaching_value(a.id, ac) if isinstance(a, ast.Name) else a
            if rv is not None:
                bst = [st for k, st, v, _ in _bindings(fn, a.id) if k == 'assign'] if isinstance(a, ast.Name) else []
                rv = _expand(rv, bst[0] if len(bst) == 1 else ac)
            okc = isinstance(rv, ast.Call) and norm(rv.func) == ps[2] and \
                [norm(x) for x in rv.args] == [f"*{foo}._dsl.args"] and \
                [(k.arg, norm(k.value)) for k in rv.keywords] == [(None, f"{foo}._dsl.kwargs")]
            if okc:
                r.ok(m, qual, f"new object = {norm(rv)}")
            else:
                r.bad(m, qual, "new object construction", f"the replacement must be built as {ps[2]}(*{foo}._dsl.args, "
                      f"**{foo}._dsl.kwargs) so that it gets the replaced component's parameters; found "
                      f"{norm(rv) if rv is not None else None}", ac.lineno)
    # the argument record replace_component re-instantiates from must be what construct() was really called with
    cm, cc = _component(repo)
    hit = repo.lookup_method(cm, cc, '_construct')
    if hit is None:
        raise AnalysisError("anchor vanished: _construct")
    km, kc, kf = hit
    kq = f"{kc.name}._construct"
    me = _params(kf)[0]
    ccalls = [n for n in walk_no_nested(kf) if isinstance(n, ast.Call) and isinstance(n.func, ast.Attribute)
              and n.func.attr == 'construct' and norm(n.func.value) == me]
    if len(ccalls) != 1:
        raise AnalysisError(f"{kq}: expected one {me}.construct(...) call")
    cc0 = ccalls[0]
    star = [norm(x.value) for x in cc0.args if isinstance(x, ast.Starred)]
    kw = [k.value for k in cc0.keywords if k.arg is None]
    if star != [f"{me}._dsl.args"] or len(cc0.args) != 1:
        r.bad(km, kq, f"{me}.construct(*{me}._dsl.args, ...)", "construct() is not called with the recorded positional arguments; "
              "replace_component rebuilds from _dsl.args and would pass different ones", cc0.lineno)
    else:
        r.ok(km, kq, f"{me}.construct(*{me}._dsl.args, ...)", nontrivial=False)
    record = f"{me}._dsl.kwargs"
    if len(kw) != 1:
        raise AnalysisError(f"{kq}: construct() call without a single **kwargs")
    K = kw[0]
    stored_back = [st for st in walk_no_nested(kf) if isinstance(st, ast.Assign) and any(norm(t) == record for t in st.targets)
                   and norm(st.value) == norm(K)]
    if norm(K) == record:
        r.ok(km, kq, f"construct(**{record})")
    elif not isinstance(K, ast.Name):
        raise AnalysisError(f"{kq}: **{norm(K)} outside the domain")
    else:
        muts = [n for n in walk_no_nested(kf) if
                (isinstance(n, ast.Call) and isinstance(n.func, ast.Attribute) and norm(n.func.value) == K.id
                 and n.func.attr in ('update', 'setdefault', 'pop', '__setitem__')) or
                (isinstance(n, ast.Subscript) and isinstance(n.ctx, ast.Store) and norm(n.value) == K.id) or
                (isinstance(n, ast.AugAssign) and isinstance(n.target, ast.Name) and n.target.id == K.id)]
        binds = [(st, v) for k, st, v, _ in _bindings(kf, K.id) if k == 'assign']
        if not binds:
            raise AnalysisError(f"{kq}: no binding of {K.id}")
        for st, v in binds:
            t = norm(v)
            if t not in (record, f"{record}.copy()", f"dict({record})", f"dict(**{record})", f"{{**{record}}}"):
                raise AnalysisError(f"{kq}: `{norm(st)}` binds the construct arguments to something outside the domain")
        for mu in muts:
            rv = reaching_value(K.id, mu)
            cons = f"{norm(mu)[:60]} merges into the argument record"
            if rv is None:
                raise AnalysisError(f"{kq}: cannot tell which dict `{norm(mu)}` mutates")
            if norm(rv) == record or stored_back:
                r.ok(km, kq, cons)
            else:
                r.bad(km, kq, f"set_param arguments merged into a copy of {record}",
                      f"`{norm(mu)}` updates `{norm(rv)}`, a copy, and the merged dict is never stored back: {record} no longer "
                      f"records the parameters the component was built with; replace_component re-instantiates the replacement "
                      f"from foo._dsl.args / foo._dsl.kwargs and builds it with defaults instead of the set_param'd values", mu.lineno)
        if not muts:
            r.ok(km, kq, f"construct(**{K.id}) with {K.id} never modified", nontrivial=False)
    # flush helpers and getters: value<->value, method<->method
    for kind in ('value', 'method'):
        q = f"Component._flush_pending_{kind}_connections"
        fn = m.get_func(q)
        me = _params(fn)[0]
        flag = f"{me}._dsl._has_pending_{kind}_connections"
        ifs = [s for s in fn.body if isinstance(s, ast.If)]
        ok = len(ifs) == 1 and norm(ifs[0].test) == flag and not ifs[0].orelse
        if ok:
            b = [norm(s) for s in ifs[0].body]
            ok = f"{me}._dsl.all_{kind}_nets = {me}._resolve_{kind}_connections()" in b and f"{flag} = False" in b \
                and b.index(f"{flag} = False") > b.index(f"{me}._dsl.all_{kind}_nets = {me}._resolve_{kind}_connections()")
        if ok:
            r.ok(m, q, f"if pending_{kind}: all_{kind}_nets = _resolve_{kind}_connections(); pending_{kind} = False")
        else:
            r.bad(m, q, f"flush of {kind} nets", f"the helper must recompute all_{kind}_nets with _resolve_{kind}_connections "
                  f"when (and only clear) _has_pending_{kind}_connections: otherwise the nets after a replacement are stale "
                  f"or of the wrong kind", fn.lineno)
        q = f"Component.get_all_{kind}_nets"
        fn = m.get_func(q)
        me = _params(fn)[0]
        rets = [n for n in walk_no_nested(fn) if isinstance(n, ast.Return)]
        fl = [n for n in walk_no_nested(fn) if isinstance(n, ast.Call) and norm(n.func) == f"{me}._flush_pending_{kind}_connections"]
        if len(rets) == 1 and norm(rets[0].value) == f"{me}._dsl.all_{kind}_nets" and fl and \
                any(stmt_of(fl[0]) is s for s in preceding_stmts(rets[0])):
            r.ok(m, q, f"flushes pending {kind} connections before returning all_{kind}_nets")
        else:
            r.bad(m, q, f"get_all_{kind}_nets flush", f"the getter must flush pending {kind} connections before returning "
                  f"all_{kind}_nets", fn.lineno)
    # the deletion marks both kinds of nets dirty
    delf = m.get_func(DEL_QUAL)
    top = _params(delf)[0]
    for kind in ('value', 'method'):
        sets = [st for st in delf.body if isinstance(st, ast.Assign) and norm(st.targets[0]) == f"{top}._dsl._has_pending_{kind}_connections"
                and isinstance(st.value, ast.Constant) and st.value.value is True]
        if sets:
            r.ok(m, DEL_QUAL, f"{top}._dsl._has_pending_{kind}_connections = True")
        else:
            r.bad(m, DEL_QUAL, f"_has_pending_{kind}_connections = True", f"after removing signals / method ports the cached "
                  f"all_{kind}_nets still contain them; the flag must be raised unconditionally so that the flush recomputes "
                  f"the nets", delf.lineno)
    cf = m.get_func('Component.check')
    if any(isinstance(n, ast.Call) and norm(n.func) == f"{_params(cf)[0]}._check_valid_dsl_code" for n in walk_no_nested(cf)):
        r.ok(m, 'Component.check', '_check_valid_dsl_code()', nontrivial=False)
    else:
        r.bad(m, 'Component.check', '_check_valid_dsl_code()', "check() no longer runs the structural checks", cf.lineno)
    _floor(r, 29)
    return r


def rule_func_meta_cache(repo):
    """a replacement of the same class built with other parameters re-collects its blocks' read/write sets: the per-class
    cache of block metadata must not hand the removed instance's parse (lambda-connection blocks are instance specific) to
    the new one.  Shared with C02 (R-C02-cache-scope)."""
    from rules.c02 import rule_cache_scope
    return rule_cache_scope(repo)


RULES = [rule_inverse, rule_sites, rule_keys, rule_saved, rule_names, rule_flush, rule_func_meta_cache]


# ---------------------------------------------------------------------------
# self-test of the checker (thorough tier)
L1 = 'pymtl3/dsl/ComponentLevel1.py'
L2 = 'pymtl3/dsl/ComponentLevel2.py'
L3 = 'pymtl3/dsl/ComponentLevel3.py'
L4 = 'pymtl3/dsl/ComponentLevel4.py'


def _m(name, file, old, new, rule=None, count=1):
    return dict(name=name, file=file, old=old, new=new, rule=rule, count=count)


MUTANTS = [
    # --- the three defects this property found (already fixed in /repo), re-introduced
    _m('D5-wr-subtracts-rd', L2, "s._dsl.all_WR_U_constraints[k] -= m._dsl.WR_U_constraints[k]",
       "s._dsl.all_WR_U_constraints[k] -= m._dsl.RD_U_constraints[k]", 'R-C15-inverse'),
    _m('D6-level4-no-uncollect', L4, """  def _uncollect_vars( s, m ):
    super()._uncollect_vars( m )
    if isinstance( m, ComponentLevel4 ):
      s._dsl.all_update_once   -= m._dsl.update_once
      s._dsl.all_M_constraints -= m._dsl.M_constraints
""", "", 'R-C15-inverse'),
    _m('D12-paramtreenode-not-imported', COMP, "from .NamedObject import NamedObject, ParamTreeNode",
       "from .NamedObject import NamedObject", 'R-C15-names'),
    # --- the defects repaired by fix_1..fix_4 (Const keys, emptied constraint keys, interfaces, placeholder), re-introduced.
    #     They are anchored on the repaired text and are reported as stale (not as survivors) on a tree without the repair.
    _m('F1-removed-consts-stay-as-keys', COMP, """        # Constants of the removed components are keys of all_adjacency
        if y in top._dsl.all_adjacency:
          del top._dsl.all_adjacency[y]
""", "", 'R-C15-keys'),
    _m('F1-by-value-const-stays-in-all-adjacency', COMP, "                del top._dsl.all_adjacency[other]\n", "", 'R-C15-keys'),
    _m('F1-by-value-const-stays-in-host-adjacency', COMP, """              if isinstance( other, Const ):
                del parent._dsl.adjacency[other]
                parent._dsl.consts.remove( other )
""", "", 'R-C15-keys'),
    _m('F2-rd-emptied-key-stays', L2, """        if not s._dsl.all_RD_U_constraints[k]:
          del s._dsl.all_RD_U_constraints[k]
""", "", 'R-C15-keys'),
    _m('F2-wr-emptied-key-stays', L2, """        if not s._dsl.all_WR_U_constraints[k]:
          del s._dsl.all_WR_U_constraints[k]
""", "", 'R-C15-keys'),
    _m('F2-prune-condition-inverted', L2, "        if not s._dsl.all_WR_U_constraints[k]:\n", "        if s._dsl.all_WR_U_constraints[k]:\n", 'R-C15-keys'),
    _m('F2-prune-unconditional', L2, """        if not s._dsl.all_RD_U_constraints[k]:
          del s._dsl.all_RD_U_constraints[k]
""", """        del s._dsl.all_RD_U_constraints[k]
""", 'R-C15'),
    _m('F3-interfaces-not-removed', COMP, "      top._dsl.all_named_objects -= removed_interfaces\n", "", 'R-C15-sites'),
    _m('F3-interfaces-not-added', COMP, "    top._dsl.all_named_objects |= added_interfaces\n", "", 'R-C15-sites'),
    _m('F3-interfaces-removed-from-wrong-root', COMP, "removed_interfaces = foo._collect_all_single(", "removed_interfaces = parent._collect_all_single(", 'R-C15-sites'),
    _m('F4-placeholder-skips-uncollect', COMP, """      # A placeholder may contain components too, so always uncollect
      for x in removed_components:
        # remove consts
        removed_consts |= x._dsl.consts
        # uncollect variables
        top._uncollect_vars( x )
""", """      if isinstance( foo, Placeholder ):
        # No need to uncollect vars from a placeholder
        assert not foo._dsl.consts
      else:
        for x in removed_components:
          # remove consts
          removed_consts |= x._dsl.consts
          # uncollect variables
          top._uncollect_vars( x )
""", 'R-C15-sites'),
    # --- round 4 repairs (fix_r4_*), re-introduced; anchored on the repaired text (stale on a tree without the repair)
    _m('R4a-spawned-subsignals-not-collected', COMP, """    top._dsl.all_signals       |= spawned_signals
    top._dsl.all_named_objects |= spawned_signals
""", "", 'R-C15-sites'),
    _m('R4a-spawned-subsignals-only-in-named-objects', COMP, "    top._dsl.all_signals       |= spawned_signals\n", "", 'R-C15-sites'),
    _m('R4b-double-buffer-flag-not-restored', COMP, """      if blk in parent._dsl.update_ff:
        written._dsl.needs_double_buffer = True
""", "", 'R-C15-saved'),
    _m('R4c-interface-calls-not-saved', COMP, """          if x in removed_connectables or x in removed_interfaces:
            to_save.add( x )
            saved_upblk_calls.append( (blk, repr(x)) )""", """          if x in removed_connectables:
            to_save.add( x )
            saved_upblk_calls.append( (blk, repr(x)) )""", 'R-C15-saved'),
    _m('R4d-reads-patched-for-the-parent-only', COMP, "      for blk, reads in top._dsl.all_upblk_reads.items():",
       "      for blk, reads in parent._dsl.upblk_reads.items():", 'R-C15-saved'),
    _m('R4d-calls-restored-into-parent-table', COMP, "      top._dsl.all_upblk_calls[blk].add( eval(obj_name) )",
       "      parent._dsl.upblk_calls[blk].add( eval(obj_name) )", 'R-C15-saved'),
    _m('R4e-method-port-pairs-stay-in-connect-order', COMP, "if x not in removed_connectables and y not in removed_connectables:",
       "if x not in removed_signals and y not in removed_signals:", 'R-C15-sites'),
    _m('R4e-connect-order-or', COMP, "if x not in removed_connectables and y not in removed_connectables:",
       "if x not in removed_connectables or y not in removed_connectables:", 'R-C15-sites'),
    _m('R4f-loopback-connections-dropped', COMP, """            elif other in parent._dsl.adjacency:
              # A connection between two removed ports made at the parent
              # (other is still a key: this pair has not been saved yet)
              saved_connections.append( ("top"+repr(other)[1:], "top"+repr(x)[1:]) )
""", "", 'R-C15-keys'),
    _m('R4f-loopback-first-end-not-evaluated', COMP, "connection_pairs.append( eval(x) if isinstance( x, str ) else x )",
       "connection_pairs.append( x )", 'R-C15-saved'),
    _m('seed-double-buffer-tested-against-tops-own-blocks', COMP, "      if blk in parent._dsl.update_ff:\n        written._dsl.needs_double_buffer = True",
       "      if blk in top._dsl.update_ff:\n        written._dsl.needs_double_buffer = True", 'R-C15-saved'),
    _m('seed-read-saved-only-for-parent-blocks', COMP, """            to_save.add( x )
            saved_upblk_reads.append( (blk, repr(x)) )""", """            to_save.add( x )
            if blk in parent._dsl.upblk_reads:
              saved_upblk_reads.append( (blk, repr(x)) )""", 'R-C15-saved'),
    _m('call-stripped-for-more-than-is-saved', COMP, """          if x in removed_connectables or x in removed_interfaces:
            to_save.add( x )
            saved_upblk_calls.append( (blk, repr(x)) )""", """          if x in removed_connectables or x in removed_interfaces:
            to_save.add( x )
          if x in removed_connectables:
            saved_upblk_calls.append( (blk, repr(x)) )""", 'R-C15-saved'),
    _m('R4b-writes-restored-into-reads', COMP, "      parent._dsl.upblk_writes[blk].add( written )", "      parent._dsl.upblk_reads[blk].add( written )",
       'R-C15-saved'),
    _m('R4d-purge-rebinds-instead-of-in-place', COMP, "        top._dsl.all_upblk_calls[blk] -= to_save\n",
       "        top._dsl.all_upblk_calls[blk] = top._dsl.all_upblk_calls[blk] - to_save\n", 'R-C15-saved'),
    _m('seed-difference-result-discarded', L1, "      s._dsl.all_U_U_constraints -= m._dsl.U_U_constraints",
       "      s._dsl.all_U_U_constraints.difference( m._dsl.U_U_constraints )", 'R-C15-inverse'),
    _m('collect-union-result-discarded', L4, "      s._dsl.all_M_constraints |= m._dsl.M_constraints",
       "      s._dsl.all_M_constraints.union( m._dsl.M_constraints )", 'R-C15-inverse'),
    _m('seed-interfaces-removed-from-own-attributes-only', COMP,
       "      removed_interfaces = foo._collect_all_single( lambda x: isinstance( x, Interface ) )",
       "      removed_interfaces = set( foo.get_local_object_filter( lambda x: isinstance( x, Interface ) ) )", 'R-C15-sites'),
    _m('spawned-signals-from-own-attributes-only', COMP,
       "spawned_signals = obj._collect_all_single( lambda x: isinstance( x, Signal ) ) - added_signals",
       "spawned_signals = set( obj.get_local_object_filter( lambda x: isinstance( x, Signal ) ) ) - added_signals", 'R-C15-sites'),
    _m('seed-const-tie-off-purged-but-not-saved', COMP, """                del top._dsl.all_adjacency[other]
                other = other._dsl.const
""", """                del top._dsl.all_adjacency[other]
                continue
""", 'R-C15-saved'),
    _m('seed-m-constraints-kept-when-no-update-once', L4, """    if isinstance( m, ComponentLevel4 ):
      s._dsl.all_update_once   -= m._dsl.update_once
      s._dsl.all_M_constraints -= m._dsl.M_constraints
""", """    if not isinstance( m, ComponentLevel4 ) or not m._dsl.update_once:
      return # nothing of this level was collected from m
    s._dsl.all_update_once   -= m._dsl.update_once
    s._dsl.all_M_constraints -= m._dsl.M_constraints
""", 'R-C15-inverse'),
    _m('l2-metadata-deleted-only-when-component-has-ff-blocks', L2, """      for k in m._dsl.upblks:
        del s._dsl.all_upblk_reads[k]""", """      for k in ( m._dsl.upblks if m._dsl.update_ff else () ):
        del s._dsl.all_upblk_reads[k]""", 'R-C15-inverse'),
    dict(name='seed-update-ff-restricted-before-super', rule='R-C15-inverse', edits=[
        dict(file=L2, old="    super()._uncollect_vars( m )\n\n    if isinstance( m, ComponentLevel2 ):\n      s._dsl.all_update_ff -= m._dsl.update_ff\n",
             new="    s._dsl.all_update_ff &= s._dsl.all_upblks\n    super()._uncollect_vars( m )\n\n    if isinstance( m, ComponentLevel2 ):\n", count=1)]),
    _m('update-once-restricted-to-an-unrelated-table', L4, "      s._dsl.all_update_once   -= m._dsl.update_once",
       "      s._dsl.all_update_once   &= s._dsl.all_update_ff", 'R-C15-inverse'),
    # --- pairing of collect / uncollect
    _m('l1-uu-constraints-not-removed', L1, "      s._dsl.all_U_U_constraints -= m._dsl.U_U_constraints", "      pass", 'R-C15-inverse'),
    _m('l4-once-subtracts-wrong-set', L4, "s._dsl.all_update_once   -= m._dsl.update_once",
       "s._dsl.all_update_once   -= m._dsl.M_constraints", 'R-C15-inverse'),
    _m('l2-upblk-calls-not-deleted', L2, "        del s._dsl.all_upblk_calls[k]\n", "        pass\n", 'R-C15-inverse'),
    _m('l2-uncollect-drops-super', L2, "    super()._uncollect_vars( m )\n", "", 'R-C15-inverse'),
    _m('l4-uncollect-drops-super', L4, "    super()._uncollect_vars( m )\n", "", 'R-C15-inverse'),
    _m('l2-uncollect-wrong-class-guard', L2, """    super()._uncollect_vars( m )

    if isinstance( m, ComponentLevel2 ):""", """    super()._uncollect_vars( m )

    if isinstance( m, Placeholder ):""", 'R-C15-inverse'),
    _m('l2-metadata-deleted-for-ff-blocks-only', L2, """      for k in m._dsl.upblks:
        del s._dsl.all_upblk_reads[k]""", """      for k in m._dsl.update_ff:
        del s._dsl.all_upblk_reads[k]""", 'R-C15-inverse'),
    _m('l1-hostobj-not-deleted', L1, """      for k in m._dsl.upblks:
        del s._dsl.all_upblk_hostobj[ k ]
""", "", 'R-C15-inverse'),
    _m('l2-rd-keyed-by-wr-keys', L2, """      for k in m._dsl.RD_U_constraints:
        s._dsl.all_RD_U_constraints[k] -= m._dsl.RD_U_constraints[k]""", """      for k in m._dsl.WR_U_constraints:
        s._dsl.all_RD_U_constraints[k] -= m._dsl.RD_U_constraints[k]""", 'R-C15-inverse'),
    _m('l2-upblks-registry-diverges', L1, "    s._dsl.upblks.add( blk )\n", "    if not isinstance( s, Placeholder ): s._dsl.upblks.add( blk )\n",
       'R-C15-inverse'),
    _m('l3-collect-new-aggregate-never-removed', L3, """        all_ajd[k] |= v
""", """        all_ajd[k] |= v
      s._dsl.all_signals |= m._dsl.consts
""", 'R-C15-inverse'),
    # --- direct sites of _add_component / _delete_component
    _m('delete-keeps-method-ports', COMP, "      top._dsl.all_method_ports  -= removed_method_ports\n", "", 'R-C15'),
    _m('delete-named-objects-keeps-components', COMP, "      top._dsl.all_named_objects -= removed_components",
       "      top._dsl.all_named_objects -= removed_signals", 'R-C15-sites'),
    _m('add-named-objects-misses-method-ports', COMP, "    top._dsl.all_named_objects |= added_method_ports\n", "", 'R-C15-sites'),
    _m('connectables-without-method-ports', COMP, "removed_connectables = removed_signals | removed_method_ports",
       "removed_connectables = removed_signals", 'R-C15'),
    _m('delete-collects-inports-only', COMP, """                            lambda x: isinstance( x, Signal ), \\
                            lambda x: isinstance( x, MethodPort ) ] )

      top._dsl.all_components    -= removed_components""", """                            lambda x: isinstance( x, InPort ), \\
                            lambda x: isinstance( x, MethodPort ) ] )

      top._dsl.all_components    -= removed_components""", 'R-C15'),
    _m('add-collects-root-only', COMP, """    for c in added_components:
      top._collect_vars( c )""", """    top._collect_vars( obj )""", 'R-C15-sites'),
    _m('uncollect-root-only-after-placeholder-repair', COMP, """      for x in removed_components:
        # remove consts
        removed_consts |= x._dsl.consts
        # uncollect variables
        top._uncollect_vars( x )""", """      for x in removed_components:
        # remove consts
        removed_consts |= x._dsl.consts
      top._uncollect_vars( foo )""", 'R-C15-sites'),
    _m('fields-registry-not-updated', COMP, "        parent._dsl.NamedObject_fields.remove( foo._dsl.my_name )\n", "", 'R-C15-sites'),
    _m('list-slot-cleared-at-first-index', COMP, "        list_parent[ my_indices[i] ] = None\n", "        list_parent[ my_indices[0] ] = None\n", 'R-C15-sites'),
    _m('collector-single-skips-private-test', NAMED, "            if name[0] != '_': # filter private variables\n              stack.append( obj )",
       "            stack.append( obj )", 'R-C15-sites', count='first'),
    _m('list-slot-not-cleared', COMP, "        list_parent[ my_indices[i] ] = None\n", "        pass\n", 'R-C15-sites'),
    _m('connect-order-not-stored', COMP, "      parent._dsl.connect_order = new_connect_order\n", "", 'R-C15-sites'),
    _m('collect-all-skips-slices', NAMED, """          elif isinstance( name, tuple ): # name = [1:3]
            stack.append( obj )
""", "", 'R-C15-sites', count='first'),
    _m('replayed-connections-not-propagated', COMP, "      top._dsl.all_adjacency[x].update( adjs )", "      pass", 'R-C15-saved'),
    # --- keys
    _m('all-adjacency-back-edges-kept', COMP, "              top._dsl.all_adjacency[other].remove( x )\n", "              pass\n", 'R-C15-keys'),
    _m('all-adjacency-node-kept', COMP, "          del top._dsl.all_adjacency[x]\n", "          pass\n", 'R-C15'),
    _m('parent-adjacency-node-kept', COMP, "          del parent._dsl.adjacency[x]\n", "          pass\n", 'R-C15-keys'),
    _m('parent-adjacency-back-edges-kept', COMP, "              parent._dsl.adjacency[other].remove( x )\n", "              pass\n", 'R-C15-keys'),
    _m('seed-signals-collected-before-rw-elaboration', COMP, """    added_components = obj._collect_all_single( lambda x: isinstance( x, Component ) )

    # First elaborate all functions to spawn more named objects
    for c in added_components:
      c._elaborate_read_write_func()

    added_signals, added_method_ports = \\
      obj._collect_all( [ lambda x: isinstance( x, Signal ), \\
                          lambda x: isinstance( x, MethodPort ) ] )
""", """    added_components, added_signals, added_method_ports = \\
      obj._collect_all( [ lambda x: isinstance( x, Component ), \\
                          lambda x: isinstance( x, Signal ), \\
                          lambda x: isinstance( x, MethodPort ) ] )

    for c in added_components:
      c._elaborate_read_write_func()
""", 'R-C15-sites'),
    _m('rw-elaboration-for-root-only', COMP, """    for c in added_components:
      c._elaborate_read_write_func()
""", """    obj._elaborate_read_write_func()
""", 'R-C15-sites'),
    dict(name='seed-removed-consts-filled-after-use', rule='R-C15-keys', edits=[
        dict(file=COMP, old="""        # remove consts
        removed_consts |= x._dsl.consts
        # uncollect variables
        top._uncollect_vars( x )
""", new="""        top._uncollect_vars( x )
""", count=1),
        dict(file=COMP, old="""      for x in removed_components:
        del x._dsl.parent_obj
""", new="""      for x in removed_components:
        removed_consts |= x._dsl.consts
        del x._dsl.parent_obj
""", count=1)]),
    _m('seed-consts-not-excluded-from-outside-neighbours', COMP, "if other not in removed_connectables and other not in removed_consts:",
       "if other not in removed_connectables:", 'R-C15-keys'),
    _m('removed-consts-never-filled', COMP, """        # remove consts
        removed_consts |= x._dsl.consts
""", "", 'R-C15-keys'),
    # --- saved lists
    _m('seed-connect-order-duplicates', L3, """    if o1 not in s._dsl.adjacency[o2]:
      assert o2 not in s._dsl.adjacency[o1]
      s._dsl.adjacency[o1].add( o2 )
      s._dsl.adjacency[o2].add( o1 )

      s._dsl.connect_order.append( (o1, o2) )
""", """    s._dsl.adjacency[o1].add( o2 )
    s._dsl.adjacency[o2].add( o1 )

    s._dsl.connect_order.append( (o1, o2) )
""", 'R-C15-saved'),
    _m('connect-order-appended-outside-the-guard', L3, """      s._dsl.adjacency[o2].add( o1 )

      s._dsl.connect_order.append( (o1, o2) )
""", """      s._dsl.adjacency[o2].add( o1 )

    s._dsl.connect_order.append( (o1, o2) )
""", 'R-C15-saved'),
    _m('seed-top-call-table-holds-copies', L2, "        s._dsl.all_upblk_calls[ blk ] = calls\n", "        s._dsl.all_upblk_calls[ blk ] = set( calls )\n",
       'R-C15-saved'),
    _m('top-read-table-holds-copies', L2, "      s._dsl.all_upblk_reads.update( m._dsl.upblk_reads )",
       "      s._dsl.all_upblk_reads.update( { b: set(v) for b, v in m._dsl.upblk_reads.items() } )", 'R-C15'),
    _m('saved-func-calls-not-purged', COMP, "        parent._dsl.func_calls[func] -= to_save\n", "", 'R-C15-saved'),
    _m('return-order-swapped', COMP, "return saved_connections, saved_upblk_reads, saved_upblk_writes, saved_upblk_calls,",
       "return saved_connections, saved_upblk_writes, saved_upblk_reads, saved_upblk_calls,", 'R-C15-saved'),
    _m('caller-passes-func-lists-swapped', COMP, "saved_func_reads, saved_func_writes, saved_func_calls)",
       "saved_func_writes, saved_func_reads, saved_func_calls)", 'R-C15-saved', count='first'),
    _m('filter-inverted', COMP, """          if x in removed_connectables:
            to_save.add( x )
            saved_upblk_writes.append( (blk, repr(x)) )""", """          if x not in removed_connectables:
            to_save.add( x )
            saved_upblk_writes.append( (blk, repr(x)) )""", 'R-C15-saved'),
    _m('calls-saved-into-reads-list', COMP, "            saved_upblk_calls.append( (blk, repr(x)) )",
       "            saved_upblk_reads.append( (blk, repr(x)) )", 'R-C15-saved'),
    _m('purge-from-the-wrong-map', COMP, "        parent._dsl.func_writes[func] -= to_save", "        parent._dsl.func_reads[func] -= to_save", 'R-C15-saved'),
    _m('saved-name-slice-off-by-one', COMP, 'saved_connections.append( (other, "top"+repr(x)[1:]) )',
       'saved_connections.append( (other, "top"+repr(x)[2:]) )', 'R-C15-saved'),
    _m('loopback-name-slice-off-by-one', COMP, '("top"+repr(other)[1:], "top"+repr(x)[1:])', '("top"+repr(other)[2:], "top"+repr(x)[1:])',
       'R-C15-saved'),
    _m('eval-root-renamed', COMP, """    try:
      top = s._dsl.elaborate_top
    except AttributeError:
      raise NotElaboratedError()

    NamedObject._elaborate_stack = [ parent ]""", """    try:
      the_top = top = s._dsl.elaborate_top.get_parent_object() or s
    except AttributeError:
      raise NotElaboratedError()

    NamedObject._elaborate_stack = [ parent ]""", 'R-C15-saved'),
    _m('connections-to-removed-neighbours-saved', COMP, "if other not in removed_connectables and other not in removed_consts:",
       "if other not in removed_consts:", 'R-C15'),
    # --- naming siblings
    _m('list-branch-forgets-my-indices', COMP, "      obj._dsl._my_indices  = indices\n", "", 'R-C15-names'),
    _m('list-branch-level-not-incremented', COMP, "      obj._dsl.level      = parent._dsl.level + 1", "      obj._dsl.level      = parent._dsl.level", 'R-C15-names'),
    _m('list-branch-full-name-without-indices', COMP, 'obj._dsl.full_name = ( parent._dsl.full_name + "." + u_name )',
       'obj._dsl.full_name = ( parent._dsl.full_name + "." + name )', 'R-C15-names'),
    _m('list-branch-regex-matches-field-name', COMP, "              if node.compiled_re.match( u_name ):", "              if node.compiled_re.match( name ):", 'R-C15-names'),
    _m('list-branch-my-name-is-field-name', COMP, "      obj._dsl._my_name     = name", "      obj._dsl._my_name     = u_name", 'R-C15-names'),
    _m('list-branch-no-stack-push', COMP, "      NamedObject._elaborate_stack.append( obj )\n", "", 'R-C15-names'),
    _m('list-branch-hook-not-removed', COMP, """      obj._construct()
      del NamedObject.__setattr__
""", """      obj._construct()
""", 'R-C15-names'),
    _m('setattr-sibling-changed-alone', NAMED, """            ud._my_name  = name
            ud.my_name   = u_name""", """            ud._my_name  = ud._short_name = name
            ud.my_name   = u_name""", 'R-C15-names'),
    _m('index-walk-off-by-one', COMP, """        i = 0
        while i < len(my_indices) - 1:""", """        i = 0
        while i < len(my_indices) - 2:""", 'R-C15-names'),
    # --- flush / protocol
    _m('seed-construct-merges-into-a-copy', COMP, """      else:
        kwargs = s._dsl.kwargs
        if "construct" in s._dsl.param_tree.leaf:""", """      else:
        kwargs = s._dsl.kwargs.copy()
        if "construct" in s._dsl.param_tree.leaf:""", 'R-C15-flush'),
    _m('replace-forgets-method-flush', COMP, "    top._flush_pending_method_connections()\n    if check:", "    if check:", 'R-C15-flush', count='first'),
    _m('replace-with-obj-no-check-by-default', COMP, "def replace_component_with_obj( top, foo, new_obj, check=True ):",
       "def replace_component_with_obj( top, foo, new_obj, check=False ):", 'R-C15-flush'),
    _m('method-flush-resolves-value-nets', COMP, "s._dsl.all_method_nets = s._resolve_method_connections()",
       "s._dsl.all_method_nets = s._resolve_value_connections()", 'R-C15-flush'),
    _m('delete-does-not-dirty-method-nets', COMP, "      top._dsl._has_pending_method_connections = True\n\n      # We clean up", "\n      # We clean up", 'R-C15-flush'),
    _m('replace-passes-indexed-name', COMP, "    foo_name    = foo._dsl._my_name\n", "    foo_name    = foo._dsl.my_name\n", 'R-C15-flush', count='first'),
    _m('replace-drops-kwargs', COMP, "new_obj = cls( *foo._dsl.args, **foo._dsl.kwargs )", "new_obj = cls( *foo._dsl.args )", 'R-C15-flush'),
    _m('parent-read-after-delete', COMP, """    parent = foo.get_parent_object()
    foo_name    = foo._dsl._my_name
    foo_indices = foo._dsl._my_indices

    saved_connections, saved_upblk_reads, saved_upblk_writes, saved_upblk_calls, \\
      saved_func_reads, saved_func_writes, saved_func_calls = top._delete_component( foo )

    new_obj""", """    foo_name    = foo._dsl._my_name
    foo_indices = foo._dsl._my_indices

    saved_connections, saved_upblk_reads, saved_upblk_writes, saved_upblk_calls, \\
      saved_func_reads, saved_func_writes, saved_func_calls = top._delete_component( foo )
    parent = foo.get_parent_object()

    new_obj""", 'R-C15-flush'),
    _m('value-getter-skips-flush', COMP, """    s._check_called_at_elaborate_top( "get_all_value_nets" )
    s._flush_pending_value_connections()""", """    s._check_called_at_elaborate_top( "get_all_value_nets" )""", 'R-C15-flush'),
]

EQUIV = [
    _m('l4-uncollect-early-return', L4, """    super()._uncollect_vars( m )
    if isinstance( m, ComponentLevel4 ):
      s._dsl.all_update_once   -= m._dsl.update_once
      s._dsl.all_M_constraints -= m._dsl.M_constraints
""", """    super()._uncollect_vars( m )
    if not isinstance( m, ComponentLevel4 ):
      return
    s._dsl.all_M_constraints -= m._dsl.M_constraints
    s._dsl.all_update_once   -= m._dsl.update_once
"""),
    _m('l1-difference-update', L1, "      s._dsl.all_upblks -= m._dsl.upblks", "      s._dsl.all_upblks.difference_update( m._dsl.upblks )"),
    _m('l2-update-as-loop', L2, "      s._dsl.all_upblk_reads.update( m._dsl.upblk_reads )",
       "      for b, rds in m._dsl.upblk_reads.items():\n        s._dsl.all_upblk_reads[ b ] = rds"),
    _m('l2-del-as-pop-renamed-var', L2, """      for k in m._dsl.upblks:
        del s._dsl.all_upblk_reads[k]
        del s._dsl.all_upblk_writes[k]
        del s._dsl.all_upblk_calls[k]""", """      for ub in m._dsl.upblks:
        s._dsl.all_upblk_reads.pop( ub )
        del s._dsl.all_upblk_writes[ub]
        del s._dsl.all_upblk_calls[ub]"""),
    _m('l2-keyed-diff-through-items', L2, """      for k in m._dsl.RD_U_constraints:
        s._dsl.all_RD_U_constraints[k] -= m._dsl.RD_U_constraints[k]""", """      for k, cons in m._dsl.RD_U_constraints.items():
        s._dsl.all_RD_U_constraints[k] -= cons"""),
    _m('l3-collect-without-alias', L3, """      all_ajd = s._dsl.all_adjacency
      for k, v in m._dsl.adjacency.items():
        all_ajd[k] |= v""", """      for sig, nbrs in m._dsl.adjacency.items():
        s._dsl.all_adjacency[sig] |= nbrs"""),
    _m('l2-uncollect-local-alias', L2, """      for k in m._dsl.WR_U_constraints:
        s._dsl.all_WR_U_constraints[k] -= m._dsl.WR_U_constraints[k]""", """      wr = m._dsl.WR_U_constraints
      all_wr = s._dsl.all_WR_U_constraints
      for k in wr.keys():
        all_wr[k] -= wr[k]"""),
    _m('add-full-name-fstring', COMP, 'obj._dsl.full_name = ( parent._dsl.full_name + "." + u_name )',
       'obj._dsl.full_name = f"{parent._dsl.full_name}.{u_name}"'),
    _m('add-paramtree-conditions-merged', COMP, """      if parent._dsl.param_tree is not None:
        if parent._dsl.param_tree.children is not None:
          for comp_name, node in parent._dsl.param_tree.children.items():
            if comp_name == u_name:
              # Lazily create the param tree
              if obj._dsl.param_tree is None:
                obj._dsl.param_tree = ParamTreeNode()
              obj._dsl.param_tree.merge( node )

            elif node.compiled_re is not None:
              if node.compiled_re.match( u_name ):
                # Lazily create the param tree
                if obj._dsl.param_tree is None:
                  obj._dsl.param_tree = ParamTreeNode()
                obj._dsl.param_tree.merge( node )
""", """      ptree = parent._dsl.param_tree
      if ptree is not None and ptree.children is not None:
          for comp_name, node in ptree.children.items():
            if comp_name == u_name:
              if obj._dsl.param_tree is None:
                obj._dsl.param_tree = ParamTreeNode()
              obj._dsl.param_tree.merge( node )
            elif node.compiled_re is not None and node.compiled_re.match( u_name ):
                if obj._dsl.param_tree is None:
                  obj._dsl.param_tree = ParamTreeNode()
                obj._dsl.param_tree.merge( node )
"""),
    _m('delete-sets-reordered-and-commuted', COMP, """      top._dsl.all_components    -= removed_components
      top._dsl.all_signals       -= removed_signals
      top._dsl.all_method_ports  -= removed_method_ports

      top._dsl.all_named_objects -= removed_components

      removed_connectables = removed_signals | removed_method_ports
      top._dsl.all_named_objects -= removed_connectables
""", """      removed_connectables = removed_method_ports | removed_signals
      top._dsl.all_named_objects -= removed_connectables
      top._dsl.all_named_objects.difference_update( removed_components )
      top._dsl.all_method_ports  -= removed_method_ports
      top._dsl.all_signals       -= removed_signals
      top._dsl.all_components    -= removed_components
"""),
    _m('saved-connection-name-plain-repr', COMP, 'saved_connections.append( (other, "top"+repr(x)[1:]) )', 'saved_connections.append( (other, repr(x)) )'),
    _m('to-save-renamed', COMP, """        to_save = set()
        for x in calls:
          if x in removed_connectables or x in removed_interfaces:
            to_save.add( x )
            saved_func_calls.append( (func, repr(x)) )
        parent._dsl.func_calls[func] -= to_save""", """        gone = set()
        for port in calls:
          if port in removed_interfaces or port in removed_connectables:
            saved_func_calls.append( (func, repr(port)) )
            gone.add( port )
        parent._dsl.func_calls[func] -= gone"""),
    _m('flushes-swapped', COMP, """    top._flush_pending_value_connections()
    top._flush_pending_method_connections()
    if check:
      top.check()

  def replace_component_with_obj""", """    top._flush_pending_method_connections()
    top._flush_pending_value_connections()
    if check:
      top.check()

  def replace_component_with_obj"""),
    _m('paramtreenode-through-star-import', COMP, "from .NamedObject import NamedObject, ParamTreeNode", "from .NamedObject import *"),
    _m('back-edge-guard-as-not-or', COMP, "if other not in removed_connectables and other not in removed_consts:",
       "if not (other in removed_connectables or other in removed_consts):"),
    _m('l4-uncollect-params-renamed', L4, """  def _uncollect_vars( s, m ):
    super()._uncollect_vars( m )
    if isinstance( m, ComponentLevel4 ):
      s._dsl.all_update_once   -= m._dsl.update_once
      s._dsl.all_M_constraints -= m._dsl.M_constraints
""", """  def _uncollect_vars( self, comp ):
    ComponentLevel3._uncollect_vars( self, comp )
    if isinstance( comp, ComponentLevel4 ):
      top_dsl = self._dsl
      top_dsl.all_update_once   -= comp._dsl.update_once
      top_dsl.all_M_constraints -= comp._dsl.M_constraints
"""),
    _m('delete-collects-with-three-single-filters', COMP, """      removed_components, removed_signals, removed_method_ports = \\
        foo._collect_all( [ lambda x: isinstance( x, Component ), \\
                            lambda x: isinstance( x, Signal ), \\
                            lambda x: isinstance( x, MethodPort ) ] )
""", """      removed_components   = foo._collect_all_single( lambda x: isinstance( x, Component ) )
      removed_signals      = foo._collect_all_single( lambda y: isinstance( y, Signal ) )
      removed_method_ports = foo._collect_all_single( lambda z: isinstance( z, MethodPort ) )
"""),
    _m('F2-prune-as-len-test-and-pop', L2, """        if not s._dsl.all_WR_U_constraints[k]:
          del s._dsl.all_WR_U_constraints[k]
""", """        if len( s._dsl.all_WR_U_constraints[k] ) == 0:
          s._dsl.all_WR_U_constraints.pop( k )
"""),
    _m('F1-removed-consts-popped', COMP, """        if y in top._dsl.all_adjacency:
          del top._dsl.all_adjacency[y]
""", """        top._dsl.all_adjacency.pop( y, None )
"""),
    _m('F3-interfaces-collected-with-renamed-lambda-and-difference-update', COMP, """      removed_interfaces = foo._collect_all_single( lambda x: isinstance( x, Interface ) )
      top._dsl.all_named_objects -= removed_interfaces
""", """      removed_interfaces = foo._collect_all_single( lambda ifc: isinstance( ifc, Interface ) )
      top._dsl.all_named_objects.difference_update( removed_interfaces )
"""),
    _m('signals-and-ports-collected-separately-after-rw', COMP, """    added_signals, added_method_ports = \\
      obj._collect_all( [ lambda x: isinstance( x, Signal ), \\
                          lambda x: isinstance( x, MethodPort ) ] )
""", """    added_signals = obj._collect_all_single( lambda x: isinstance( x, Signal ) )
    added_method_ports = obj._collect_all_single( lambda x: isinstance( x, MethodPort ) )
"""),
    _m('construct-merges-into-copy-and-stores-back', COMP, """      else:
        kwargs = s._dsl.kwargs
        if "construct" in s._dsl.param_tree.leaf:
          more_args = s._dsl.param_tree.leaf[ "construct" ]
          kwargs.update( more_args )
""", """      else:
        kwargs = dict( s._dsl.kwargs )
        if "construct" in s._dsl.param_tree.leaf:
          more_args = s._dsl.param_tree.leaf[ "construct" ]
          kwargs.update( more_args )
        s._dsl.kwargs = kwargs
"""),
    _m('connect-order-comprehension-into-local', COMP, """      new_connect_order = []
      for (x, y) in parent._dsl.connect_order:
        if x not in removed_connectables and y not in removed_connectables:
          new_connect_order.append( (x, y) )
""", """      new_connect_order = [ (x, y) for (x, y) in parent._dsl.connect_order
                            if x not in removed_connectables and y not in removed_connectables ]
"""),
    _m('connect-order-de-morgan-continue', COMP, """        if x not in removed_connectables and y not in removed_connectables:
          new_connect_order.append( (x, y) )
""", """        if y in removed_connectables or x in removed_connectables:
          continue
        new_connect_order.append( (x, y) )
"""),
    _m('connect-order-filter-lambda', COMP, """      new_connect_order = []
      for (x, y) in parent._dsl.connect_order:
        if x not in removed_connectables and y not in removed_connectables:
          new_connect_order.append( (x, y) )

      parent._dsl.connect_order = new_connect_order
""", """      parent._dsl.connect_order = list( filter( lambda pr: not ( pr[0] in removed_connectables or pr[1] in removed_connectables ),
                                                parent._dsl.connect_order ) )
"""),
    _m('connect-order-split-ifs', COMP, """        if x not in removed_connectables and y not in removed_connectables:
          new_connect_order.append( (x, y) )
""", """        if x not in removed_connectables:
          if not ( y in removed_connectables ):
            new_connect_order.append( (x, y) )
"""),
    _m('removed-consts-as-set-comprehension', COMP, """      removed_consts = set()
      # A placeholder may contain components too, so always uncollect
      for x in removed_components:
        # remove consts
        removed_consts |= x._dsl.consts
        # uncollect variables
        top._uncollect_vars( x )
""", """      removed_consts = { k for comp in removed_components for k in comp._dsl.consts }
      for x in removed_components:
        top._uncollect_vars( x )
"""),
    _m('removed-consts-filled-by-update-and-hoisted-filter', COMP, """        removed_consts |= x._dsl.consts
        # uncollect variables
        top._uncollect_vars( x )
""", """        removed_consts.update( x._dsl.consts )
        # uncollect variables
        top._uncollect_vars( x )
      going_away = removed_connectables | removed_consts
"""),
    _m('rw-elaboration-as-comprehension', COMP, """    for c in added_components:
      c._elaborate_read_write_func()
""", """    [ comp._elaborate_read_write_func() for comp in added_components ]
"""),
    _m('top-call-table-through-local-alias', L2, "        s._dsl.all_upblk_calls[ blk ] = calls\n",
       "        blk_calls = calls\n        s._dsl.all_upblk_calls[ blk ] = blk_calls\n"),
    _m('connect-guard-flipped-if-else', L3, """    if o1 not in s._dsl.adjacency[o2]:
      assert o2 not in s._dsl.adjacency[o1]
      s._dsl.adjacency[o1].add( o2 )
      s._dsl.adjacency[o2].add( o1 )

      s._dsl.connect_order.append( (o1, o2) )
""", """    if o1 in s._dsl.adjacency[o2]:
      pass
    else:
      assert o2 not in s._dsl.adjacency[o1]
      s._dsl.adjacency[o1].add( o2 )
      s._dsl.adjacency[o2].add( o1 )
      s._dsl.connect_order.append( (o1, o2) )
"""),
    _m('construct-record-inlined', COMP, """      s.construct( *s._dsl.args, **kwargs )

      # We hook up""", """      s.construct( *s._dsl.args, **s._dsl.kwargs )

      # We hook up"""),
    _m('connect-adjacency-alias', L3, "    if o1 not in s._dsl.adjacency[o2]:\n      assert o2 not in s._dsl.adjacency[o1]\n      s._dsl.adjacency[o1].add( o2 )\n      s._dsl.adjacency[o2].add( o1 )",
       "    adj = s._dsl.adjacency\n    if o1 not in adj[o2]:\n      assert o2 not in adj[o1]\n      adj[o1].add( o2 )\n      s._dsl.adjacency[o2].add( o1 )"),
    _m('connect-neighbour-set-locals', L3, "      s._dsl.adjacency[o1].add( o2 )\n      s._dsl.adjacency[o2].add( o1 )\n\n      s._dsl.connect_order",
       "      nb1 = s._dsl.adjacency[o1]\n      nb2 = s._dsl.adjacency[o2]\n      nb1.add( o2 )\n      nb2.add( o1 )\n\n      s._dsl.connect_order"),
    _m('connect-guard-on-neighbour-set-local-and-order-alias', L3, """    if o1 not in s._dsl.adjacency[o2]:
      assert o2 not in s._dsl.adjacency[o1]
      s._dsl.adjacency[o1].add( o2 )
      s._dsl.adjacency[o2].add( o1 )

      s._dsl.connect_order.append( (o1, o2) )
""", """    nb = s._dsl.adjacency[o2]
    order = s._dsl.connect_order
    if o1 not in nb:
      assert o2 not in s._dsl.adjacency[o1]
      s._dsl.adjacency[o1].add( o2 )
      nb.add( o1 )

      order.append( (o1, o2) )
"""),
    _m('connect-guard-as-early-return', L3, """    if o1 not in s._dsl.adjacency[o2]:
      assert o2 not in s._dsl.adjacency[o1]
      s._dsl.adjacency[o1].add( o2 )
      s._dsl.adjacency[o2].add( o1 )

      s._dsl.connect_order.append( (o1, o2) )
""", """    if o2 in s._dsl.adjacency[o1]:
      return
    s._dsl.adjacency[o1].add( o2 )
    s._dsl.adjacency[o2].add( o1 )
    s._dsl.connect_order.append( (o1, o2) )
"""),
    _m('R4-connect-order-comprehension', COMP, """      new_connect_order = []
      for (x, y) in parent._dsl.connect_order:
        if x not in removed_connectables and y not in removed_connectables:
          new_connect_order.append( (x, y) )
""", """      new_connect_order = [ pr for pr in parent._dsl.connect_order
                            if not ( pr[0] in removed_connectables or pr[1] in removed_connectables ) ]
"""),
    _m('R4-reads-list-as-comprehension-with-separate-purge', COMP, """      for blk, reads in top._dsl.all_upblk_reads.items():
        to_save = set()
        for x in reads:
          if x in removed_connectables:
            to_save.add( x )
            saved_upblk_reads.append( (blk, repr(x)) )
        top._dsl.all_upblk_reads[blk] -= to_save
""", """      saved_upblk_reads = [ (blk, repr(sig)) for blk, reads in top._dsl.all_upblk_reads.items()
                                             for sig in reads if sig in removed_connectables ]
      for blk in top._dsl.all_upblk_reads:
        top._dsl.all_upblk_reads[blk] -= removed_connectables
"""),
    _m('R4-calls-filter-hoisted-union', COMP, """          if x in removed_connectables or x in removed_interfaces:
            to_save.add( x )
            saved_func_calls.append( (func, repr(x)) )""", """          if x in ( removed_connectables | removed_interfaces ):
            to_save.add( x )
            saved_func_calls.append( (func, repr(x)) )"""),
    _m('R4-spawned-signals-recollected-without-difference', COMP,
       "spawned_signals = obj._collect_all_single( lambda x: isinstance( x, Signal ) ) - added_signals",
       "spawned_signals = obj._collect_all_single( lambda sig: isinstance( sig, Signal ) )"),
    _m('collector-filter-startswith', NAMED, "            if name[0] != '_': # filter private variables\n              stack.append( obj )",
       "            if not name.startswith('_'):\n              stack.append( obj )", count='first'),
    _m('collector-filter-merged-condition', NAMED, """          if   isinstance( name, str ):
            if name[0] != '_': # filter private variables
              stack.append( obj )

          elif isinstance( name, tuple ): # name = [1:3]
            stack.append( obj )
""", """          if ( isinstance( name, str ) and name[:1] != '_' ) or isinstance( name, tuple ):
            stack.append( obj )
""", count='first'),
    dict(name='add-walk-as-for-loop', edits=[
        dict(file=COMP, old="      i = 0\n      while i < len(indices) - 1:\n        list_parent = list_parent[ indices[i] ]\n        i += 1\n",
             new="      for k in indices[:-1]:\n        list_parent = list_parent[ k ]\n", count=1),
        dict(file=COMP, old="      assert list_parent[ indices[i] ] is None,", new="      assert list_parent[ indices[-1] ] is None,", count=1),
        dict(file=COMP, old="      list_parent[ indices[i] ] = obj", new="      list_parent[ indices[-1] ] = obj", count=1)]),
    dict(name='delete-walk-as-reduce', edits=[
        dict(file=COMP, old="        i = 0\n        while i < len(my_indices) - 1:\n          list_parent = list_parent[ my_indices[i] ]\n          i += 1\n",
             new="        from functools import reduce\n        list_parent = reduce( lambda lst, k: lst[k], my_indices[:-1], list_parent )\n", count=1),
        dict(file=COMP, old="        list_parent[ my_indices[i] ] = None", new="        list_parent[ my_indices[len(my_indices) - 1] ] = None", count=1)]),
    _m('add-walk-bound-rearranged', COMP, "      while i < len(indices) - 1:", "      while i + 1 < len(indices):"),
    _m('double-buffer-tested-against-whole-design-registry', COMP, "      if blk in parent._dsl.update_ff:\n        written._dsl.needs_double_buffer = True",
       "      if blk in top._dsl.all_update_ff:\n        written._dsl.needs_double_buffer = True"),
    _m('double-buffer-test-negated-early-continue', COMP, "      if blk in parent._dsl.update_ff:\n        written._dsl.needs_double_buffer = True",
       "      if blk not in parent._dsl.update_ff:\n        continue\n      written._dsl.needs_double_buffer = True"),
    _m('read-save-hoisted-before-strip', COMP, """            to_save.add( x )
            saved_upblk_reads.append( (blk, repr(x)) )""", """            saved_upblk_reads.append( (blk, repr(x)) )
            to_save.add( x )"""),
    _m('write-filter-as-early-continue', COMP, """        for x in writes:
          if x in removed_connectables:
            to_save.add( x )
            saved_upblk_writes.append( (blk, repr(x)) )""", """        for x in writes:
          if x not in removed_connectables:
            continue
          to_save.add( x )
          saved_upblk_writes.append( (blk, repr(x)) )"""),
    _m('call-strip-and-save-in-separate-ifs-same-condition', COMP, """          if x in removed_connectables or x in removed_interfaces:
            to_save.add( x )
            saved_upblk_calls.append( (blk, repr(x)) )""", """          if x in removed_connectables or x in removed_interfaces:
            to_save.add( x )
          if x in ( removed_interfaces | removed_connectables ):
            saved_upblk_calls.append( (blk, repr(x)) )"""),
    _m('restore-through-local-set', COMP, "      top._dsl.all_upblk_reads[blk].add( eval(obj_name) )",
       "      reads_of_blk = top._dsl.all_upblk_reads[blk]\n      reads_of_blk.add( eval(obj_name) )"),
    _m('saved-state-grouped-and-starred', COMP, """    top._add_component( parent, foo_name, foo_indices, new_obj, saved_connections,
                        saved_upblk_reads, saved_upblk_writes, saved_upblk_calls,
                        saved_func_reads, saved_func_writes, saved_func_calls)

    top._flush_pending_value_connections()
    top._flush_pending_method_connections()
    if check:
      top.check()

  def add_value_port""", """    saved_state = ( saved_connections,
                    saved_upblk_reads, saved_upblk_writes, saved_upblk_calls,
                    saved_func_reads, saved_func_writes, saved_func_calls )

    top._add_component( parent, foo_name, foo_indices, new_obj, *saved_state )

    top._flush_pending_value_connections()
    top._flush_pending_method_connections()
    if check:
      top.check()

  def add_value_port"""),
    _m('delete-result-kept-in-one-local', COMP, """    saved_connections, saved_upblk_reads, saved_upblk_writes, saved_upblk_calls, \\
      saved_func_reads, saved_func_writes, saved_func_calls = top._delete_component( foo )

    new_obj = cls( *foo._dsl.args, **foo._dsl.kwargs )

    # We actually don't need to merge param tree here because when we call
    # _add_component, the parameters stored in parent will be pushed down
    # to new_obj
    top._add_component( parent, foo_name, foo_indices, new_obj, saved_connections,
                        saved_upblk_reads, saved_upblk_writes, saved_upblk_calls,
                        saved_func_reads, saved_func_writes, saved_func_calls)
""", """    saved = top._delete_component( foo )

    new_obj = cls( *foo._dsl.args, **foo._dsl.kwargs )

    top._add_component( parent, foo_name, foo_indices, new_obj, *saved )
"""),
    _m('l1-set-methods-all-mutating', L1, """      s._dsl.all_upblks -= m._dsl.upblks
      for k in m._dsl.upblks:
        del s._dsl.all_upblk_hostobj[ k ]
      s._dsl.all_U_U_constraints -= m._dsl.U_U_constraints""", """      s._dsl.all_upblks.difference_update( m._dsl.upblks )
      for k in m._dsl.upblks:
        s._dsl.all_upblk_hostobj.pop( k )
      s._dsl.all_U_U_constraints.difference_update( m._dsl.U_U_constraints )"""),
    _m('interfaces-removed-through-public-subtree-accessor', COMP,
       "      removed_interfaces = foo._collect_all_single( lambda x: isinstance( x, Interface ) )",
       "      removed_interfaces = set( foo.get_all_object_filter( lambda x: isinstance( x, Interface ) ) )"),
    _m('l4-removal-guarded-by-its-own-operand', L4, "      s._dsl.all_update_once   -= m._dsl.update_once",
       "      if m._dsl.update_once:\n        s._dsl.all_update_once -= m._dsl.update_once"),
    _m('l1-removal-guarded-by-own-operand-length', L1, "      s._dsl.all_U_U_constraints -= m._dsl.U_U_constraints",
       "      if len( m._dsl.U_U_constraints ) > 0:\n        s._dsl.all_U_U_constraints -= m._dsl.U_U_constraints"),
    _m('const-neighbour-saved-in-both-branches', COMP, """                del top._dsl.all_adjacency[other]
                other = other._dsl.const
              saved_connections.append( (other, "top"+repr(x)[1:]) ) # other is from outside
""", """                del top._dsl.all_adjacency[other]
                saved_connections.append( (other._dsl.const, "top"+repr(x)[1:]) )
                continue
              saved_connections.append( (other, "top"+repr(x)[1:]) ) # other is from outside
"""),
    _m('setattr-index-suffix-in-a-local', NAMED, """            ud.my_name   = u_name = name + "".join( [ f"[{x}]" for x in indices ] )""",
       """            idx_str = "".join( [ f"[{x}]" for x in indices ] )
            u_name  = name + idx_str

            ud.my_name   = u_name"""),
    _m('add-index-suffix-in-a-local', COMP, """      obj._dsl.my_name    = u_name = name + "".join( [ f"[{x}]" for x in indices ] )""",
       """      suffix = "".join( [ f"[{x}]" for x in indices ] )
      u_name = name + suffix
      obj._dsl.my_name    = u_name"""),
    _m('saved-name-in-a-local', COMP, """              saved_connections.append( (other, "top"+repr(x)[1:]) ) # other is from outside""",
       """              removed_end_name = "top"+repr(x)[1:]
              saved_connections.append( (other, removed_end_name) )"""),
    _m('update-ff-restricted-to-live-blocks-after-super', L2, "      s._dsl.all_update_ff -= m._dsl.update_ff\n",
       "      s._dsl.all_update_ff &= s._dsl.all_upblks\n"),
    _m('update-once-restricted-by-intersection-update', L4, "      s._dsl.all_update_once   -= m._dsl.update_once",
       "      s._dsl.all_update_once.intersection_update( s._dsl.all_upblks )"),
    dict(name='replace-reads-through-dsl-alias', edits=[
        dict(file=COMP, old="    foo_name    = foo._dsl._my_name\n    foo_indices = foo._dsl._my_indices\n",
             new="    foo_dsl     = foo._dsl\n    foo_name    = foo_dsl._my_name\n    foo_indices = foo_dsl._my_indices\n", count='first'),
        dict(file=COMP, old="    new_obj = cls( *foo._dsl.args, **foo._dsl.kwargs )", new="    new_obj = cls( *foo_dsl.args, **foo_dsl.kwargs )", count=1)]),
    _m('hostobj-stored-by-update-of-pairs', L1, "      for blk in m._dsl.upblks:\n        s._dsl.all_upblk_hostobj[ blk ] = m\n",
       "      s._dsl.all_upblk_hostobj.update( ( blk, m ) for blk in m._dsl.upblks )\n"),
    _m('calls-stored-by-dict-comprehension-update', L2, "      s._dsl.all_upblk_writes.update( m._dsl.upblk_writes )",
       "      s._dsl.all_upblk_writes.update( { b: w for b, w in m._dsl.upblk_writes.items() } )"),
    _m('add-sets-via-update', COMP, "    top._dsl.all_signals       |= added_signals", "    top._dsl.all_signals.update( added_signals )"),
]

LEVEL_TEXT = ("Static pairing analysis of the replace_component machinery: the additive half of elaboration (_collect_vars at "
              "every class level, _add_component) and the hand-written subtractive half (_uncollect_vars, _delete_component) are "
              "abstracted on every run into tables of (aggregate, operator, key domain, operand, guard) and compared row by row; "
              "the saved_* tuple lists are followed from the map they are filtered from to the map they are restored into; the "
              "duplicated naming code is compared with its sibling field by field; flush/check protocol order and name resolution "
              "are checked. It decides, for every hierarchy and every sequence of replacements, the necessary condition that "
              "whatever is added for a component is removed again (and vice versa) at the level of code shape; it does not "
              "execute pymtl3 and does not decide trace equality.")
LEVEL_NOTE = ("Trusted: Python set/dict semantics, components are Component instances (linear ComponentLevel chain, re-checked), "
              "repr(x) is the full name. Constructs outside the recognised operator vocabulary end in ANALYSIS-ERROR, never a pass. "
              "Known genuine findings on the current tree are listed in known_findings.json (stale Const keys in all_adjacency, and "
              "others reported by this module).")
TECHNIQUE = ("ast extraction of effect tables with loop-variable / alias abstraction, key-domain derivation from writers, "
             "set-valued abstract evaluation of local sets, sibling comparison after role renaming and guard normalisation, "
             "scope-based name resolution through the loader")
